#!/usr/bin/env python3
"""rs2coq, part 19: the LOCK DISCIPLINE of the crate -> coq/Gen/LocksGen.v.

For every function of the covered set (ROOTS below) and every function of the
crate it reaches that may touch the role-manager lock, the body is parsed and
translated into a lock skeleton `gen_lk_F : lk` (coq/Gen/LocksRt.v: LHold for a
guard and the code it is alive over, LOp for a RoleManager method called through
a guard, LIf / LLoop / LExit / LBreak / LCont / LCall for the control flow).
From the skeleton the translator also computes the block B = [Acq RM m; op; Rel RM]
every run repeats and the set of repetition counts, and emits
    gen_locks_F k := repeat_prog k B,  gen_locks_F_lo,  gen_locks_F_hi
(coq/PinChecks/PcLocksGen.v re-derives both from gen_lk_F with the verified
analysis of coq/Proofs/LocksGenP.v, so this second half is not trusted).

Everything is READ from the Rust text on every run:
  * a lexer and an item scanner over ALL src/**/*.rs (impl / trait / struct /
    type / fn / macro_rules!, #[cfg] resolved for FEATURES, test modules dropped);
  * a Pratt parser for function bodies (statements, patterns, the expression
    grammar incl. closures, if let, match with guards, while let, `?`, .await,
    turbofish, struct literals, casts, ranges, std macros; macro_rules! macros of
    the crate with $x:ident / $x:expr parameters are EXPANDED and parsed);
  * a light type inference (struct fields, fn signatures, type aliases,
    HashMap / Option / Result / Vec / iterator operations) used for two things
    only: is the receiver of `.read()` / `.write()` an Arc<RwLock<dyn RoleManager>>,
    and which crate function does a method call dispatch to;
  * the may-lock closure of the crate's call graph (by name, conservative): a call
    is dropped from a skeleton only if NO definition of that name can reach a lock
    site, a registered-closure evaluation or an indirect call that can.
Rust rules encoded (see the header of coq/Gen/LocksRt.v): temporary scopes of the
2021 edition, RAII release on every way out, evaluation order receiver-arguments-call,
closures run by iterator adaptors / Option combinators, closures stored by
rhai::Engine::register_fn and run by Engine::eval_*.

Beyond ROOTS, every other function of the crate that may reach a lock site is translated too (best effort: the
whole management / RBAC API ends up in gen_locks_table); what cannot be is listed in gen_locks_uncovered, and
gen_locks_sites_total / gen_locks_sites_covered count the `.read()` / `.write()` sites of the crate and those
the skeletons account for.

Outside the subset -> Untranslatable: the file then still defines every name the
proofs mention (stubs), `gen_locks_translated := false`, reason in a comment.
"""
import glob
import os
import re
import sys

HERE = os.path.dirname(os.path.abspath(__file__))
sys.path.insert(0, HERE)
import pins  # noqa: E402
import rs2coq as R  # noqa: E402

Untranslatable = R.Untranslatable
FEATURES = dict(R.FEATURES)
FEATURES.update({"runtime-tokio": True, "runtime-async-std": False, "glob": False, "ip": False, "amortized": False})

# ---------------------------------------------------------------- lexer
TOK = re.compile(
    r"""(?P<ws>\s+)|(?P<lc>//[^\n]*)|(?P<bc>/\*.*?\*/)"""
    r"""|(?P<raw>b?r(?P<h>\#*)"(?P<rawbody>.*?)"(?P=h))"""
    r"""|(?P<str>b?"(?:[^"\\]|\\.)*")"""
    r"""|(?P<char>b?'(?:[^'\\\n]|\\(?:x[0-9a-fA-F]{2}|u\{[0-9a-fA-F]+\}|.))')"""
    r"""|(?P<life>'[A-Za-z_]\w*)"""
    r"""|(?P<num>\d[\d_]*(?:\.\d[\d_]*)?(?:[eE][+-]?\d+)?(?:[iuf](?:8|16|32|64|128|size))?)"""
    r"""|(?P<mvar>\$[A-Za-z_]\w*)"""
    r"""|(?P<id>r\#[A-Za-z_]\w*|[A-Za-z_]\w*)"""
    r"""|(?P<op><<=|>>=|\.\.\.|\.\.=|::|->|=>|==|!=|<=|>=|&&|\|\||\+=|-=|\*=|/=|%=|\^=|&=|\|=|<<|>>|\.\.|[#{}()\[\];=!&.,<>?|*:+\-/@%^~$])""",
    re.S)


class Tok:
    __slots__ = ("k", "v", "line")

    def __init__(self, k, v, line):
        self.k, self.v, self.line = k, v, line

    def __repr__(self):
        return "%s:%s" % (self.k, self.v)


def lex(src, line0=1):
    out = []
    i = 0
    line = line0
    n = len(src)
    while i < n:
        m = TOK.match(src, i)
        if not m:
            raise Untranslatable("cannot tokenise at line %d: %r" % (line, src[i:i + 30]))
        kind = m.lastgroup
        text = m.group(0)
        if kind == "h" or kind == "rawbody":   # inner groups of raw
            kind = "raw"
        if kind in ("ws", "lc", "bc"):
            pass
        elif kind == "raw":
            out.append(Tok("str", m.group("rawbody"), line))
        elif kind == "str":
            out.append(Tok("str", pins.rust_unescape(text[text.index('"') + 1:-1]), line))
        elif kind == "char":
            out.append(Tok("char", text, line))
        elif kind == "life":
            out.append(Tok("life", text, line))
        elif kind == "num":
            out.append(Tok("num", text, line))
        elif kind == "mvar":
            out.append(Tok("mvar", text[1:], line))
        elif kind == "id":
            out.append(Tok("id", text, line))
        else:
            out.append(Tok("op", text, line))
        line += text.count("\n")
        i = m.end()
    return out


OPEN = {"(": ")", "[": "]", "{": "}"}
MACRO_BASE = 1000000     # line numbers >= MACRO_BASE: (index of the macro file + 1) * MACRO_BASE + line in that file


def skip_group(toks, i):
    """toks[i] is an opening bracket: index just after its closing bracket"""
    depth = 0
    n = len(toks)
    while i < n:
        t = toks[i]
        if t.k == "op":
            if t.v in OPEN:
                depth += 1
            elif t.v in (")", "]", "}"):
                depth -= 1
                if depth == 0:
                    return i + 1
        i += 1
    raise Untranslatable("unbalanced brackets")


def skip_angles(toks, i):
    """toks[i] is `<` opening a generic list: index after the matching `>`"""
    depth = 0
    n = len(toks)
    while i < n:
        t = toks[i]
        if t.k == "op":
            if t.v == "<":
                depth += 1
            elif t.v == ">":
                depth -= 1
                if depth == 0:
                    return i + 1
            elif t.v == ">>":
                depth -= 2
                if depth <= 0:
                    return i + 1
            elif t.v == "->":
                pass
            elif t.v in OPEN:
                i = skip_group(toks, i)
                continue
            elif t.v in (";", "{"):
                raise Untranslatable("unbalanced generic list")
        i += 1
    raise Untranslatable("unbalanced generic list")


# ---------------------------------------------------------------- cfg
def cfg_eval(toks):
    """value of the predicate inside #[cfg( .. )] for FEATURES (tokens of the predicate)"""
    pos = [0]

    def pred():
        t = toks[pos[0]]
        if t.k == "id" and t.v in ("any", "all", "not"):
            pos[0] += 1
            assert toks[pos[0]].v == "("
            pos[0] += 1
            vals = []
            while toks[pos[0]].v != ")":
                vals.append(pred())
                if toks[pos[0]].v == ",":
                    pos[0] += 1
            pos[0] += 1
            if t.v == "any":
                return any(vals)
            if t.v == "all":
                return all(vals)
            return not vals[0]
        if t.k == "id" and t.v == "feature":
            pos[0] += 1
            assert toks[pos[0]].v == "="
            name = toks[pos[0] + 1].v
            pos[0] += 2
            if name not in FEATURES:
                raise Untranslatable("cfg: unknown feature %r" % name)
            return FEATURES[name]
        if t.k == "id" and t.v == "test":
            pos[0] += 1
            return False
        if t.k == "id" and t.v in ("target_arch", "target_os", "target_family"):
            # target_arch = "wasm32" and the like: the verified configuration is a native build
            pos[0] += 3
            return False
        if t.k == "id" and (pos[0] + 1 >= len(toks) or toks[pos[0] + 1].v in (",", ")")):
            # a bare flag (--cfg name, e.g. casbin_verif of the test harness): not set in the verified build
            pos[0] += 1
            return False
        raise Untranslatable("cfg: predicate %r outside the subset" % t.v)
    return pred()


def read_attrs(toks, i):
    """attributes starting at toks[i]: -> (index after them, enabled?)"""
    enabled = True
    while i < len(toks) and toks[i].k == "op" and toks[i].v == "#":
        j = i + 1
        if toks[j].v == "!":
            j += 1
        if toks[j].v != "[":
            raise Untranslatable("attribute syntax at line %d" % toks[i].line)
        end = skip_group(toks, j)
        inner = toks[j + 1:end - 1]
        if inner and inner[0].k == "id" and inner[0].v == "cfg":
            if not cfg_eval(inner[2:-1]):
                enabled = False
        i = end
    return i, enabled


# ---------------------------------------------------------------- items
class Fn:
    def __init__(self):
        self.name = None
        self.file = None
        self.line = 0
        self.selfty = None        # type the impl is for (type AST) / None for a free fn
        self.trait = None         # trait implemented / declared in
        self.generics = {}        # type parameter -> [bound type ASTs]
        self.recv = None          # None | 'ref' | 'mut' | 'val'
        self.params = []          # [(pattern tokens, type AST)]
        self.ret = None           # type AST | None
        self.body = None          # tokens of the body without the braces | None (declaration)
        self.is_async = False
        self.in_trait_decl = False
        self.key = None

    def __repr__(self):
        return "<fn %s>" % self.key


class Crate:
    def __init__(self):
        self.fns = []             # every fn definition / declaration outside test code
        self.by_name = {}
        self.structs = {}         # name -> {field: type AST}
        self.aliases = {}         # name -> (params, type AST)
        self.traits = {}          # name -> {'supers': [type AST], 'fns': {name: Fn}}
        self.impls = []           # (trait name | None, self type AST, generics, [Fn])
        self.macros = {}          # name -> tokens of the macro_rules! body
        self.macro_files = []     # files that define macros (token lines of an expansion are tagged with the file)
        self.enums = set()
        self.derives = {}         # struct / enum name -> set of derived traits
        self.sources = {}         # rel -> text
        self.dropped = 0          # items compiled out by cfg


def parse_type(toks, i):
    """-> (type AST, next index).  AST: ('T', name, [args]) | ('dyn', [bounds]) | ('tuple', [..]) | ('slice', t)
       | ('fn',) | ('never',) | ('infer',); references, lifetimes, `mut`, leading path segments are dropped"""
    t = toks[i]
    if t.k == "op" and t.v in ("&", "&&"):
        i += 1
        if toks[i].k == "life":
            i += 1
        if toks[i].k == "id" and toks[i].v == "mut":
            i += 1
        return parse_type(toks, i)
    if t.k == "op" and t.v == "*":
        i += 2      # *const T / *mut T
        return parse_type(toks, i)
    if t.k == "op" and t.v == "(":
        i += 1
        elems = []
        while toks[i].v != ")":
            e, i = parse_type(toks, i)
            elems.append(e)
            if toks[i].v == ",":
                i += 1
        return ("tuple", elems), i + 1
    if t.k == "op" and t.v == "[":
        e, i = parse_type(toks, i + 1)
        if toks[i].v == ";":
            while toks[i].v != "]":
                i += 1
        return ("slice", e), i + 1
    if t.k == "op" and t.v == "!":
        return ("never",), i + 1
    if t.k == "id" and t.v == "_":
        return ("infer",), i + 1
    if t.k == "id" and t.v in ("dyn", "impl"):
        i += 1
        bounds = []
        while True:
            if toks[i].k == "life":
                i += 1
            elif toks[i].v == "?":
                i += 1
                continue
            else:
                b, i = parse_type(toks, i)
                bounds.append(b)
            if i < len(toks) and toks[i].k == "op" and toks[i].v == "+":
                i += 1
                continue
            break
        return ("dyn", bounds), i
    if t.k == "id" and t.v in ("fn", "unsafe", "extern"):
        while toks[i].v != "(":
            i += 1
        i = skip_group(toks, i)
        if i < len(toks) and toks[i].v == "->":
            _r, i = parse_type(toks, i + 1)
        return ("fn",), i
    if t.k == "op" and t.v == "<":
        # <T as Trait>::Name
        i = skip_angles(toks, i)
        name = "?"
        while i < len(toks) and toks[i].v == "::":
            name = toks[i + 1].v
            i += 2
        return ("T", name, []), i
    if t.k == "op" and t.v == "::":
        i += 1
        t = toks[i]
    if t.k not in ("id", "mvar"):
        raise Untranslatable("type syntax at line %d: %r" % (t.line, t.v))
    name = t.v
    i += 1
    args = []
    while True:
        if i < len(toks) and toks[i].k == "op" and toks[i].v == "<":
            i += 1
            args = []
            while True:
                if toks[i].v in (">", ">>"):
                    break
                if toks[i].k == "life":
                    i += 1
                elif toks[i].k == "id" and i + 1 < len(toks) and toks[i + 1].v == "=" and toks[i + 2].v != "=":
                    a, i = parse_type(toks, i + 2)      # associated type binding
                    args.append(a)
                elif toks[i].k in ("num", "str") or toks[i].v == "{":
                    i = skip_group(toks, i) if toks[i].v == "{" else i + 1
                else:
                    a, i = parse_type(toks, i)
                    args.append(a)
                if toks[i].v == ",":
                    i += 1
            if toks[i].v == ">>":
                # split the token: the outer list still needs one `>`
                toks[i] = Tok("op", ">", toks[i].line)
            else:
                i += 1
        if i + 1 < len(toks) and toks[i].k == "op" and toks[i].v == "::" and toks[i + 1].k == "id":
            name = toks[i + 1].v
            args = []
            i += 2
            continue
        if i + 1 < len(toks) and toks[i].k == "op" and toks[i].v == "::" and toks[i + 1].v == "<":
            i += 1
            continue
        break
    if i < len(toks) and toks[i].k == "op" and toks[i].v == "(" and name in ("Fn", "FnMut", "FnOnce"):
        i = skip_group(toks, i)
        if i < len(toks) and toks[i].v == "->":
            _r, i = parse_type(toks, i + 1)
        return ("fn",), i
    return ("T", name, args), i


def parse_generics(toks, i):
    """toks[i] may be `<`: -> ({param: [bounds]}, next index)"""
    gens = {}
    if not (i < len(toks) and toks[i].k == "op" and toks[i].v == "<"):
        return gens, i
    end = skip_angles(toks, i)
    j = i + 1
    while j < end - 1:
        t = toks[j]
        if t.k == "life":
            j += 1
            while j < end - 1 and toks[j].v != ",":
                j += 1
        elif t.k == "id" and t.v == "const":
            while j < end - 1 and toks[j].v != ",":
                j += 1
        elif t.k == "id":
            name = t.v
            gens[name] = []
            j += 1
            if toks[j].v == ":":
                j += 1
                while j < end - 1 and toks[j].v not in (",", "="):
                    if toks[j].k == "life" or toks[j].v in ("+", "?"):
                        j += 1
                        continue
                    b, j = parse_type(toks, j)
                    gens[name].append(b)
            if j < end - 1 and toks[j].v == "=":
                _d, j = parse_type(toks, j + 1)
        if j < end - 1 and toks[j].v == ",":
            j += 1
    return gens, end


def parse_where(toks, i, gens):
    """toks[i] may be `where`: bounds are added to gens; -> index of the `{` or `;` that follows"""
    if not (i < len(toks) and toks[i].k == "id" and toks[i].v == "where"):
        return i
    i += 1
    while toks[i].v not in ("{", ";"):
        if toks[i].k == "life":
            while toks[i].v not in (",", "{", ";"):
                i += 1
        else:
            if toks[i].k == "id" and toks[i].v == "for":
                i = skip_angles(toks, i + 1)
            ty, i = parse_type(toks, i)
            name = ty[1] if ty[0] == "T" and not ty[2] else None
            assert toks[i].v == ":", "where clause at line %d" % toks[i].line
            i += 1
            while toks[i].v not in (",", "{", ";"):
                if toks[i].k == "life" or toks[i].v in ("+", "?"):
                    i += 1
                    continue
                if toks[i].k == "id" and toks[i].v == "for":
                    i = skip_angles(toks, i + 1)
                    continue
                b, i = parse_type(toks, i)
                if name is not None:
                    gens.setdefault(name, []).append(b)
        if toks[i].v == ",":
            i += 1
    return i


def parse_fn_item(toks, i, rel):
    """toks[i] is `fn`: -> (Fn, next index)"""
    f = Fn()
    f.file = rel
    f.line = toks[i].line
    f.name = toks[i + 1].v
    i += 2
    f.generics, i = parse_generics(toks, i)
    assert toks[i].v == "(", "fn %s: parameter list" % f.name
    end = skip_group(toks, i)
    j = i + 1
    first = True
    while j < end - 1:
        j, _en = read_attrs(toks, j)
        if first:
            first = False
            k = j
            kind = None
            if toks[k].v == "&":
                k += 1
                if toks[k].k == "life":
                    k += 1
                if toks[k].v == "mut" and toks[k + 1].v == "self":
                    kind, k = "mut", k + 2
                elif toks[k].v == "self":
                    kind, k = "ref", k + 1
            elif toks[k].v == "self":
                kind, k = "val", k + 1
            elif toks[k].v == "mut" and toks[k + 1].v == "self":
                kind, k = "val", k + 2
            if kind:
                f.recv = kind
                j = k
                if toks[j].v == ":":
                    _t, j = parse_type(toks, j + 1)
                if toks[j].v == ",":
                    j += 1
                continue
        # ordinary parameter: pattern `:` type
        ps = j
        depth = 0
        while not (toks[j].v == ":" and depth == 0):
            if toks[j].v in OPEN:
                depth += 1
            elif toks[j].v in (")", "]", "}"):
                depth -= 1
            j += 1
            if j >= end - 1:
                raise Untranslatable("fn %s: parameter without type" % f.name)
        pat = toks[ps:j]
        ty, j = parse_type(toks, j + 1)
        f.params.append((pat, ty))
        if toks[j].v == ",":
            j += 1
    i = end
    if toks[i].v == "->":
        f.ret, i = parse_type(toks, i + 1)
    i = parse_where(toks, i, f.generics)
    if toks[i].v == ";":
        return f, i + 1
    assert toks[i].v == "{", "fn %s: body" % f.name
    end = skip_group(toks, i)
    f.body = toks[i + 1:end - 1]
    return f, end


def scan_items(toks, rel, crate, selfty=None, trait=None, igens=None, in_trait=False):
    """items of a file / impl body / trait body; functions are appended to crate.fns"""
    fns = []
    i = 0
    n = len(toks)
    while i < n:
        a0 = i
        i, enabled = read_attrs(toks, i)
        if i >= n:
            break
        derived = set()
        for j in range(a0, i):
            if toks[j].k == "id" and toks[j].v == "derive" and toks[j + 1].v == "(":
                e = skip_group(toks, j + 1)
                derived.update(t.v for t in toks[j + 2:e - 1] if t.k == "id")
        start = i
        # visibility and qualifiers
        while toks[i].k == "id" and toks[i].v in ("pub", "default", "unsafe", "extern", "const", "async") and \
                not (toks[i].v == "const" and toks[i + 1].k == "id" and toks[i + 1].v not in ("fn", "unsafe", "async", "extern")):
            if toks[i].v == "pub" and toks[i + 1].v == "(":
                i = skip_group(toks, i + 1)
            elif toks[i].v == "extern" and toks[i + 1].k == "str":
                i += 2
            else:
                i += 1
        quals = [t.v for t in toks[start:i] if t.k == "id"]
        t = toks[i]
        if t.k == "id" and t.v == "fn":
            f, i = parse_fn_item(toks, i, rel)
            if enabled:
                f.selfty, f.trait, f.in_trait_decl = selfty, trait, in_trait
                f.is_async = "async" in quals
                if igens:
                    g = dict(igens)
                    g.update(f.generics)
                    f.generics = g
                fns.append(f)
                crate.fns.append(f)
            else:
                crate.dropped += 1
            continue
        if t.k == "id" and t.v == "impl":
            gens, j = parse_generics(toks, i + 1)
            neg = toks[j].v == "!"
            if neg:
                j += 1
            ty1, j = parse_type(toks, j)
            tr = None
            if toks[j].k == "id" and toks[j].v == "for":
                tr = ty1
                ty1, j = parse_type(toks, j + 1)
            j = parse_where(toks, j, gens)
            assert toks[j].v == "{", "impl at line %d" % t.line
            end = skip_group(toks, j)
            if enabled:
                sub = scan_items(toks[j + 1:end - 1], rel, crate, selfty=ty1, trait=tr[1] if tr else None, igens=gens)
                crate.impls.append((tr[1] if tr else None, ty1, gens, sub))
            else:
                crate.dropped += 1
            i = end
            continue
        if t.k == "id" and t.v == "trait":
            name = toks[i + 1].v
            gens, j = parse_generics(toks, i + 2)
            supers = []
            if toks[j].v == ":":
                j += 1
                while toks[j].v not in ("{", "where"):
                    if toks[j].k == "life" or toks[j].v in ("+", "?"):
                        j += 1
                        continue
                    b, j = parse_type(toks, j)
                    supers.append(b)
            j = parse_where(toks, j, gens)
            end = skip_group(toks, j)
            if enabled:
                sub = scan_items(toks[j + 1:end - 1], rel, crate, selfty=("T", "Self", []), trait=name, igens=gens, in_trait=True)
                crate.traits[name] = {"supers": supers, "fns": {f.name: f for f in sub}}
            i = end
            continue
        if t.k == "id" and t.v == "struct":
            name = toks[i + 1].v
            gens, j = parse_generics(toks, i + 2)
            j = parse_where(toks, j, gens) if toks[j].v == "where" else j
            fields = {}
            if toks[j].v == "{":
                end = skip_group(toks, j)
                k = j + 1
                while k < end - 1:
                    k, en = read_attrs(toks, k)
                    if toks[k].k == "id" and toks[k].v == "pub":
                        k += 1
                        if toks[k].v == "(":
                            k = skip_group(toks, k)
                    fname = toks[k].v
                    assert toks[k + 1].v == ":", "struct %s field %s" % (name, fname)
                    ty, k = parse_type(toks, k + 2)
                    if en:
                        fields[fname] = ty
                    if k < end - 1 and toks[k].v == ",":
                        k += 1
                i = end
            elif toks[j].v == "(":
                end = skip_group(toks, j)
                k = j + 1
                idx = 0
                while k < end - 1:
                    k, en = read_attrs(toks, k)
                    if toks[k].k == "id" and toks[k].v == "pub":
                        k += 1
                        if toks[k].v == "(":
                            k = skip_group(toks, k)
                    ty, k = parse_type(toks, k)
                    fields[str(idx)] = ty
                    idx += 1
                    if k < end - 1 and toks[k].v == ",":
                        k += 1
                i = end
                i = parse_where(toks, i, gens) if toks[i].v == "where" else i
                assert toks[i].v == ";"
                i += 1
            else:
                assert toks[j].v == ";"
                i = j + 1
            if enabled:
                crate.structs[name] = fields
                crate.derives[name] = derived
            continue
        if t.k == "id" and t.v == "type":
            name = toks[i + 1].v
            gens, j = parse_generics(toks, i + 2)
            if toks[j].v == ":":
                while toks[j].v not in ("=", ";"):
                    j += 1
            if toks[j].v == "=":
                ty, j = parse_type(toks, j + 1)
                if enabled and not in_trait and selfty is None:
                    crate.aliases[name] = (list(gens), ty)
            while toks[j].v != ";":
                j += 1
            i = j + 1
            continue
        if t.k == "id" and t.v == "macro_rules!":
            raise AssertionError("unreachable")
        if t.k == "id" and t.v == "macro_rules" and toks[i + 1].v == "!":
            name = toks[i + 2].v
            j = i + 3
            end = skip_group(toks, j)
            if enabled:
                if rel not in crate.macro_files:
                    crate.macro_files.append(rel)
                base = MACRO_BASE * (crate.macro_files.index(rel) + 1)
                crate.macros[name] = [Tok(x.k, x.v, base + x.line) for x in toks[j + 1:end - 1]]
            i = end
            if i < n and toks[i].v == ";":
                i += 1
            continue
        if t.k == "id" and t.v == "enum":
            crate.enums.add(toks[i + 1].v)
        if t.k == "id" and t.v == "mod":
            # mod name; | mod name { .. }  (inline modules other than cfg(test) ones are scanned)
            if toks[i + 2].v == ";":
                i += 3
                continue
            end = skip_group(toks, i + 2)
            if enabled:
                scan_items(toks[i + 3:end - 1], rel, crate)
            i = end
            continue
        # anything else (use, enum, const, static, extern crate, macro invocation): skip to `;` or over a `{..}`
        while i < n:
            if toks[i].k == "op" and toks[i].v == ";":
                i += 1
                break
            if toks[i].k == "op" and toks[i].v in OPEN:
                was_brace = toks[i].v == "{"
                i = skip_group(toks, i)
                if was_brace:
                    if i < n and toks[i].v == ";":
                        i += 1
                    break
                continue
            i += 1
    return fns


def load_crate():
    crate = Crate()
    root = os.path.join(pins.REPO, "src")
    files = sorted(glob.glob(os.path.join(root, "**", "*.rs"), recursive=True))
    if not files:
        raise Untranslatable("no sources under %s" % root)
    for path in files:
        rel = "src/" + os.path.relpath(path, root).replace(os.sep, "/")
        src = open(path, encoding="utf-8").read()
        crate.sources[rel] = src
        scan_items(lex(src), rel, crate)
    for f in crate.fns:
        crate.by_name.setdefault(f.name, []).append(f)
    m = re.search(r'^\s*edition\s*=\s*"(\d+)"', pins.read("Cargo.toml"), re.M)
    crate.edition = m.group(1) if m else "2015"
    return crate


# ---------------------------------------------------------------- macro_rules! expansion
def macro_rule(crate, name):
    """-> ([(param, fragment kind)], transcriber tokens) of a macro_rules! macro with ONE rule
       whose parameters are `$x:ident` / `$x:expr` / `$x:ty` / `$x:tt` / `$x:literal` separated by commas"""
    toks = crate.macros[name]
    if toks[0].v != "(":
        raise Untranslatable("macro %s!: matcher syntax" % name)
    end = skip_group(toks, 0)
    params = []
    j = 1
    while j < end - 1:
        if toks[j].k != "mvar" or toks[j + 1].v != ":" or toks[j + 2].k != "id":
            raise Untranslatable("macro %s!: matcher outside the subset ($x:kind, ..)" % name)
        if toks[j + 2].v not in ("ident", "expr", "ty", "tt", "literal", "path"):
            raise Untranslatable("macro %s!: fragment kind %s" % (name, toks[j + 2].v))
        params.append((toks[j].v, toks[j + 2].v))
        j += 3
        if j < end - 1:
            if toks[j].v != ",":
                raise Untranslatable("macro %s!: matcher separator" % name)
            j += 1
    j = end
    if toks[j].v != "=>":
        raise Untranslatable("macro %s!: `=>` expected" % name)
    j += 1
    if toks[j].v not in OPEN:
        raise Untranslatable("macro %s!: transcriber" % name)
    tend = skip_group(toks, j)
    rest = [t for t in toks[tend:] if not (t.k == "op" and t.v == ";")]
    if rest:
        raise Untranslatable("macro %s!: more than one rule" % name)
    return params, toks[j + 1:tend - 1]


def split_commas(toks):
    parts, cur, depth = [], [], 0
    i = 0
    while i < len(toks):
        t = toks[i]
        if t.k == "op" and t.v in OPEN:
            e = skip_group(toks, i)
            cur.extend(toks[i:e])
            i = e
            continue
        if t.k == "op" and t.v == "," and depth == 0:
            parts.append(cur)
            cur = []
        else:
            cur.append(t)
        i += 1
    if cur:
        parts.append(cur)
    return parts


def expand_macro(crate, name, arg_toks, line):
    params, body = macro_rule(crate, name)
    args = split_commas(arg_toks)
    if len(args) != len(params):
        raise Untranslatable("macro %s!: %d arguments for %d parameters" % (name, len(args), len(params)))
    sub = {}
    for (p, kind), a in zip(params, args):
        if kind == "ident" and not (len(a) == 1 and a[0].k == "id"):
            raise Untranslatable("macro %s!: $%s:ident given a non-identifier" % (name, p))
        # an :expr argument is substituted as ONE operand
        sub[p] = a if kind in ("ident", "literal", "tt", "ty", "path") or len(a) == 1 else \
            [Tok("op", "(", line)] + a + [Tok("op", ")", line)]
    out = []
    for t in body:
        if t.k == "mvar":
            if t.v == "crate":
                out.append(Tok("id", "crate", t.line))
            elif t.v in sub:
                out.extend(sub[t.v])
            else:
                raise Untranslatable("macro %s!: unbound $%s" % (name, t.v))
        else:
            out.append(t)
    return out


# ---------------------------------------------------------------- body parser
# precedence of binary operators (higher binds tighter)
BINOPS = {"*": 11, "/": 11, "%": 11, "+": 10, "-": 10, "<<": 9, ">>": 9, "&": 8, "^": 7, "|": 6,
          "==": 5, "!=": 5, "<": 5, ">": 5, "<=": 5, ">=": 5, "&&": 4, "||": 3}
ASSIGN = ("=", "+=", "-=", "*=", "/=", "%=", "^=", "&=", "|=", "<<=", ">>=")
STD_MACROS = ("vec", "format", "println", "print", "eprintln", "eprint", "write", "writeln", "assert", "assert_eq",
              "assert_ne", "debug_assert", "debug_assert_eq", "matches", "panic", "unreachable", "unimplemented",
              "todo", "concat", "stringify", "line", "file", "env", "cfg", "format_args", "regex")
BLOCKLIKE = ("if", "match", "while", "for", "loop", "block", "unsafe")


class Parser:
    def __init__(self, toks, crate):
        self.t = toks
        self.i = 0
        self.crate = crate
        self.dropped = 0

    # -- token helpers
    def peek(self, d=0):
        j = self.i + d
        return self.t[j] if j < len(self.t) else Tok("eof", "", self.t[-1].line if self.t else 0)

    def at(self, v, d=0):
        t = self.peek(d)
        return t.k in ("op", "id") and t.v == v

    def eat(self, v):
        if self.at(v):
            self.i += 1
            return True
        return False

    def expect(self, v):
        if not self.eat(v):
            t = self.peek()
            raise Untranslatable("line %d: `%s` expected, found `%s`" % (t.line, v, t.v))

    def split_shift(self):
        """the current token is `>>` / `>=` / `>>=` where one `>` is wanted: split it"""
        t = self.peek()
        if t.k == "op" and t.v in (">>", ">=", ">>="):
            self.t[self.i:self.i + 1] = [Tok("op", ">", t.line), Tok("op", t.v[1:], t.line)]

    def attrs(self):
        j, en = read_attrs(self.t, self.i)
        self.i = j
        return en

    # -- types in expression position
    def ty(self):
        ty, j = parse_type(self.t, self.i)
        self.i = j
        return ty

    # -- patterns
    def pattern(self):
        alts = []
        self.eat("|")
        while True:
            alts.append(self.pattern1())
            if self.at("|"):
                self.i += 1
                continue
            break
        return alts[0] if len(alts) == 1 else ("por", alts)

    def pattern1(self):
        t = self.peek()
        if t.k == "op" and t.v in ("&", "&&"):
            self.i += 1
            self.eat("mut")
            return ("pref", self.pattern1())
        if t.k == "op" and t.v == "(":
            self.i += 1
            ps = []
            while not self.at(")"):
                ps.append(self.pattern())
                if not self.eat(","):
                    break
            self.expect(")")
            return ("ptuple", ps)
        if t.k == "op" and t.v == "[":
            self.i += 1
            ps = []
            while not self.at("]"):
                ps.append(self.pattern())
                if not self.eat(","):
                    break
            self.expect("]")
            return ("pslice", ps)
        if t.k == "op" and t.v == "..":
            self.i += 1
            return ("prest",)
        if t.k == "op" and t.v == "-":
            self.i += 2
            return self.pat_range_tail(("plit",))
        if t.k in ("num", "str", "char"):
            self.i += 1
            return self.pat_range_tail(("plit",))
        if t.k == "id" and t.v == "_":
            self.i += 1
            return ("pwild",)
        if t.k == "id" and t.v in ("ref", "mut"):
            by_ref = False
            if self.eat("ref"):
                by_ref = True
            self.eat("mut")
            name = self.peek().v
            self.i += 1
            sub = None
            if self.eat("@"):
                sub = self.pattern1()
            return ("pident", name, sub)
        if t.k == "id":
            # path, possibly followed by ( .. ) or { .. }
            segs = [t.v]
            self.i += 1
            while self.at("::"):
                self.i += 1
                if self.at("<"):
                    self.i = skip_angles(self.t, self.i)
                    continue
                segs.append(self.peek().v)
                self.i += 1
            if self.at("("):
                self.i += 1
                ps = []
                while not self.at(")"):
                    ps.append(self.pattern())
                    if not self.eat(","):
                        break
                self.expect(")")
                return ("ptstruct", segs, ps)
            if self.at("{"):
                self.i += 1
                fs = []
                while not self.at("}"):
                    self.attrs()
                    if self.eat(".."):
                        break
                    by = self.eat("ref")
                    self.eat("mut")
                    fname = self.peek().v
                    self.i += 1
                    if self.eat(":"):
                        fs.append((fname, self.pattern()))
                    else:
                        fs.append((fname, ("pident", fname, None)))
                    if not self.eat(","):
                        break
                self.expect("}")
                return ("pstruct", segs, fs)
            if len(segs) == 1 and (segs[0][0].islower() or segs[0][0] == "_") and segs[0] not in ("true", "false"):
                sub = None
                if self.eat("@"):
                    sub = self.pattern1()
                return ("pident", segs[0], sub)
            return self.pat_range_tail(("ppath", segs))
        raise Untranslatable("line %d: pattern syntax at `%s`" % (t.line, t.v))

    def pat_range_tail(self, p):
        if self.at("..=") or self.at("..") or self.at("..."):
            self.i += 1
            if self.peek().k in ("num", "str", "char") or self.at("-"):
                if self.at("-"):
                    self.i += 1
                self.i += 1
            elif self.peek().k == "id" and self.peek().v[0].isupper():
                self.pattern1()
            return ("plit",)
        return p

    # -- statements and blocks
    def block(self):
        """`{ stmts }` -> ('block', [stmts], tail | None)"""
        line = self.peek().line
        self.expect("{")
        stmts, tail = self.stmts_until("}")
        self.expect("}")
        return ("block", stmts, tail, line)

    def stmts_until(self, closer):
        stmts = []
        tail = None
        while not (self.at(closer) or self.peek().k == "eof"):
            if self.eat(";"):
                continue
            en = self.attrs()
            if self.at(closer) or self.peek().k == "eof":
                break
            before = self.i
            st, is_tail = self.statement()
            if not en:
                self.dropped += 1
                continue
            if is_tail:
                # a cfg'd-in block in tail position followed by further cfg'd alternatives: the LAST enabled one is the tail
                if tail is not None:
                    stmts.append(("expr", tail, tail[-1] if isinstance(tail[-1], int) else 0))
                tail = st
            else:
                if tail is not None:
                    stmts.append(("expr", tail, 0))
                    tail = None
                stmts.append(st)
            assert self.i > before
        return stmts, tail

    def statement(self):
        """-> (stmt, is_tail_expression)"""
        t = self.peek()
        line = t.line
        if t.k == "id" and t.v == "let":
            self.i += 1
            pat = self.pattern()
            ty = None
            if self.eat(":"):
                ty = self.ty()
            init = None
            els = None
            if self.eat("="):
                init = self.expr()
                if self.at("else"):
                    self.i += 1
                    els = self.block()
            self.expect(";")
            return ("let", pat, ty, init, els, line), False
        if t.k == "id" and t.v in ("use", "fn", "struct", "enum", "impl", "trait", "const", "static", "type", "mod") and \
                not (t.v == "const" and self.at("{", 1)):
            raise Untranslatable("line %d: nested item `%s` in a function body" % (line, t.v))
        e = self.expr(stmt=True)
        if self.eat(";"):
            return ("expr", e, line), False
        if self.at("}") or self.peek().k == "eof":
            return e, True
        if e[0] in BLOCKLIKE or (e[0] == "macro" and e[3] == "{"):
            return ("expr", e, line), False
        # a block-like expression at the end of a cfg'd group, or a real syntax problem
        nt = self.peek()
        if nt.k == "op" and nt.v == "#":
            return e, True
        raise Untranslatable("line %d: `;` expected after expression, found `%s`" % (nt.line, nt.v))

    # -- expressions
    def expr(self, no_struct=False, stmt=False):
        return self.assign(no_struct, stmt)

    def assign(self, ns, stmt=False):
        lhs = self.range_(ns, stmt)
        t = self.peek()
        if t.k == "op" and t.v in ASSIGN:
            self.i += 1
            rhs = self.assign(ns)
            return ("assign", t.v, lhs, rhs, t.line)
        return lhs

    def range_(self, ns, stmt=False):
        if self.at("..") or self.at("..="):
            line = self.peek().line
            self.i += 1
            hi = None
            if not self.ends_expr(ns):
                hi = self.binary(0, ns)
            return ("range", None, hi, line)
        lhs = self.binary(0, ns, stmt)
        if self.at("..") or self.at("..="):
            line = self.peek().line
            self.i += 1
            hi = None
            if not self.ends_expr(ns):
                hi = self.binary(0, ns)
            return ("range", lhs, hi, line)
        return lhs

    def ends_expr(self, ns):
        t = self.peek()
        if t.k == "eof":
            return True
        if t.k == "op" and t.v in (")", "]", "}", ",", ";", "=>"):
            return True
        if ns and t.k == "op" and t.v == "{":
            return True
        return False

    def binary(self, minp, ns, stmt=False):
        lhs = self.unary(ns)
        # a block-like expression statement ends the statement (`if .. {} *x = 1` is two statements)
        if stmt and lhs[0] in BLOCKLIKE:
            if not (self.at(".") or self.at("?")):
                return lhs
            lhs = self.postfix(lhs, ns)
        while True:
            t = self.peek()
            if t.k == "id" and t.v == "as":
                self.i += 1
                ty = self.ty()
                lhs = ("cast", lhs, ty, t.line)
                continue
            if t.k != "op" or t.v not in BINOPS:
                return lhs
            p = BINOPS[t.v]
            if p < minp:
                return lhs
            if p == 5 and minp > 5:
                return lhs
            self.i += 1
            rhs = self.binary(p + 1, ns)
            lhs = ("binary", t.v, lhs, rhs, t.line)

    def unary(self, ns):
        t = self.peek()
        if t.k == "op" and t.v in ("!", "-", "*"):
            self.i += 1
            return ("unary", t.v, self.unary(ns), t.line)
        if t.k == "op" and t.v in ("&", "&&"):
            self.i += 1
            m = self.eat("mut")
            e = self.unary(ns)
            e = ("unary", "&mut" if m else "&", e, t.line)
            if t.v == "&&":
                e = ("unary", "&", e, t.line)
            return e
        return self.postfix(self.primary(ns), ns)

    def postfix(self, e, ns):
        while True:
            t = self.peek()
            if t.k == "op" and t.v == "?":
                self.i += 1
                e = ("try", e, t.line)
            elif t.k == "op" and t.v == ".":
                nt = self.peek(1)
                if nt.k == "id" and nt.v == "await":
                    self.i += 2
                    e = ("await", e, t.line)
                elif nt.k == "num":
                    self.i += 2
                    for part in nt.v.split("."):
                        e = ("field", e, part, t.line)
                elif nt.k == "id":
                    self.i += 2
                    turbofish = None
                    if self.at("::"):
                        self.i += 1
                        start = self.i
                        self.i = skip_angles(self.t, self.i)
                        turbofish = self.t[start:self.i]
                    if self.at("("):
                        args = self.call_args()
                        e = ("mcall", e, nt.v, args, nt.line)
                    else:
                        if turbofish is not None:
                            raise Untranslatable("line %d: turbofish without call" % nt.line)
                        e = ("field", e, nt.v, nt.line)
                else:
                    raise Untranslatable("line %d: syntax after `.`" % t.line)
            elif t.k == "op" and t.v == "(":
                args = self.call_args()
                e = ("call", e, args, t.line)
            elif t.k == "op" and t.v == "[":
                self.i += 1
                idx = self.expr()
                self.expect("]")
                e = ("index", e, idx, t.line)
            else:
                return e

    def call_args(self):
        self.expect("(")
        args = []
        while not self.at(")"):
            en = self.attrs()
            a = self.expr()
            if en:
                args.append(a)
            else:
                self.dropped += 1
            if not self.eat(","):
                break
        self.expect(")")
        return args

    def primary(self, ns):
        t = self.peek()
        line = t.line
        if t.k in ("num", "str", "char"):
            self.i += 1
            return ("lit", t.k, t.v, line)
        if t.k == "life":
            raise Untranslatable("line %d: loop label %s" % (line, t.v))
        if t.k == "op":
            if t.v == "(":
                self.i += 1
                es = []
                trailing = False
                while not self.at(")"):
                    es.append(self.expr())
                    trailing = False
                    if self.eat(","):
                        trailing = True
                    else:
                        break
                self.expect(")")
                if len(es) == 1 and not trailing:
                    return ("paren", es[0], line)
                return ("tuple", es, line)
            if t.v == "[":
                self.i += 1
                es = []
                while not self.at("]"):
                    es.append(self.expr())
                    if self.eat(";"):
                        es.append(self.expr())
                        break
                    if not self.eat(","):
                        break
                self.expect("]")
                return ("array", es, line)
            if t.v == "{":
                return self.block()
            if t.v in ("|", "||"):
                return self.closure(False)
            if t.v == "#":
                en = self.attrs()
                e = self.unary(ns)
                if not en:
                    self.dropped += 1
                    return ("cfgout", line)
                return e
            if t.v == "<":
                # <T as Trait>::f
                self.i = skip_angles(self.t, self.i)
                segs = ["<qualified>"]
                while self.eat("::"):
                    segs.append(self.peek().v)
                    self.i += 1
                return ("path", segs, line)
            if t.v == "::":
                self.i += 1
                return self.primary(ns)
        if t.k == "id":
            v = t.v
            if v == "if":
                return self.if_()
            if v == "match":
                self.i += 1
                scrut = self.expr(no_struct=True)
                self.expect("{")
                arms = []
                while not self.at("}"):
                    en = self.attrs()
                    pat = self.pattern()
                    guard = None
                    if self.eat("if"):
                        guard = self.expr()
                    self.expect("=>")
                    body = self.expr(stmt=True)
                    if en:
                        arms.append((pat, guard, body))
                    else:
                        self.dropped += 1
                    if not self.eat(","):
                        if self.at("}"):
                            break
                        if body[0] not in BLOCKLIKE:
                            raise Untranslatable("line %d: `,` expected between match arms" % self.peek().line)
                self.expect("}")
                return ("match", scrut, arms, line)
            if v == "while":
                self.i += 1
                if self.eat("let"):
                    pat = self.pattern()
                    self.expect("=")
                    scrut = self.expr(no_struct=True)
                    cond = ("letcond", pat, scrut, line)
                else:
                    cond = self.expr(no_struct=True)
                body = self.block()
                return ("while", cond, body, line)
            if v == "for":
                self.i += 1
                pat = self.pattern()
                self.expect("in")
                it = self.expr(no_struct=True)
                body = self.block()
                return ("for", pat, it, body, line)
            if v == "loop":
                self.i += 1
                return ("loop", self.block(), line)
            if v == "unsafe" and self.at("{", 1):
                self.i += 1
                return self.block()
            if v == "async" and (self.at("{", 1) or (self.at("move", 1) and self.at("{", 2))):
                raise Untranslatable("line %d: async block" % line)
            if v == "move":
                self.i += 1
                return self.closure(True)
            if v == "return":
                self.i += 1
                e = None if self.ends_expr(False) else self.expr()
                return ("return", e, line)
            if v == "break":
                self.i += 1
                if self.peek().k == "life":
                    raise Untranslatable("line %d: labelled break" % line)
                e = None if self.ends_expr(ns) else self.expr()
                return ("break", e, line)
            if v == "continue":
                self.i += 1
                if self.peek().k == "life":
                    raise Untranslatable("line %d: labelled continue" % line)
                return ("continue", line)
            if v in ("true", "false"):
                self.i += 1
                return ("lit", "bool", v, line)
            if v == "let":
                raise Untranslatable("line %d: `let` in expression position (let chains)" % line)
            # macro invocation
            if self.at("!", 1) and self.peek(2).k == "op" and self.peek(2).v in OPEN and not self.at("=", 2):
                return self.macro()
            # path
            segs = [v]
            self.i += 1
            while self.at("::"):
                if self.at("<", 1):
                    self.i += 1
                    self.i = skip_angles(self.t, self.i)
                    continue
                if self.peek(1).k != "id":
                    break
                segs.append(self.peek(1).v)
                self.i += 2
                if self.at("!") and self.peek(1).k == "op" and self.peek(1).v in OPEN:
                    self.i -= 1
                    return self.macro()
            if self.at("{") and not ns and (segs[-1][0].isupper() or segs[-1] == "Self") and self.struct_ahead():
                return self.struct_lit(segs, line)
            return ("path", segs, line)
        raise Untranslatable("line %d: expression syntax at `%s`" % (line, t.v))

    def struct_ahead(self):
        """`Path {` : a struct literal iff what follows is `}`, `..`, `ident :`, `ident ,`, `ident }` or an attribute"""
        a, b = self.peek(1), self.peek(2)
        if a.k == "op" and a.v in ("}", "..", "#"):
            return True
        if a.k in ("id", "num") and b.k == "op" and b.v in (":", ",", "}"):
            return not (b.v == ":" and self.peek(3).v == ":")
        return False

    def struct_lit(self, segs, line):
        self.expect("{")
        fields = []
        base = None
        while not self.at("}"):
            en = self.attrs()
            if self.eat(".."):
                base = self.expr()
                break
            name = self.peek().v
            nl = self.peek().line
            self.i += 1
            if self.eat(":"):
                val = self.expr()
            else:
                val = ("path", [name], nl)
            if en:
                fields.append((name, val))
            else:
                self.dropped += 1
            if not self.eat(","):
                break
        self.expect("}")
        return ("struct", segs, fields, base, line)

    def if_(self):
        line = self.peek().line
        self.expect("if")
        if self.eat("let"):
            pat = self.pattern()
            self.expect("=")
            scrut = self.expr(no_struct=True)
            cond = ("letcond", pat, scrut, line)
        else:
            cond = self.expr(no_struct=True)
        then = self.block()
        els = None
        if self.eat("else"):
            if self.at("if"):
                els = self.if_()
            else:
                els = self.block()
        return ("if", cond, then, els, line)

    def closure(self, is_move):
        line = self.peek().line
        params = []
        if self.eat("||"):
            pass
        else:
            self.expect("|")
            while not self.at("|"):
                p = self.pattern1()
                ty = None
                if self.eat(":"):
                    ty = self.ty()
                params.append((p, ty))
                if not self.eat(","):
                    break
            self.expect("|")
        if self.eat("->"):
            self.ty()
            body = self.block()
        else:
            body = self.expr()
        return ("closure", params, body, line)

    def macro(self):
        t = self.peek()
        line = t.line
        name = t.v
        self.i += 1
        self.expect("!")
        opener = self.peek().v
        end = skip_group(self.t, self.i)
        inner = self.t[self.i + 1:end - 1]
        self.i = end
        if name in self.crate.macros and name not in ("regex",):
            toks = expand_macro(self.crate, name, inner, line)
            sub = Parser(toks, self.crate)
            stmts, tail = sub.stmts_until("\0")
            self.dropped += sub.dropped
            if sub.i != len(toks):
                raise Untranslatable("macro %s!: expansion does not parse (line %d)" % (name, line))
            # `{{ .. }}` transcribers give one block expression; a macro body is its own block
            return ("macroexp", name, ("block", stmts, tail, line), line)
        if name not in STD_MACROS:
            raise Untranslatable("line %d: macro %s! is neither a std macro of the subset nor a one-rule macro_rules!" % (line, name))
        args = []
        if name == "matches":
            parts = split_commas(inner)
            sub = Parser(parts[0], self.crate)
            args.append(sub.expr())
        elif name in ("stringify", "concat", "line", "file", "env", "cfg", "regex"):
            pass
        else:
            for part in ([inner] if False else self.split_args(inner)):
                if not part:
                    continue
                # `name = expr` named format arguments
                if len(part) > 2 and part[0].k == "id" and part[1].v == "=" and part[2].v != "=":
                    part = part[2:]
                sub = Parser(part, self.crate)
                e = sub.expr()
                if sub.i != len(part):
                    raise Untranslatable("line %d: argument of %s! does not parse" % (line, name))
                self.dropped += sub.dropped
                args.append(e)
        return ("macro", name, args, opener, line)

    @staticmethod
    def split_args(inner):
        # vec![x; n] has a `;`
        parts, cur = [], []
        i = 0
        while i < len(inner):
            t = inner[i]
            if t.k == "op" and t.v in OPEN:
                e = skip_group(inner, i)
                cur.extend(inner[i:e])
                i = e
                continue
            if t.k == "op" and t.v in (",", ";"):
                parts.append(cur)
                cur = []
            else:
                cur.append(t)
            i += 1
        if cur:
            parts.append(cur)
        return parts


def parse_body(fn, crate):
    p = Parser(list(fn.body), crate)
    stmts, tail = p.stmts_until("\0")
    if p.i != len(p.t):
        t = p.peek()
        raise Untranslatable("%s: unparsed input at line %d (`%s`)" % (fn.key, t.line, t.v))
    return ("block", stmts, tail, fn.line), p.dropped


# ---------------------------------------------------------------- AST helpers
NODE_KINDS = {"lit", "path", "call", "mcall", "field", "index", "unary", "binary", "assign", "try", "await", "cast",
              "range", "tuple", "array", "struct", "closure", "block", "if", "match", "while", "for", "loop", "return",
              "break", "continue", "macro", "macroexp", "paren", "let", "expr", "letcond", "cfgout"}


def walk(x):
    """all AST nodes below x (pre-order), patterns and types excluded"""
    if isinstance(x, tuple):
        if x and isinstance(x[0], str):
            if x[0] in NODE_KINDS:
                yield x
            elif x[0][0] == "p" or x[0] in ("T", "dyn", "tuple_ty", "slice", "fn", "never", "infer"):
                return
        for y in x:
            if isinstance(y, (tuple, list)):
                for z in walk(y):
                    yield z
    elif isinstance(x, list):
        for y in x:
            for z in walk(y):
                yield z


def strip_parens(e):
    while e is not None and e[0] == "paren":
        e = e[1]
    return e


HANDLE = ("T", "Arc", [("T", "RwLock", [("dyn", [("T", "RoleManager", [])])])])
MAPS = ("HashMap", "LinkedHashMap", "BTreeMap", "IndexMap")
SEQS = ("Vec", "VecDeque", "HashSet", "LinkedHashSet", "BTreeSet", "IndexSet")
SAME = ("clone", "to_owned", "borrow", "borrow_mut", "as_ref", "as_mut", "by_ref", "as_deref", "as_deref_mut", "to_vec",
        "as_slice", "as_mut_slice", "deref", "deref_mut")
# rhai::Engine: evaluation entry points (they call the functions registered with register_fn)
EVAL_METHODS = ("eval", "eval_with_scope", "eval_ast", "eval_ast_with_scope", "eval_expression", "eval_expression_with_scope",
                "call_fn", "call_fn_raw", "run", "run_with_scope", "run_ast", "run_ast_with_scope", "consume", "consume_ast")
REGISTER_METHODS = ("register_fn", "register_raw_fn", "register_result_fn", "register_get", "register_set",
                    "register_indexer_get", "on_var", "on_print", "on_debug")
# std: the closure is called once per element while the iterator is consumed
LAZY_ADAPTORS = ("map", "flat_map", "filter", "filter_map", "take_while", "skip_while", "map_while", "inspect", "scan")
EAGER_LOOPERS = ("for_each", "try_for_each", "any", "all", "find", "find_map", "position", "rposition", "fold",
                 "try_fold", "retain", "retain_mut", "sort_by", "sort_by_key", "sort_unstable_by", "max_by", "min_by",
                 "max_by_key", "min_by_key", "partition", "dedup_by", "dedup_by_key", "reduce", "sum", "count")
CONSUMERS = EAGER_LOOPERS + ("collect", "extend", "last", "nth", "max", "min", "sum", "count", "unzip", "next")
# std: the closure is called at most once
ONCE_ADAPTORS = ("ok_or_else", "map_err", "and_then", "or_else", "unwrap_or_else", "map_or", "map_or_else", "then",
                 "get_or_insert_with", "or_insert_with", "is_some_and", "is_ok_and")
PANICS = ("panic", "unreachable", "unimplemented", "todo")
ASSERTS = ("assert", "assert_eq", "assert_ne", "debug_assert", "debug_assert_eq")


class Cx:
    def __init__(self, fn, env=None, guards=None):
        self.fn = fn
        self.env = dict(env or {})
        self.guards = dict(guards or {})

    def child(self):
        return Cx(self.fn, self.env, self.guards)


class Translator:
    def __init__(self, crate):
        self.c = crate
        self.asts = {}           # Fn -> (ast, dropped) | Exception
        self.may = None          # set of Fn that may reach a lock site
        self.addr_taken = set()  # crate fns used as values (fn pointers)
        self.done = {}           # Fn -> gen name (translated, or being translated: value None)
        self.order = []          # [(gen name, Fn, skeleton)] in dependency order
        self.registered = []     # [(note, skeleton)] closures given to Engine::register_fn
        self.names = {}          # (type name, fn name) -> short gen name
        self.sites_seen = 0      # lock acquisitions translated
        self.awaited = set()     # ids of the call nodes that are directly awaited
        for f in crate.fns:
            f.key = "%s::%s" % (self.tyname(f.selfty) if f.selfty else "", f.name) if f.selfty else f.name
            if f.selfty and (self.is_generic(f, f.selfty) or f.in_trait_decl):
                f.key = "%s::%s" % (f.trait, f.name)

    # ---------------------------------------------------------- small helpers
    def loc(self, fn, line):
        if isinstance(line, int) and line >= MACRO_BASE:
            return "%s:%d (expanded in %s)" % (self.c.macro_files[line // MACRO_BASE - 1], line % MACRO_BASE, fn.file)
        return "%s:%s" % (fn.file, line)

    @staticmethod
    def tyname(ty):
        if ty is None:
            return None
        if ty[0] == "T":
            return ty[1]
        if ty[0] == "dyn":
            return "dyn " + "+".join(b[1] for b in ty[1] if b[0] == "T")
        return ty[0]

    @staticmethod
    def is_generic(fn, ty):
        return ty is not None and ty[0] == "T" and not ty[2] and ty[1] in fn.generics

    def ast(self, fn):
        if fn not in self.asts:
            try:
                self.asts[fn] = parse_body(fn, self.c)
            except Untranslatable as ex:
                self.asts[fn] = ex
        r = self.asts[fn]
        if isinstance(r, Exception):
            raise Untranslatable("%s: %s" % (fn.key, r))
        return r

    # ---------------------------------------------------------- may-lock closure of the call graph
    def compute_may(self):
        fn_names = set(self.c.by_name)
        facts = {}
        for f in self.c.fns:
            if f.body is None:
                continue
            seed = False
            calls = set()
            indirect = False
            try:
                tree, _d = self.ast(f)
                callee_ids = set()
                for n in walk(tree):
                    if n[0] == "mcall":
                        if n[2] in ("read", "write") and not n[3]:
                            seed = True
                        if n[2] in EVAL_METHODS:
                            seed = True
                        calls.add(n[2])
                    elif n[0] == "call":
                        cal = strip_parens(n[1])
                        if cal[0] == "path":
                            callee_ids.add(id(cal))
                            segs = cal[1]
                            if len(segs) >= 2 and (segs[-2][0].isupper() or segs[-2] == "Self"):
                                # Type::f(..): only the functions of that type (Self: of this impl / trait)
                                q = segs[-2]
                                if q == "Self":
                                    q = self.tyname(f.selfty) if f.selfty is not None and not self.is_generic(f, f.selfty) else None
                                calls.add((q, segs[-1]))
                            else:
                                calls.add(segs[-1])
                            if len(segs) == 1 and segs[0] not in fn_names and segs[0][0].islower():
                                indirect = True
                        else:
                            indirect = True
                for n in walk(tree):
                    if n[0] == "path" and id(n) not in callee_ids:
                        # a fn item used as a value
                        segs = n[1]
                        if len(segs) == 1:
                            self.addr_taken.update(g for g in self.c.by_name.get(segs[0], []) if g.selfty is None)
                        elif len(segs) == 2 and segs[0] in self.c.structs:
                            self.addr_taken.update(g for g in self.c.by_name.get(segs[1], [])
                                                   if g.selfty is not None and self.tyname(g.selfty) == segs[0])
            except Untranslatable:
                # unparsed body: token-level, conservative
                toks = f.body
                for j, t in enumerate(toks):
                    nxt = toks[j + 1].v if j + 1 < len(toks) else ""
                    prv = toks[j - 1].v if j > 0 else ""
                    if t.k == "id" and (nxt == "(" or (nxt == "::" and j + 2 < len(toks) and toks[j + 2].v == "<")):
                        calls.add(t.v)
                        if prv == "." and (t.v in EVAL_METHODS or
                                           (t.v in ("read", "write") and j + 2 < len(toks) and toks[j + 2].v == ")")):
                            seed = True
                        if prv not in (".", "::") and t.v not in fn_names and t.v[0].islower():
                            indirect = True
                    elif t.k == "id" and t.v in fn_names and prv not in (".", "fn", "::"):
                        self.addr_taken.update(g for g in self.c.by_name[t.v] if g.selfty is None)
            facts[f] = (seed, calls, indirect)
        may = set(f for f, (s, _c, _i) in facts.items() if s)
        changed = True
        while changed:
            changed = False
            may_names = set(f.name for f in may)
            may_qual = set((self.tyname(f.selfty), f.name) for f in may if f.selfty is not None)
            may_qual |= set((f.trait, f.name) for f in may if f.trait is not None)
            ind = any(g in may for g in self.addr_taken)
            for f, (s, calls, indirect) in facts.items():
                if f in may:
                    continue
                hit = False
                for cl in calls:
                    if isinstance(cl, tuple):
                        if (cl in may_qual) or (cl[0] is None and cl[1] in may_names) or \
                                (cl[0] is not None and cl[0] in f.generics and cl[1] in may_names):
                            hit = True
                    elif cl in may_names:
                        hit = True
                if hit or (indirect and ind):
                    may.add(f)
                    changed = True
        self.may = may

    def name_may_lock(self, name):
        return any(f in self.may for f in self.c.by_name.get(name, []))

    # ---------------------------------------------------------- types
    def norm(self, ty, fn=None, depth=0):
        """aliases expanded, Box<T> / Rc<T> unwrapped, Self replaced"""
        if ty is None or depth > 8:
            return ty
        if ty[0] == "T":
            name, args = ty[1], ty[2]
            if name == "Self" and fn is not None and fn.selfty is not None and not fn.in_trait_decl:
                return self.norm(fn.selfty, fn, depth + 1)
            if name in ("Box", "Rc", "Cow", "MutexGuard", "Ref", "RefMut") and len(args) >= 1:
                return self.norm(args[-1] if name == "Cow" else args[0], fn, depth + 1)
            if name in self.c.aliases and name not in self.c.structs:
                params, body = self.c.aliases[name]
                sub = dict(zip(params, args))
                return self.norm(self.subst(body, sub), fn, depth + 1)
            return ("T", name, [self.norm(a, fn, depth + 1) for a in args])
        if ty[0] == "dyn":
            return ("dyn", [self.norm(b, fn, depth + 1) for b in ty[1]])
        if ty[0] == "tuple":
            return ("tuple", [self.norm(a, fn, depth + 1) for a in ty[1]])
        if ty[0] == "slice":
            return ("T", "Vec", [self.norm(ty[1], fn, depth + 1)])
        return ty

    def subst(self, ty, sub):
        if ty is None:
            return None
        if ty[0] == "T":
            if not ty[2] and ty[1] in sub:
                return sub[ty[1]]
            return ("T", ty[1], [self.subst(a, sub) for a in ty[2]])
        if ty[0] in ("dyn", "tuple"):
            return (ty[0], [self.subst(a, sub) for a in ty[1]])
        if ty[0] == "slice":
            return ("slice", self.subst(ty[1], sub))
        return ty

    def is_handle(self, ty):
        return ty == HANDLE

    @staticmethod
    def head(ty):
        return ty[1] if ty is not None and ty[0] == "T" else None

    def elem(self, ty):
        h = self.head(ty)
        if h in ("Iter",) + SEQS + ("Option",):
            return ty[2][0] if ty[2] else None
        if h in MAPS and len(ty[2]) == 2:
            return ("tuple", list(ty[2]))
        return None

    def bind(self, pat, ty, env):
        k = pat[0]
        if k == "pident":
            env[pat[1]] = ty
            if pat[2] is not None:
                self.bind(pat[2], ty, env)
        elif k == "pref":
            self.bind(pat[1], ty, env)
        elif k == "ptuple":
            tys = ty[1] if ty is not None and ty[0] == "tuple" and len(ty[1]) == len(pat[1]) else [None] * len(pat[1])
            for p, t in zip(pat[1], tys):
                self.bind(p, t, env)
        elif k == "ptstruct":
            inner = None
            if pat[1][-1] in ("Some", "Ok") and self.head(ty) in ("Option", "Result") and ty[2]:
                inner = ty[2][0]
            if len(pat[2]) == 1:
                self.bind(pat[2][0], inner, env)
            else:
                for p in pat[2]:
                    self.bind(p, None, env)
        elif k == "pstruct":
            fields = self.c.structs.get(pat[1][-1], {})
            for fname, p in pat[2]:
                self.bind(p, fields.get(fname), env)
        elif k == "por":
            for p in pat[1]:
                self.bind(p, ty, env)
        elif k == "pslice":
            for p in pat[1]:
                self.bind(p, self.elem(ty), env)

    def closure_ret(self, cl, argtys, cx):
        cl = strip_parens(cl)
        if cl is None or cl[0] != "closure":
            return None
        c2 = cx.child()
        for (p, ty), at in zip(cl[1], list(argtys) + [None] * len(cl[1])):
            self.bind(p, self.norm(ty, cx.fn) if ty is not None else at, c2.env)
        return self.infer(cl[2], c2)

    def ret_of(self, cands, recv_ty=None):
        rets = []
        for f in cands:
            r = self.norm(f.ret, f)
            if r is not None and self.head(r) == "Self" and recv_ty is not None:
                r = recv_ty
            rets.append(r)
        if rets and all(r == rets[0] for r in rets):
            return rets[0]
        return None

    def infer(self, e, cx):
        if e is None:
            return None
        k = e[0]
        if k == "paren":
            return self.infer(e[1], cx)
        if k == "path":
            if len(e[1]) == 1:
                if e[1][0] == "self":
                    return self.norm(cx.fn.selfty, cx.fn) if cx.fn.selfty is not None else None
                return cx.env.get(e[1][0])
            return None
        if k == "unary":
            return self.infer(e[2], cx)
        if k in ("await",):
            return self.infer(e[1], cx)
        if k == "cast":
            return self.norm(e[2], cx.fn)
        if k == "try":
            t = self.infer(e[1], cx)
            if self.head(t) in ("Option", "Result") and t[2]:
                return t[2][0]
            return None
        if k == "field":
            rt = self.infer(e[1], cx)
            if rt is not None and rt[0] == "tuple" and e[2].isdigit() and int(e[2]) < len(rt[1]):
                return rt[1][int(e[2])]
            h = self.head(rt)
            if h in self.c.structs and e[2] in self.c.structs[h]:
                return self.norm(self.c.structs[h][e[2]], cx.fn)
            return None
        if k == "index":
            rt = self.infer(e[1], cx)
            if self.head(rt) in SEQS and rt[2]:
                idx = strip_parens(e[2])
                return rt if idx[0] == "range" else rt[2][0]
            if self.head(rt) in MAPS and len(rt[2]) == 2:
                return rt[2][1]
            return None
        if k == "macroexp":
            return self.infer(e[2], cx)
        if k == "block":
            c2 = cx.child()
            for st in e[1]:
                if st[0] == "let":
                    ty = self.norm(st[2], cx.fn) if st[2] is not None else self.infer(st[3], c2)
                    self.bind(st[1], ty, c2.env)
            return self.infer(e[2], c2)
        if k == "if":
            c2 = cx.child()
            if e[1][0] == "letcond":
                self.bind(e[1][1], self.infer(e[1][2], cx), c2.env)
            t = self.infer(e[2], c2)
            if t is None and e[3] is not None:
                t = self.infer(e[3], cx)
            return t
        if k == "match":
            st = self.infer(e[1], cx)
            for pat, _g, body in e[2]:
                c2 = cx.child()
                self.bind(pat, st, c2.env)
                t = self.infer(body, c2)
                if t is not None:
                    return t
            return None
        if k == "tuple":
            return ("tuple", [self.infer(x, cx) for x in e[1]])
        if k == "lit":
            return ("T", {"str": "str", "num": "usize", "char": "char", "bool": "bool"}[e[1]], [])
        if k == "macro":
            if e[1] == "vec":
                return ("T", "Vec", [self.infer(e[2][0], cx) if e[2] else None])
            if e[1] == "format":
                return ("T", "String", [])
            return None
        if k == "struct":
            name = e[1][-1]
            if name == "Self":
                return self.norm(cx.fn.selfty, cx.fn)
            return ("T", name, [])
        if k == "call":
            cal = strip_parens(e[1])
            if cal[0] != "path":
                return None
            segs = cal[1]
            if segs[-1] == "clone" and len(segs) == 2 and segs[0] in ("Arc", "Rc") and len(e[2]) == 1:
                return self.infer(e[2][0], cx)
            if segs[-1] in ("Some",) and len(e[2]) == 1:
                return ("T", "Option", [self.infer(e[2][0], cx)])
            if segs[-1] in ("Ok",) and len(e[2]) == 1:
                return ("T", "Result", [self.infer(e[2][0], cx)])
            if len(segs) == 2 and segs[1] == "new" and segs[0] in ("Box", "Rc") and len(e[2]) == 1:
                return self.infer(e[2][0], cx)
            if len(segs) == 2 and segs[1] == "new" and segs[0] == "Arc" and len(e[2]) == 1:
                return ("T", "Arc", [self.infer(e[2][0], cx)])
            if len(segs) == 2 and segs[1] == "default" and "Default" in self.c.derives.get(segs[0], ()):
                return ("T", segs[0], [])
            r = self.resolve_call(segs, cx)
            if r is not None and r[0] == "crate":
                return self.ret_of(r[1])
            return None
        if k == "mcall":
            rt = self.infer(e[1], cx)
            name, args = e[2], e[3]
            h = self.head(rt)
            if name in SAME or (name == "clone"):
                return rt
            if h == "Arc" and name not in ("clone",):
                # auto-deref to the pointee for method calls (not for the lock handle's own read / write)
                pass
            if h in MAPS and len(rt[2]) == 2:
                K, V = rt[2]
                if name in ("get", "get_mut", "remove"):
                    return ("T", "Option", [V])
                if name in ("values", "values_mut", "into_values"):
                    return ("T", "Iter", [V])
                if name in ("keys", "into_keys"):
                    return ("T", "Iter", [K])
                if name in ("iter", "iter_mut", "into_iter", "drain"):
                    return ("T", "Iter", [("tuple", [K, V])])
                return None
            if h in SEQS and rt[2]:
                E = rt[2][0]
                if name in ("iter", "iter_mut", "into_iter", "drain"):
                    return ("T", "Iter", [E])
                if name in ("get", "get_mut", "first", "last", "pop", "first_mut", "last_mut", "pop_front", "pop_back"):
                    return ("T", "Option", [E])
                if name in ("remove", "swap_remove"):
                    return E if h in ("Vec", "VecDeque") else None
                return None
            if h == "Iter" and rt[2]:
                E = rt[2][0]
                if name in ("iter", "into_iter", "rev", "skip", "take", "peekable", "cloned", "copied", "filter",
                            "take_while", "skip_while", "inspect", "chain", "step_by", "fuse"):
                    return rt
                if name == "enumerate":
                    return ("T", "Iter", [("tuple", [("T", "usize", []), E])])
                if name == "zip" and args:
                    return ("T", "Iter", [("tuple", [E, self.elem(self.infer(args[0], cx))])])
                if name in ("map", "filter_map") and args:
                    r = self.closure_ret(args[0], [E], cx)
                    if name == "filter_map":
                        r = self.elem(r)
                    return ("T", "Iter", [r])
                if name == "flat_map" and args:
                    return ("T", "Iter", [self.elem(self.closure_ret(args[0], [E], cx))])
                if name in ("next", "nth", "find", "last", "max", "min"):
                    return ("T", "Option", [E])
                return None
            if h == "Option" and rt[2]:
                E = rt[2][0]
                if name in ("unwrap", "expect", "unwrap_or", "unwrap_or_else", "unwrap_or_default"):
                    return E
                if name in ("take", "cloned", "copied", "or", "or_else", "filter"):
                    return rt
                if name in ("ok_or", "ok_or_else"):
                    return ("T", "Result", [E])
                if name == "and_then" and args:
                    return self.closure_ret(args[0], [E], cx)
                if name == "map" and args:
                    return ("T", "Option", [self.closure_ret(args[0], [E], cx)])
                if name in ("iter", "into_iter", "iter_mut"):
                    return ("T", "Iter", [E])
                return None
            if h == "Result" and rt[2]:
                E = rt[2][0]
                if name in ("unwrap", "expect", "unwrap_or", "unwrap_or_else", "unwrap_or_default"):
                    return E
                if name == "ok":
                    return ("T", "Option", [E])
                if name in ("map_err", "or_else"):
                    return rt
                if name == "and_then" and args:
                    return self.closure_ret(args[0], [E], cx)
                if name == "map" and args:
                    return ("T", "Result", [self.closure_ret(args[0], [E], cx)])
                return None
            r = self.resolve_method(rt, name, cx.fn)
            if r is not None and r[0] == "crate":
                return self.ret_of(r[1], rt)
            return None
        return None

    # ---------------------------------------------------------- call resolution
    def trait_closure(self, bounds):
        """trait names implied by a list of bound types (supertraits, where-clauses of blanket impls)"""
        seen = set()
        todo = [b[1] for b in bounds if b is not None and b[0] == "T"]
        while todo:
            t = todo.pop()
            if t in seen:
                continue
            seen.add(t)
            if t in self.c.traits:
                todo.extend(b[1] for b in self.c.traits[t]["supers"] if b[0] == "T")
            for tr, sty, gens, _fns in self.c.impls:
                if tr == t and sty[0] == "T" and not sty[2] and sty[1] in gens:
                    todo.extend(b[1] for b in gens[sty[1]] if b[0] == "T")
        return seen

    def impl_fns(self, name, pred):
        out = []
        for tr, sty, gens, fns in self.c.impls:
            if pred(tr, sty, gens):
                out.extend(f for f in fns if f.name == name and f.body is not None)
        return out

    def resolve_method(self, rt, name, fn):
        """-> ('crate', [Fn]) | ('external',) | None (receiver type unknown)"""
        if rt is None:
            return None
        if rt[0] == "dyn":
            traits = self.trait_closure(rt[1])
            c = self.impl_fns(name, lambda tr, sty, gens: tr in traits)
            for t in traits:
                d = self.c.traits.get(t, {"fns": {}})["fns"].get(name)
                if d is not None and d.body is not None:
                    c.append(d)
            if c:
                return ("crate", c)
            if any(name in self.c.traits.get(t, {"fns": {}})["fns"] for t in traits):
                return ("crate", [])          # declared, no implementation in the crate
            return ("unresolved",) if any(t in self.c.traits for t in traits) else ("external",)
        if rt[0] != "T":
            return ("external",)
        n = rt[1]
        if n == "Self" or (fn is not None and not rt[2] and n in fn.generics):
            if n == "Self":
                bounds = [("T", fn.trait, [])] if fn.trait else []
            else:
                bounds = list(fn.generics[n])
                if fn.selfty is not None and fn.selfty[0] == "T" and fn.selfty[1] == n and fn.trait:
                    # inside `impl<T> Tr for T`: the methods of Tr itself are available on T
                    bounds.append(("T", fn.trait, []))
            traits = self.trait_closure(bounds)
            concrete = set()
            for tr, sty, gens, _f in self.c.impls:
                if tr in traits and sty[0] == "T" and not (not sty[2] and sty[1] in gens):
                    concrete.add(sty[1])
            c = self.impl_fns(name, lambda tr, sty, gens: tr in traits or (tr is None and sty[0] == "T" and sty[1] in concrete))
            for t in traits:
                d = self.c.traits.get(t, {"fns": {}})["fns"].get(name)
                if d is not None and d.body is not None:
                    c.append(d)
            if c:
                return ("crate", c)
            if any(name in self.c.traits.get(t, {"fns": {}})["fns"] for t in traits):
                return ("crate", [])
            return ("unresolved",)
        if n in self.c.structs or n in self.c.enums:
            c = self.impl_fns(name, lambda tr, sty, gens: sty[0] == "T" and sty[1] == n and not (not sty[2] and sty[1] in gens))
            if not c:
                c = self.impl_fns(name, lambda tr, sty, gens: sty[0] == "T" and not sty[2] and sty[1] in gens and tr is not None)
            if not c:
                for tr, sty, gens, _f in self.c.impls:
                    if sty[0] == "T" and sty[1] == n and tr in self.c.traits:
                        d = self.c.traits[tr]["fns"].get(name)
                        if d is not None and d.body is not None:
                            c.append(d)
            # no method of that name on a type of the crate: a method of a std trait (clone, into, ..) or unresolved
            return ("crate", c) if c else ("unresolved",)
        if n in self.c.traits:
            return self.resolve_method(("dyn", [rt]), name, fn)
        return ("external",)

    DERIVED = {"default": "Default", "clone": "Clone", "clone_from": "Clone", "eq": "PartialEq", "ne": "PartialEq",
               "hash": "Hash", "fmt": "Debug", "cmp": "Ord", "partial_cmp": "PartialOrd"}

    def derived_targets(self, tyn, name, seen=None):
        """`name` is a method of a trait derived for struct tyn: the derived impl calls the same method on every
           field; -> the crate functions that can run (field types outside the crate contribute nothing)"""
        seen = seen or set()
        if tyn in seen:
            return []
        seen.add(tyn)
        out = []
        for _f, fty in sorted(self.c.structs.get(tyn, {}).items()):
            stack = [self.norm(fty)]
            while stack:
                t = stack.pop()
                if t is None or t[0] != "T":
                    if t is not None and t[0] in ("tuple", "dyn"):
                        stack.extend(t[1])
                    continue
                stack.extend(t[2])
                h = t[1]
                if h in self.c.structs:
                    c = self.impl_fns(name, lambda tr, sty, gens, h=h: sty[0] == "T" and sty[1] == h)
                    if c:
                        out.extend(c)
                    elif self.DERIVED.get(name) in self.c.derives.get(h, ()):
                        out.extend(self.derived_targets(h, name, seen))
        return out

    def resolve_call(self, segs, cx):
        """callee path of a call expression -> ('crate', [Fn]) | ('indirect',) | ('external',)"""
        name = segs[-1]
        if len(segs) == 1:
            if name in cx.env or name in cx.guards:
                return ("indirect",)
            c = [f for f in self.c.by_name.get(name, []) if f.selfty is None and f.body is not None]
            return ("crate", c) if c else ("external",)
        q = segs[-2]
        if q == "Self" or q in self.c.structs or q in self.c.enums or q in self.c.traits or q in cx.fn.generics:
            r = self.resolve_method(("T", q, []), name, cx.fn)
            if r is not None and r[0] == "crate":
                return r
            qn = q
            if q == "Self" and cx.fn.selfty is not None and not self.is_generic(cx.fn, cx.fn.selfty):
                qn = self.tyname(cx.fn.selfty)
            if self.DERIVED.get(name) in self.c.derives.get(qn, ()):
                return ("crate", self.derived_targets(qn, name))
            if name[0].islower() and self.may is not None and self.name_may_lock(name):
                return ("unresolved",)
            return ("external",)
        c = [f for f in self.c.by_name.get(name, []) if f.selfty is None and f.body is not None]
        if c and q[0].islower():
            return ("crate", c)
        return ("external",)


# ---------------------------------------------------------------- skeletons
# Python form of coq/Gen/LocksRt.v `lk`:
#   ('nop',) ('op', 'Read'|'Write', note) ('hold', 'MR'|'MW', body, note) ('seq', [..]) ('alt', [..])
#   ('loop', body, note) ('exit',) ('break',) ('cont',) ('call', body, note) ('ref', gen name, note)
NOP = ("nop",)
TRY = ("alt", [("exit",), NOP])


def seq(items):
    out = []
    for x in items:
        if x[0] == "seq":
            out.extend(x[1])
        elif x[0] != "nop":
            out.append(x)
    if not out:
        return NOP
    if len(out) == 1:
        return out[0]
    return ("seq", out)


def alt(items):
    return ("alt", list(items)) if len(items) > 1 else (items[0] if items else NOP)


def close(items):
    """a flat list of items in evaluation order, ('acq', mode, note) marking a guard temporary that lives to
       the end of the temporary scope -> one skeleton (the guard is held over everything after it)"""
    for j, x in enumerate(items):
        if x[0] == "acq":
            return seq(list(items[:j]) + [("hold", x[1], close(items[j + 1:]), x[2])])
    return seq(items)


class Sk(Translator):
    """skeleton extraction"""

    # -- purity of a skeleton
    def has_ops(self, p, seen=None):
        k = p[0]
        if k in ("op", "hold"):
            return True
        if k in ("seq", "alt"):
            return any(self.has_ops(x, seen) for x in p[1])
        if k in ("loop", "call"):
            return self.has_ops(p[1], seen)
        if k == "ref":
            return self.ref_has_ops(p[1])
        return False

    def ref_has_ops(self, name):
        if name == "registered":
            return True       # decided when the file is assembled
        for g, _f, sk in self.order:
            if g == name:
                return self.has_ops(sk)
        return True

    def leaves(self, p):
        """can p leave by exit / break / continue?"""
        k = p[0]
        if k in ("exit", "break", "cont"):
            return True
        if k in ("seq", "alt"):
            return any(self.leaves(x) for x in p[1])
        if k == "loop":
            return self.leaves_exit(p[1])
        if k == "hold":
            return self.leaves(p[2])
        return False

    def leaves_exit(self, p):
        k = p[0]
        if k == "exit":
            return True
        if k in ("seq", "alt"):
            return any(self.leaves_exit(x) for x in p[1])
        if k == "loop":
            return self.leaves_exit(p[1])
        if k == "hold":
            return self.leaves_exit(p[2])
        return False

    def simplify(self, p):
        """only: a subtree without LOp / LHold / LExit / LBreak / LCont is LNop; a call of something without
           LOp / LHold is LNop; LNop dropped from sequences; an alternative between LNops is LNop"""
        k = p[0]
        if k == "seq":
            return seq([self.simplify(x) for x in p[1]])
        if k == "alt":
            xs = [self.simplify(x) for x in p[1]]
            if all(x == NOP for x in xs):
                return NOP
            # identical alternatives are one
            out = []
            for x in xs:
                if x not in out:
                    out.append(x)
            return alt(out)
        if k == "loop":
            b = self.simplify(p[1])
            return NOP if b == NOP else ("loop", b, p[2])
        if k == "hold":
            return ("hold", p[1], self.simplify(p[2]), p[3])
        if k == "call":
            b = self.simplify(p[1])
            return ("call", b, p[2]) if self.has_ops(b) else NOP
        if k == "ref":
            return p if self.ref_has_ops(p[1]) else NOP
        return p

    # -- lock acquisition recognition
    def acq_mode(self, e, cx):
        """e is `X.read()` / `X.write()` on a role-manager handle -> 'MR' / 'MW'; None if e is not a lock operation"""
        e = strip_parens(e)
        if e is None or e[0] != "mcall" or e[2] not in ("read", "write") or e[3]:
            return None
        rt = self.infer(e[1], cx)
        if self.is_handle(rt):
            return "MR" if e[2] == "read" else "MW"
        if rt is None:
            raise Untranslatable("%s line %d: `.%s()` on a receiver whose type is not known: lock acquisition or not?"
                                 % (cx.fn.key, e[4], e[2]))
        if self.head(rt) in ("RwLock", "Mutex") or (self.head(rt) == "Arc" and rt[2] and self.head(rt[2][0]) in ("RwLock", "Mutex")):
            raise Untranslatable("%s line %d: a lock other than the role-manager handle (%s)" % (cx.fn.key, e[4], self.tyname(rt)))
        return None

    def op_of(self, name, mode, cx, line):
        d = self.c.traits.get("RoleManager", {"fns": {}})["fns"].get(name)
        if d is None or d.recv not in ("ref", "mut"):
            raise Untranslatable("%s line %d: `%s` through a guard is not a method of trait RoleManager" % (cx.fn.key, line, name))
        if d.recv == "mut" and mode == "MR":
            raise Untranslatable("%s line %d: &mut method %s through a read guard" % (cx.fn.key, line, name))
        # the implementations of the method run UNDER the guard: they must not reach a lock site themselves
        for g in self.c.by_name.get(name, []):
            if g.trait == "RoleManager" and g in self.may:
                raise Untranslatable("%s line %d: %s may itself reach a lock acquisition" % (cx.fn.key, line, g.key))
        return ("op", "Read" if d.recv == "ref" else "Write", "%s %s" % (self.loc(cx.fn, line), name))

    # -- closures
    def closure_body(self, cl, argtys, cx):
        c2 = Cx(cx.fn, cx.env, cx.guards)
        for (p, ty), at in zip(cl[1], list(argtys) + [None] * len(cl[1])):
            self.bind(p, self.norm(ty, cx.fn) if ty is not None else at, c2.env)
        body = close(self.ev(cl[2], c2))
        return ("call", body, "%s closure" % (self.loc(cx.fn, cl[3])))

    # -- calls of crate functions
    def call_node(self, cands, cx, line, what, node=None):
        nodes = []
        for f in cands:
            if f not in self.may:
                continue
            if f.is_async and (node is None or id(node) not in self.awaited):
                # an async fn runs when its future is awaited, not where it is called
                raise Untranslatable("%s line %s: the future of async fn %s is not awaited where it is created"
                                     % (cx.fn.key, line, f.key))
            g = self.translate_fn(f)
            nodes.append(("ref", g, "%s %s" % (self.loc(cx.fn, line), what)))
        if not nodes:
            return []
        return [alt(nodes) if len(nodes) > 1 else nodes[0]]

    def args_items(self, name, args, cx, recv_ty, consumed, line):
        """items of the arguments of a call (in order), then the closures the callee runs"""
        items = []
        later = []
        for a in args:
            sa = strip_parens(a)
            if sa[0] == "closure":
                et = self.elem(recv_ty) if recv_ty is not None else None
                if self.head(recv_ty) in ("Option", "Result") and recv_ty[2]:
                    et = recv_ty[2][0]
                node = self.closure_body(sa, [et], cx)
                pure = not self.has_ops(node[1]) and True
                if name in REGISTER_METHODS:
                    self.registered.append(("%s" % (self.loc(cx.fn, sa[3])), node))
                    continue
                if pure:
                    continue
                if name in LAZY_ADAPTORS:
                    if not consumed:
                        raise Untranslatable("%s line %d: a closure with lock operations given to the lazy adaptor %s is not "
                                             "consumed in the same statement" % (cx.fn.key, line, name))
                    later.append(("loop", node, "%s %s" % (self.loc(cx.fn, line), name)))
                elif name in EAGER_LOOPERS:
                    later.append(("loop", node, "%s %s" % (self.loc(cx.fn, line), name)))
                elif name in ONCE_ADAPTORS:
                    later.append(alt([node, NOP]))
                else:
                    raise Untranslatable("%s line %d: a closure with lock operations is given to `%s`, whose use of it is not known"
                                         % (cx.fn.key, line, name))
            else:
                items.extend(self.ev(a, cx, consumed and name in CONSUMERS))
        return items, later

    # -- expressions: items in evaluation order
    def ev(self, e, cx, consumed=False):
        if e is None:
            return []
        k = e[0]
        fn = cx.fn
        if k in ("lit", "cfgout", "continue"):
            return [("cont",)] if k == "continue" else []
        if k == "path":
            if len(e[1]) == 1 and e[1][0] in cx.guards:
                raise Untranslatable("%s line %d: guard `%s` used other than as the receiver of a RoleManager method or in drop()"
                                     % (fn.key, e[2], e[1][0]))
            return []
        if k == "paren":
            return self.ev(e[1], cx, consumed)
        if k == "unary":
            if self.acq_mode(e[2], cx):
                raise Untranslatable("%s line %d: `%s` applied to a lock guard" % (fn.key, e[3], e[1]))
            return self.ev(e[2], cx, consumed)
        if k == "binary":
            if e[1] in ("&&", "||"):
                return self.ev(e[2], cx) + [alt([close(self.ev(e[3], cx)), NOP])]
            return self.ev(e[2], cx) + self.ev(e[3], cx)
        if k == "assign":
            return self.ev(e[3], cx) + self.ev(e[2], cx)
        if k == "field":
            if self.acq_mode(e[1], cx):
                raise Untranslatable("%s line %d: field access through a lock guard" % (fn.key, e[3]))
            return self.ev(e[1], cx)
        if k == "index":
            return self.ev(e[1], cx) + self.ev(e[2], cx)
        if k == "try":
            return self.ev(e[1], cx, consumed) + [TRY]
        if k == "await":
            self.awaited.add(id(strip_parens(e[1])))
            return self.ev(e[1], cx, consumed)
        if k == "cast":
            return self.ev(e[1], cx)
        if k == "range":
            return self.ev(e[1], cx) + self.ev(e[2], cx)
        if k in ("tuple", "array"):
            out = []
            for x in e[1]:
                if self.acq_mode(x, cx):
                    raise Untranslatable("%s line %d: a lock guard stored in a tuple / array" % (fn.key, e[2]))
                out.extend(self.ev(x, cx))
            return out
        if k == "struct":
            out = []
            for _n, x in e[2]:
                if self.acq_mode(x, cx):
                    raise Untranslatable("%s line %d: a lock guard stored in a struct" % (fn.key, e[4]))
                out.extend(self.ev(x, cx))
            return out + self.ev(e[3], cx)
        if k == "macro":
            out = []
            for x in e[2]:
                out.extend(self.ev(x, cx))
            if e[1] in PANICS:
                out.append(("exit",))
            elif e[1] in ASSERTS:
                out.append(TRY)
            return out
        if k == "macroexp":
            return self.block_items(e[2], cx)
        if k == "block":
            return self.block_items(e, cx)
        if k == "if":
            cond = e[1]
            c2 = cx.child()
            if cond[0] == "letcond":
                # the scrutinee is not a temporary scope: its temporaries live across both branches
                pre = self.ev(cond[2], cx)
                self.bind(cond[1], self.infer(cond[2], cx), c2.env)
            else:
                pre = [close(self.ev(cond, cx))]
            then = close(self.block_items(e[2], c2))
            els = close(self.ev(e[3], cx)) if e[3] is not None else NOP
            return pre + [alt([then, els])]
        if k == "match":
            pre = self.ev(e[1], cx)
            st = self.infer(e[1], cx)
            arms = []
            for pat, guard, body in e[2]:
                c2 = cx.child()
                self.bind(pat, st, c2.env)
                g = close(self.ev(guard, c2)) if guard is not None else NOP
                if guard is not None and (self.has_ops(g) or self.leaves(g)):
                    raise Untranslatable("%s line %d: match guard with lock operations" % (fn.key, e[3]))
                arms.append(close(self.ev(body, c2)))
            return pre + [alt(arms)]
        if k == "while":
            cond = e[1]
            c2 = cx.child()
            note = "%s while" % (self.loc(fn, e[3]))
            if cond[0] == "letcond":
                self.bind(cond[1], self.infer(cond[2], cx), c2.env)
                body = close(self.block_items(e[2], c2))
                return [("loop", close(self.ev(cond[2], cx) + [alt([body, ("break",)])]), note)]
            cnd = close(self.ev(cond, cx))
            body = close(self.block_items(e[2], c2))
            if self.has_ops(cnd) or self.leaves(cnd):
                return [("loop", seq([cnd, alt([("break",), NOP]), body]), note)]
            return [("loop", body, note)]
        if k == "for":
            # the iterator expression is not a temporary scope: its temporaries live for the whole loop
            pre = self.ev(e[2], cx, True)
            c2 = cx.child()
            self.bind(e[1], self.elem(self.infer(e[2], cx)), c2.env)
            body = close(self.block_items(e[3], c2))
            return pre + [("loop", body, "%s for" % (self.loc(fn, e[4])))]
        if k == "loop":
            return [("loop", close(self.block_items(e[1], cx.child())), "%s loop" % (self.loc(fn, e[2])))]
        if k == "return":
            if self.acq_mode(e[1], cx):
                raise Untranslatable("%s line %d: a lock guard is returned" % (fn.key, e[2]))
            return self.ev(e[1], cx) + [("exit",)]
        if k == "break":
            return self.ev(e[1], cx) + [("break",)]
        if k == "closure":
            node = self.closure_body(e, [], cx)
            if self.has_ops(node[1]):
                raise Untranslatable("%s line %d: a closure with lock operations is stored / passed where its use is not known"
                                     % (fn.key, e[3]))
            return []
        if k == "call":
            return self.ev_call(e, cx, consumed)
        if k == "mcall":
            return self.ev_mcall(e, cx, consumed)
        if k in ("let", "expr", "letcond"):
            raise Untranslatable("%s: statement in expression position" % fn.key)
        raise Untranslatable("%s: expression kind %s" % (fn.key, k))

    def ev_call(self, e, cx, consumed):
        fn = cx.fn
        cal = strip_parens(e[1])
        line = e[3]
        if cal[0] != "path":
            # (expr)(args): a call through a value
            items = self.ev(cal, cx)
            its, later = self.args_items("<value>", e[2], cx, None, consumed, line)
            return items + its + later + self.indirect(cx, line)
        segs = cal[1]
        name = segs[-1]
        if name == "drop" and len(e[2]) == 1 and (len(segs) == 1 or segs[-2] == "mem"):
            a = strip_parens(e[2][0])
            m = self.acq_mode(a, cx)
            if m:
                self.sites_seen += 1
                return self.ev(a[1], cx) + [("hold", m, NOP, "%s drop(%s())" % (self.loc(fn, line), a[2]))]
            if a[0] == "path" and len(a[1]) == 1 and a[1][0] in cx.guards:
                raise Untranslatable("%s line %d: drop(%s) is not a statement of the block that binds the guard" % (fn.key, line, a[1][0]))
        for a in e[2]:
            if self.acq_mode(a, cx):
                raise Untranslatable("%s line %d: a lock guard is passed to %s" % (fn.key, line, name))
        r = self.resolve_call(segs, cx)
        its, later = self.args_items(name, e[2], cx, None, consumed, line)
        if r[0] == "indirect":
            return its + later + self.indirect(cx, line)
        if r[0] == "crate":
            return its + later + self.call_node(r[1], cx, line, "::".join(segs), e)
        if r[0] == "unresolved":
            raise Untranslatable("%s line %d: %s(..): not found in the crate, but a function of that name may reach a lock"
                                 % (fn.key, line, "::".join(segs)))
        # std / third-party function
        return its + later

    def indirect(self, cx, line):
        """a call through a function pointer: the fn items of the crate whose address is taken somewhere"""
        return self.call_node(sorted(self.addr_taken, key=lambda f: f.key), cx, line, "fn pointer")

    def ev_mcall(self, e, cx, consumed):
        fn = cx.fn
        recv, name, args, line = e[1], e[2], e[3], e[4]
        if self.acq_mode(e, cx):
            raise Untranslatable("%s line %d: the guard of `.%s()` is neither a temporary receiver nor bound by `let g = ..;`"
                                 % (fn.key, line, name))
        m = self.acq_mode(recv, cx)
        if m:
            # X.read().f(args): X, the acquisition, the arguments, the call under the guard
            r = strip_parens(recv)
            self.sites_seen += 1
            items = self.ev(r[1], cx) + [("acq", m, "%s %s()" % (self.loc(fn, r[4]), r[2]))]
            for a in args:
                if strip_parens(a)[0] == "closure":
                    raise Untranslatable("%s line %d: closure argument of a RoleManager method" % (fn.key, line))
                items.extend(self.ev(a, cx))
            return items + [self.op_of(name, m, cx, line)]
        sr = strip_parens(recv)
        if sr[0] == "path" and len(sr[1]) == 1 and sr[1][0] in cx.guards:
            items = []
            for a in args:
                items.extend(self.ev(a, cx))
            return items + [self.op_of(name, cx.guards[sr[1][0]], cx, line)]
        rt = self.infer(recv, cx)
        if self.is_handle(rt) and name not in ("clone",):
            raise Untranslatable("%s line %d: RwLock operation `%s` outside the subset (read / write / clone)" % (fn.key, line, name))
        for a in args:
            if self.acq_mode(a, cx):
                raise Untranslatable("%s line %d: a lock guard is passed to %s" % (fn.key, line, name))
        items = self.ev(recv, cx, consumed or name in CONSUMERS or name in EAGER_LOOPERS)
        its, later = self.args_items(name, args, cx, rt, consumed or name in CONSUMERS, line)
        items = items + its + later
        if name in EVAL_METHODS and (rt is None or self.resolve_method(rt, name, fn) in (None, ("external",), ("unresolved",))):
            # rhai::Engine::eval_*: runs registered functions, any number of times
            return items + [("loop", ("ref", "registered", "%s %s" % (self.loc(fn, line), name)), "%s %s" % (self.loc(fn, line), name))]
        if not self.name_may_lock(name):
            return items
        r = self.resolve_method(rt, name, fn)
        if r is None:
            raise Untranslatable("%s line %d: `.%s(..)`: some function of that name may reach a lock and the receiver's type is not known"
                                 % (fn.key, line, name))
        if r[0] == "external":
            return items
        if r[0] == "unresolved":
            raise Untranslatable("%s line %d: `.%s(..)` on a receiver of type %s: no such method found in the crate, but a function "
                                 "of that name may reach a lock" % (fn.key, line, name, self.tyname(rt)))
        return items + self.call_node(r[1], cx, line, "." + name, e)

    # -- blocks
    def block_items(self, blk, cx):
        c2 = cx.child()
        items, _j, _d = self.run(blk[1], 0, blk[2], c2, None)
        return items

    def is_drop_of(self, st, cx):
        """statement `drop(g);` / `mem::drop(g);` / `std::mem::drop(g);` with g a live guard -> g"""
        if st[0] != "expr":
            return None
        e = strip_parens(st[1])
        if e[0] != "call":
            return None
        cal = strip_parens(e[1])
        if cal[0] != "path" or cal[1][-1] != "drop" or len(e[2]) != 1:
            return None
        a = strip_parens(e[2][0])
        if a[0] == "path" and len(a[1]) == 1 and a[1][0] in cx.guards:
            return a[1][0]
        return None

    def run(self, stmts, i, tail, cx, stop_on):
        """statements from index i; stops after `drop(stop_on);` -> (items, next index, dropped?)"""
        fn = cx.fn
        items = []
        while i < len(stmts):
            st = stmts[i]
            g = self.is_drop_of(st, cx)
            if g is not None:
                if g != stop_on:
                    raise Untranslatable("%s line %d: drop(%s) while a guard bound later is alive" % (fn.key, st[2], g))
                return items, i + 1, True
            if st[0] == "let":
                pat, ty, init, els, line = st[1], st[2], st[3], st[4], st[5]
                m = self.acq_mode(init, cx) if init is not None else None
                if m:
                    a = strip_parens(init)
                    self.sites_seen += 1
                    pre = close(self.ev(a[1], cx))
                    note = "%s let %s = ..%s()" % (self.loc(fn, line), pat[1] if pat[0] == "pident" else "_", a[2])
                    if pat[0] == "pwild":
                        # `let _ = X.read();` does not bind: the guard is a temporary of the statement
                        items += [pre, ("hold", m, NOP, note)]
                        i += 1
                        continue
                    if pat[0] != "pident" or pat[2] is not None or els is not None:
                        raise Untranslatable("%s line %d: a lock guard bound by a pattern other than a variable" % (fn.key, line))
                    if pat[1] in cx.guards:
                        raise Untranslatable("%s line %d: guard variable %s shadowed" % (fn.key, line, pat[1]))
                    c2 = cx.child()
                    c2.guards[pat[1]] = m
                    c2.env.pop(pat[1], None)
                    inner, j, dropped = self.run(stmts, i + 1, tail, c2, pat[1])
                    items += [pre, ("hold", m, close(inner), note)]
                    if not dropped:
                        return items, len(stmts), False      # the tail was consumed inside the hold
                    # variables declared inside the guard's extent stay visible after drop(g)
                    for kx, vx in c2.env.items():
                        cx.env[kx] = vx
                    i = j
                    continue
                if init is not None:
                    for n in [strip_parens(init)]:
                        if n[0] == "unary" and n[1] in ("&", "&mut") and self.acq_mode(n[2], cx):
                            raise Untranslatable("%s line %d: reference to a lock guard bound by let (lifetime extension)" % (fn.key, line))
                    items.append(close(self.ev(init, cx)))
                    if els is not None:
                        items.append(alt([close(self.block_items(els, cx)), NOP]))
                tyv = self.norm(ty, fn) if ty is not None else (self.infer(init, cx) if init is not None else None)
                for nm in self.pat_names(pat):
                    if nm in cx.guards:
                        raise Untranslatable("%s line %d: guard variable %s shadowed" % (fn.key, line, nm))
                self.bind(pat, tyv, cx.env)
                i += 1
                continue
            if st[0] == "expr":
                items.append(close(self.ev(st[1], cx)))
                i += 1
                continue
            raise Untranslatable("%s: statement kind %s" % (fn.key, st[0]))
        if tail is not None:
            if self.acq_mode(tail, cx):
                raise Untranslatable("%s: a lock guard is the value of a block" % fn.key)
            t = self.ev(tail, cx)
            # the tail's temporaries outlive the block (2021 edition) unless a bound guard encloses them here
            items += [close(t)] if stop_on is not None else t
        return items, len(stmts), False

    def pat_names(self, pat):
        k = pat[0]
        if k == "pident":
            return [pat[1]] + (self.pat_names(pat[2]) if pat[2] is not None else [])
        if k == "pref":
            return self.pat_names(pat[1])
        if k in ("ptuple", "pslice", "por"):
            return [n for p in pat[1] for n in self.pat_names(p)]
        if k == "ptstruct":
            return [n for p in pat[2] for n in self.pat_names(p)]
        if k == "pstruct":
            return [n for _f, p in pat[2] for n in self.pat_names(p)]
        return []

    # -- functions
    def gen_name(self, f):
        tn = self.tyname(f.selfty) if f.selfty is not None else None
        if f.selfty is not None and (self.is_generic(f, f.selfty) or f.in_trait_decl):
            tn = f.trait
        key = (tn, f.name)
        if key in self.names:
            return self.names[key]
        base = ("%s_%s" % (tn, f.name) if tn else f.name).lower()
        base = re.sub(r"[^a-z0-9_]", "_", base)
        return base

    def translate_fn(self, f):
        if f in self.done:
            if self.done[f] is None:
                raise Untranslatable("%s: recursion" % f.key)
            return self.done[f]
        if self.c.edition not in ("2015", "2018", "2021"):
            raise Untranslatable("edition %s: the temporary-scope rules encoded are those up to 2021" % self.c.edition)
        self.done[f] = None
        try:
            tree, dropped = self.ast(f)
            cx = Cx(f)
            for pat, ty in f.params:
                if len(pat) >= 1 and pat[-1].k == "id":
                    cx.env[pat[-1].v] = self.norm(ty, f)
            sk = self.simplify(close(self.block_items(tree, cx)))
        except Exception:
            del self.done[f]
            raise
        g = self.gen_name(f)
        if any(g == h for h, _f, _s in self.order):
            g = g + "_%d" % f.line
        self.done[f] = g
        self.order.append((g, f, sk))
        return g

    def find_fn(self, tname, fname):
        out = []
        for f in self.c.by_name.get(fname, []):
            if f.body is None:
                continue
            tn = self.tyname(f.selfty) if f.selfty is not None else None
            if f.selfty is not None and (self.is_generic(f, f.selfty) or f.in_trait_decl):
                tn = f.trait
            if tn == tname:
                out.append(f)
        if len(out) != 1:
            raise Untranslatable("%s::%s: %d definitions found" % (tname, fname, len(out)))
        return out[0]


# ---------------------------------------------------------------- the analysis of coq/Proofs/LocksGenP.v, in Python
# (used to PROPOSE the block and the range of counts; PinChecks/PcLocksGen.v re-derives them from gen_lk_F
#  with the verified lk_cnt, so a mistake here fails a proof instead of going unnoticed)
class Analysis:
    def __init__(self, defs):
        self.defs = defs          # gen name -> skeleton ('registered' included)

    def body(self, p):
        return self.defs[p[1]]

    def enum(self, p):
        k = p[0]
        if k == "nop":
            return [((), "N")]
        if k == "op":
            return [((p[1],), "N")]
        if k == "hold":
            l = self.enum(p[2])
            return None if l is None else [((("Acq", p[1]),) + t + ("Rel",), o) for t, o in l]
        if k == "seq":
            cur = [((), "N")]
            for x in p[1]:
                lx = self.enum(x)
                if lx is None:
                    return None
                nxt = []
                for t, o in cur:
                    if o == "N":
                        nxt.extend((t + t2, o2) for t2, o2 in lx)
                    else:
                        nxt.append((t, o))
                cur = nxt
                if len(cur) > 4096:
                    return None
            return cur
        if k == "alt":
            out = []
            for x in p[1]:
                lx = self.enum(x)
                if lx is None:
                    return None
                out.extend(lx)
            return out
        if k == "loop":
            return None
        if k == "exit":
            return [((), "X")]
        if k == "break":
            return [((), "B")]
        if k == "cont":
            return [((), "C")]
        if k in ("call", "ref"):
            l = self.enum(p[1] if k == "call" else self.body(p))
            return None if l is None else [(t, "N") for t, o in l if o in ("N", "X")]
        raise AssertionError(k)

    def blocks(self, p, acc, seen):
        """the instruction sequences of the guards of p (an entry None: a guard with a loop inside)"""
        k = p[0]
        if k == "hold":
            l = self.enum(p)
            if l is None:
                acc.add(None)
            else:
                acc.update(t for t, _o in l)
        elif k in ("seq", "alt"):
            for x in p[1]:
                self.blocks(x, acc, seen)
        elif k in ("loop", "call"):
            self.blocks(p[1], acc, seen)
        elif k == "ref":
            if p[1] not in seen:
                seen.add(p[1])
                self.blocks(self.body(p), acc, seen)
        elif k == "op":
            acc.add(None)

    # count sets: (frozenset of values, frozenset of lower bounds of half-lines)
    E = (frozenset(), frozenset())

    @staticmethod
    def one(n):
        return (frozenset([n]), frozenset())

    @staticmethod
    def union(a, b):
        return (a[0] | b[0], a[1] | b[1])

    @staticmethod
    def sum(a, b):
        fin = frozenset(i + j for i in a[0] for j in b[0])
        low = frozenset(l + j for l in a[1] for j in b[0]) | frozenset(l + i for l in b[1] for i in a[0]) | \
            frozenset(l + m for l in a[1] for m in b[1])
        return (fin, low)

    @staticmethod
    def mem(k, s):
        return k in s[0] or any(l <= k for l in s[1])

    def star(self, s):
        if all(x == 0 for x in s[0]) and not s[1]:
            return self.one(0)
        if self.mem(1, s):
            return (frozenset(), frozenset([0]))
        return None

    def cnt(self, p, B):
        k = p[0]
        E = self.E
        if k == "nop":
            return {"N": self.one(0), "B": E, "C": E, "X": E}
        if k == "op":
            return None
        if k == "hold":
            l = self.enum(p)
            if l is None or any(t != B for t, _o in l):
                return None
            outs = set(o for _t, o in l)
            return {o: (self.one(1) if o in outs else E) for o in "NBCX"}
        if k == "seq":
            cur = {"N": self.one(0), "B": E, "C": E, "X": E}
            for x in p[1]:
                rx = self.cnt(x, B)
                if rx is None:
                    return None
                cur = {"N": self.sum(cur["N"], rx["N"]),
                       "B": self.union(cur["B"], self.sum(cur["N"], rx["B"])),
                       "C": self.union(cur["C"], self.sum(cur["N"], rx["C"])),
                       "X": self.union(cur["X"], self.sum(cur["N"], rx["X"]))}
            return cur
        if k == "alt":
            cur = {"N": E, "B": E, "C": E, "X": E}
            for x in p[1]:
                rx = self.cnt(x, B)
                if rx is None:
                    return None
                cur = {o: self.union(cur[o], rx[o]) for o in "NBCX"}
            return cur
        if k == "loop":
            rb = self.cnt(p[1], B)
            if rb is None:
                return None
            st = self.star(self.union(rb["N"], rb["C"]))
            if st is None:
                return None
            return {"N": self.union(st, self.sum(st, rb["B"])), "B": E, "C": E, "X": self.sum(st, rb["X"])}
        if k == "exit":
            return {"N": E, "B": E, "C": E, "X": self.one(0)}
        if k == "break":
            return {"N": E, "B": self.one(0), "C": E, "X": E}
        if k == "cont":
            return {"N": E, "B": E, "C": self.one(0), "X": E}
        if k in ("call", "ref"):
            rb = self.cnt(p[1] if k == "call" else self.body(p), B)
            if rb is None:
                return None
            return {"N": self.union(rb["N"], rb["X"]), "B": E, "C": E, "X": E}
        raise AssertionError(k)

    def summary(self, p):
        """-> (block, lo, hi) with hi None for unbounded, or None when the runs of the function body p are not
           `block` repeated k times for the k of an interval"""
        acc = set()
        self.blocks(p, acc, set())
        if None in acc or len(acc) > 1:
            return None
        B = acc.pop() if acc else ()
        r = self.cnt(("call", p, ""), B)
        if r is None:
            return None
        fin, low = r["N"]
        if not fin and not low:
            return None
        if low:
            l0 = min(low)
            lo = min(list(fin) + [l0])
            if any(not self.mem(k, r["N"]) for k in range(lo, l0)):
                return None
            return (B, lo, None)
        lo, hi = min(fin), max(fin)
        if any(k not in fin for k in range(lo, hi + 1)):
            return None
        return (B, lo, hi)

    def main_path(self, p, stop):
        """fallback display for an irregular skeleton: the instructions of the run that takes no early exit,
           every loop running k times (Gallina list expression pieces)"""
        k = p[0]
        if k == "nop":
            return []
        if k == "op":
            return ["[%s]" % p[1]]
        if k == "hold":
            return ["[Acq RM %s]" % p[1]] + self.main_path(p[2], stop) + ["[Rel RM]"]
        if k == "seq":
            out = []
            for x in p[1]:
                out.extend(self.main_path(x, stop))
                if x[0] in ("exit", "break", "cont"):
                    break
            return out
        if k == "alt":
            cands = [x for x in p[1] if x[0] not in ("exit", "break", "cont") and
                     not (x[0] == "seq" and x[1] and x[1][-1][0] == "exit")]
            if not cands:
                cands = [x for x in p[1] if x[0] not in ("exit", "break", "cont")]
            best = []
            for x in cands:
                mp = self.main_path(x, stop)
                if len(mp) > len(best):
                    best = mp
            return best
        if k == "loop":
            b = self.main_path(p[1], stop)
            return ["repeat_prog k (%s)" % " ++ ".join(b)] if b else []
        if k == "call":
            return self.main_path(p[1], stop)
        if k == "ref":
            if p[1] in stop:
                return []
            return self.main_path(self.body(p), stop | {p[1]})
        return []


# ---------------------------------------------------------------- emission
def cm(s):
    return s.replace("(*", "( *").replace("*)", "* )")


def coq_instr(x):
    if isinstance(x, tuple):
        return "Acq RM %s" % x[1]
    return {"Rel": "Rel RM", "Read": "Read", "Write": "Write"}[x]


def coq_block(B):
    return "[%s]" % "; ".join(coq_instr(x) for x in B)


def coq_lk(p, ind):
    pad = " " * ind
    k = p[0]
    if k == "nop":
        return "LNop"
    if k == "op":
        return "LOp %s (* %s *)" % (p[1], cm(p[2]))
    if p == TRY:
        return "lk_try"
    if k == "hold":
        if p[2][0] == "op":
            return "lk_tmp %s %s (* %s; %s *)" % (p[1], p[2][1], cm(p[3]), cm(p[2][2]))
        return "LHold %s (* %s *)\n%s  (%s)" % (p[1], cm(p[3]), pad, coq_lk(p[2], ind + 3))
    if k in ("seq", "alt"):
        f = "lk_seq" if k == "seq" else "lk_alt"
        return "%s\n%s  [ %s ]" % (f, pad, (";\n%s    " % pad).join(coq_lk(x, ind + 4) for x in p[1]))
    if k == "loop":
        return "LLoop (* %s *)\n%s  (%s)" % (cm(p[2]), pad, coq_lk(p[1], ind + 3))
    if k == "exit":
        return "LExit"
    if k == "break":
        return "LBreak"
    if k == "cont":
        return "LCont"
    if k == "call":
        return "LCall (* %s *)\n%s  (%s)" % (cm(p[2]), pad, coq_lk(p[1], ind + 3))
    if k == "ref":
        return "LCall gen_lk_%s (* %s *)" % (p[1], cm(p[2]))
    raise AssertionError(k)


def merge_tries(p):
    """adjacent `e?` / early-return points in a sequence are one (same runs: leave with nothing issued, or go on);
       nested alternatives are flattened"""
    k = p[0]
    if k == "seq":
        out = []
        for x in (merge_tries(y) for y in p[1]):
            if x == TRY and out and out[-1] == TRY:
                continue
            out.append(x)
        return seq(out)
    if k == "alt":
        out = []
        for x in (merge_tries(y) for y in p[1]):
            for z in (x[1] if x[0] == "alt" else [x]):
                if z not in out:
                    out.append(z)
        return alt(out)
    if k == "loop":
        return ("loop", merge_tries(p[1]), p[2])
    if k == "hold":
        return ("hold", p[1], merge_tries(p[2]), p[3])
    if k == "call":
        return ("call", merge_tries(p[1]), p[2])
    return p


# the covered set: (generated name, type or trait of the impl, function)
ROOTS = [
    ("register_g_functions", "Enforcer", "register_g_functions"),
    ("private_enforce", "Enforcer", "private_enforce"),
    ("private_enforce_with_context", "Enforcer", "private_enforce_with_context"),
    ("enforce", "Enforcer", "enforce"),
    ("enforce_with_context", "Enforcer", "enforce_with_context"),
    ("cached_enforce", "CachedEnforcer", "enforce"),
    ("assertion_build_role_links", "Assertion", "build_role_links"),
    ("assertion_build_incremental_role_links", "Assertion", "build_incremental_role_links"),
    ("model_build_role_links", "DefaultModel", "build_role_links"),
    ("model_build_incremental_role_links", "DefaultModel", "build_incremental_role_links"),
    ("enforcer_build_role_links", "Enforcer", "build_role_links"),
    ("enforcer_build_incremental_role_links", "Enforcer", "build_incremental_role_links"),
    ("add_policy_internal", "InternalApi", "add_policy_internal"),
    ("add_policies_internal", "InternalApi", "add_policies_internal"),
    ("remove_policy_internal", "InternalApi", "remove_policy_internal"),
    ("remove_policies_internal", "InternalApi", "remove_policies_internal"),
    ("remove_filtered_policy_internal", "InternalApi", "remove_filtered_policy_internal"),
    ("get_roles_for_user", "RbacApi", "get_roles_for_user"),
    ("get_users_for_role", "RbacApi", "get_users_for_role"),
    ("get_implicit_roles_for_user", "RbacApi", "get_implicit_roles_for_user"),
    ("get_implicit_users_for_permission", "RbacApi", "get_implicit_users_for_permission"),
]
HEADER = """(* GENERATED on every run by tools/rs2coq_locks.py (rs2coq part 19) from the Rust text under %s/src
   (every src/**/*.rs is lexed and scanned; the bodies below are parsed); cfg resolved for the features %s.
   Do not edit.  gen_lk_F : lk is the lock skeleton of F (Gen/LocksRt.v says what it means); gen_locks_F k is the
   sequence of role-manager instructions F issues, k = number of guarded role-manager calls (links added / removed,
   g(..) evaluations, role lookups); gen_locks_F_lo / _hi bound k.  PinChecks/PcLocksGen.v proves from gen_lk_F that
   the complete executions of F issue exactly gen_locks_F k for gen_locks_F_lo <= k (<= gen_locks_F_hi). *)
From CV Require Import Model.Base Model.Locks Gen.LocksRt.
"""


def site_inventory(tr):
    """number of `.read()` / `.write()` calls without arguments in non-test code of the crate (macros expanded)"""
    n = 0
    for f in tr.c.fns:
        if f.body is None:
            continue
        try:
            tree, _d = tr.ast(f)
            n += sum(1 for x in walk(tree) if x[0] == "mcall" and x[2] in ("read", "write") and not x[3])
        except Untranslatable:
            toks = f.body
            n += sum(1 for j, t in enumerate(toks) if t.k == "id" and t.v in ("read", "write") and j > 0 and
                     toks[j - 1].v == "." and j + 2 < len(toks) and toks[j + 1].v == "(" and toks[j + 2].v == ")")
    return n


def generate():
    feats = ", ".join("%s%s" % ("" if v else "!", f) for f, v in sorted(FEATURES.items()))
    out = [HEADER % (pins.REPO, feats)]
    ok = True
    notes = []
    tr = None
    try:
        crate = load_crate()
        tr = Sk(crate)
        tr.compute_may()
        for g, tname, fname in ROOTS:
            tr.names[(tname, fname)] = g
    except Exception as ex:     # noqa
        ok = False
        notes.append("loading the crate failed: %s: %s" % (type(ex).__name__, ex))
        tr = None
    failed = {}
    uncovered = []
    reg_mark = 0
    if tr is not None:
        # functions that hand closures to Engine::register_fn first: the registry must be complete before it is used
        regfns = []
        for f in tr.c.fns:
            if f.body is None:
                continue
            try:
                tree, _d = tr.ast(f)
            except Untranslatable:
                continue
            if any(x[0] == "mcall" and x[2] in REGISTER_METHODS for x in walk(tree)):
                regfns.append(f)
        for f in regfns:
            try:
                tr.translate_fn(f)
            except Exception as ex:   # noqa
                ok = False
                msg = str(ex) if isinstance(ex, Untranslatable) else "%s: %s" % (type(ex).__name__, ex)
                notes.append("registration site %s: %s" % (f.key, msg))
        reg_mark = len(tr.order)
        n_reg = len(tr.registered)
        for g, tname, fname in ROOTS:
            try:
                tr.translate_fn(tr.find_fn(tname, fname))
            except Exception as ex:   # noqa
                ok = False
                msg = str(ex) if isinstance(ex, Untranslatable) else "%s: %s" % (type(ex).__name__, ex)
                failed[g] = msg
        # beyond the covered set: every other function of the crate that may reach a lock site (best effort;
        # what cannot be translated is listed in gen_locks_uncovered, which PcLocksGen.v pins)
        for f in sorted(tr.may, key=lambda f: (f.file, f.line)):
            if f in tr.done:
                continue
            try:
                tr.translate_fn(f)
            except Exception as ex:   # noqa
                msg = str(ex) if isinstance(ex, Untranslatable) else "%s: %s" % (type(ex).__name__, ex)
                uncovered.append((f.key, msg))
        if len(tr.registered) != n_reg:
            ok = False
            notes.append("a closure is registered with the engine by a function translated after the registry was closed")
    # assemble
    defs = {}
    emitted = []
    if tr is not None:
        regs = [("g_closure_%d" % (i + 1), note, merge_tries(sk)) for i, (note, sk) in enumerate(tr.registered[:n_reg])]
        seq_defs = []
        for idx, (g, f, sk) in enumerate(tr.order):
            if idx == reg_mark:
                seq_defs.append(None)
            seq_defs.append((g, f, merge_tries(sk)))
        if reg_mark >= len(tr.order):
            seq_defs.append(None)
        for item in seq_defs:
            if item is None:
                for name, note, sk in regs:
                    defs[name] = sk
                    emitted.append((name, "closure given to Engine::register_fn at %s" % note, sk))
                rsk = alt([("ref", name, note) for name, note, _s in regs]) if regs else NOP
                defs["registered"] = rsk
                emitted.append(("registered", "any function registered with the rhai engine that captures a role-manager handle", rsk))
            else:
                g, f, sk = item
                defs[g] = sk
                emitted.append((g, "%s  (%s:%d)" % (f.key, f.file, f.line), sk))
    an = Analysis(defs)
    table = []
    irregular = []
    for name, what, sk in emitted:
        out.append("(* %s *)" % cm(what))
        out.append("Definition gen_lk_%s : lk :=\n  %s.\n" % (name, coq_lk(sk, 2)))
        summ = an.summary(sk)
        if summ is None:
            irregular.append(name)
            mp = an.main_path(sk, frozenset([name]))
            out.append("(* NOT of the form `one block repeated k times`: the run without early exit, every loop taken k times *)")
            out.append("Definition gen_locks_%s_block : list instr := []." % name)
            out.append("Definition gen_locks_%s_lo : nat := 0." % name)
            out.append("Definition gen_locks_%s_hi : option nat := None." % name)
            out.append("Definition gen_locks_%s (k : nat) : list instr :=\n  %s.\n" % (name, " ++ ".join(mp) if mp else "[]"))
        else:
            B, lo, hi = summ
            out.append("Definition gen_locks_%s_block : list instr := %s." % (name, coq_block(B)))
            out.append("Definition gen_locks_%s_lo : nat := %d." % (name, lo))
            out.append("Definition gen_locks_%s_hi : option nat := %s." % (name, "None" if hi is None else "Some %d" % hi))
            out.append("Definition gen_locks_%s (k : nat) : list instr := repeat_prog k gen_locks_%s_block.\n" % (name, name))
        table.append(name)
    have = set(table)
    for g, _t, _f in ROOTS:
        if g not in have:
            out.append("(* translation of %s failed: %s *)" % (g, cm(failed.get(g, "not reached"))))
            out.append("Definition gen_lk_%s : lk := LNop." % g)
            out.append("Definition gen_locks_%s_block : list instr := []." % g)
            out.append("Definition gen_locks_%s_lo : nat := 0." % g)
            out.append("Definition gen_locks_%s_hi : option nat := Some 0." % g)
            out.append("Definition gen_locks_%s (k : nat) : list instr := [].\n" % g)
            table.append(g)
        elif g in failed:
            notes.append("%s: %s" % (g, failed[g]))
    for extra in ("registered",):
        if extra not in have:
            out.append("Definition gen_lk_%s : lk := LNop." % extra)
            out.append("Definition gen_locks_%s_block : list instr := []." % extra)
            out.append("Definition gen_locks_%s_lo : nat := 0." % extra)
            out.append("Definition gen_locks_%s_hi : option nat := Some 0." % extra)
            out.append("Definition gen_locks_%s (k : nat) : list instr := [].\n" % extra)
            table.append(extra)
    for n in notes:
        out.append("(* %s *)" % cm(n))
    out.append("(* every generated function: name, skeleton, block, bounds *)")
    out.append("Definition gen_locks_table : list (text * lk * list instr * nat * option nat) :=\n  [%s].\n" % ";\n   ".join(
        "(%s, gen_lk_%s, gen_locks_%s_block, gen_locks_%s_lo, gen_locks_%s_hi)" % (R.coq_text(n), n, n, n, n) for n in table))
    total = site_inventory(tr) if tr is not None else 0
    covered = tr.sites_seen if tr is not None else 0
    out.append("(* `.read()` / `.write()` calls without arguments in the non-test code of the crate (macros expanded where they are\n"
               "   used), and how many of them the skeletons above account for (as acquisitions of the role-manager lock) *)")
    out.append("Definition gen_locks_sites_total : nat := %d." % total)
    out.append("Definition gen_locks_sites_covered : nat := %d." % covered)
    out.append("Definition gen_locks_registered_closures : nat := %d." % (len(tr.registered) if tr is not None else 0))
    out.append("(* functions that may reach a lock site (conservative call graph) and are NOT translated; none of them contains a\n"
               "   lock site when gen_locks_sites_covered = gen_locks_sites_total *)")
    for k, msg in uncovered:
        out.append("(* %s: %s *)" % (cm(k), cm(msg)))
    out.append("Definition gen_locks_uncovered : list text := [%s]." % "; ".join(R.coq_text(k) for k, _m in uncovered))
    out.append("(* skeletons whose runs are not one block repeated *)")
    out.append("Definition gen_locks_irregular : list text := [%s]." % "; ".join(R.coq_text(n) for n in irregular))
    out.append("Definition gen_locks_translated : bool := %s." % ("true" if ok else "false"))
    return "\n".join(out) + "\n", ok


def main(dst=None):
    if dst is None:
        dst = sys.argv[1] if len(sys.argv) > 1 else os.path.join(os.path.dirname(HERE), "coq", "Gen")
    if os.path.isdir(dst):
        dst = os.path.join(dst, "LocksGen.v")
    txt, ok = generate()
    R.write_if_changed(dst, txt, ok)
    return ok


if __name__ == "__main__":
    main()
