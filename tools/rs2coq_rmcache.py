#!/usr/bin/env python3
"""rs2coq, part 23: the `#[cfg(feature = "cached")]` statements of src/rbac/default_role_manager.rs (the has_link
result cache of DefaultRoleManager) -> coq/Gen/RmCacheGen.v.

Part 11 (tools/rs2coq_rm.py -> Gen/RoleManagerGen.v) translates the file with the feature OFF: the `cache` field is left
out and every statement under the attribute becomes a Coq comment.  This module translates the file with the feature
ON, with the SAME parser / typed emitter (imported, not copied): the statements under the attribute are ordinary
statements, and the functions that reach the cache get a second state component.

  cache field      `#[cfg(feature = "cached")] cache: DefaultCache<u64, bool>` (read from the struct; anything else is
                   rejected).  All methods of the `Cache` trait take `&self` (mini-moka: interior mutability), so the
                   cache is NOT part of `rm_state`: it is a separate variable `cache : moka nat bool` (Gen/MokaRt.v: "a
                   bounded map that may forget", entries + an eviction schedule) that every function which reaches it
                   takes and returns - also `has_link(&self, ..)`, which mutates nothing else.  `rm_state` and all the
                   functions that do not reach the cache are those of Gen/RoleManagerGen.v (imported, not re-emitted).
  self.cache.get(&k) / .set(k, v) / .clear() / .has(&k)
                   gen_cache_get / _set / _clear / _has of Gen/Model2Gen.v (part 18: the translated DefaultCache over
                   mini-moka), at K = nat (u64), V = bool, Nat.eqb
  the cache key    is translated STATEMENT BY STATEMENT, not recognised as a whole:
                     DefaultHasher::new()        rs_hasher_new                 (Gen/RmCacheRt.v, hand-written, trusted:
                     <str>.hash(&mut hasher)     rs_hash_str hasher <str>       the hasher state is the list of the strs
                     hasher.finish()             rs_hasher_finish hfin hasher   fed so far; `hfin` is the digest)
                   so "three separate hash calls in the order name1, name2, domain.unwrap_or(DEFAULT_DOMAIN)" is what
                   the generated term says, and a key built from a concatenation, from another default domain or in
                   another order is a different term.  `hfin : hasher -> nat` is an explicit parameter of the functions
                   that finish a hasher; the proofs assume it collision-free on the keys in play and nothing else.
  new              `cache: DefaultCache::new(cap)` in the struct literal: gen_c_new returns the pair
                   (state, gen_cache_new nat bool sched cap); `sched` (the future eviction decisions of the new cache) is
                   a parameter.
  which functions  get_or_create_role / clear / add_link / matching_fn / delete_link / has_link (the mutators and the
                   cached query of the RoleManager trait, and the role creation they share) always, plus every function
                   that touches `self.cache` or calls one that does: emitted as gen_c_<name>, `cache` right after
                   `self`, result (self, cache, value).
  imports          DefaultHasher / Hash / Hasher / DefaultCache / Cache must be imported (top-level `use`, under the
                   attribute or not) from std::collections::hash_map, std::hash and crate::cache: the restatements
                   are about these and no others.
  extra syntax     `[a, b, c]` (array literal: a vec), `.concat()` on a vec of strings.
Outside the subset (another statement shape under the attribute is fine as long as it is in part 11's subset; `self.cache`
used other than as the receiver of get / set / clear / has, another field under the attribute, a struct literal without
the cache, hashing something that is not a str): `gen_rmcache_translated := false` and a comment with the reason.

Re-read from /repo (VERIF_REPO) on every run.  rs2coq.py's main() calls main() here (after part 11)."""
import os
import re
import sys

sys.path.insert(0, os.path.dirname(os.path.abspath(__file__)))
import pins  # noqa: E402
import rs2coq_rm as B  # noqa: E402
from rs2coq_rm import Untranslatable, need, cached_attr  # noqa: E402

CACHE = "self.cache"          # the Rust-level name of the implicit variable (not an identifier: cannot clash)
CACHE_COQ = "cache"
SELF_CACHE = ("field", ("var", "self"), "cache")
CACHE_OPS = ("get", "set", "clear", "has")
OWNER = "DefaultRoleManager"
ALWAYS = ("get_or_create_role", "clear", "add_link", "matching_fn", "delete_link", "has_link")
NEW_BUILTIN_MUT = ("cache.get", "cache.set", "cache.clear", "cache.has", "hash.str")
MCACHE_COQ = "moka nat bool"


# ===================================================================== parser
_RP = B.RP


class CRP(_RP):
    """part 11's parser, keeping what it drops: the struct literal fields under #[cfg(feature = "cached")] (4th
       component of the node) - and reading an array literal `[a, b]` as a vec"""

    def struct_lit(self, name):
        self.eat("{")
        fields, cfields = [], []
        while not self.at("}"):
            skipped = None
            while self.peek()[0] == "attr":
                skipped = self.eat()[1]
            kind, f = self.eat()
            if kind != "id":
                raise Untranslatable("struct literal field " + f)
            if self.at(":"):
                self.eat()
                e = self.expr()
            else:
                e = ("var", f)
            if skipped is None:
                fields.append((f, e))
            elif not cached_attr(skipped):
                raise Untranslatable("attribute %s on a struct literal field" % skipped)
            else:
                cfields.append((f, e))
            if self.at(","):
                self.eat()
        self.eat("}")
        return ("struct", name, fields, cfields)

    def primary(self, nostruct):
        if self.peek() == ("op", "["):
            self.eat()
            items = []
            while not self.at("]"):
                items.append(self.expr())
                if self.at(","):
                    self.eat()
                elif self.at(";"):
                    raise Untranslatable("[x; n]")
            self.eat("]")
            return ("vec", items)
        return _RP.primary(self, nostruct)


# ================================================================ AST rewriting
def is_node(n, tag):
    if not (isinstance(n, tuple) and n and n[0] == tag):
        return False
    if tag == "cfg":
        return len(n) == 3 and isinstance(n[1], str) and n[1].startswith("#")
    if tag == "mcall":
        return len(n) == 4 and isinstance(n[2], str) and isinstance(n[3], list)
    if tag == "call":
        return len(n) == 3 and isinstance(n[2], list)
    return True


def unwrap(n):
    """the feature ON: `#[cfg(feature = "cached")] stmt` is stmt; self.cache.op(..) is an operation on the variable
       CACHE; x.hash(&mut h) is an operation on h"""
    if isinstance(n, list):
        return [unwrap(x) for x in n]
    if not isinstance(n, tuple):
        return n
    if is_node(n, "cfg"):
        if not cached_attr(n[1]):
            raise Untranslatable("attribute " + n[1])
        return unwrap(n[2])
    if is_node(n, "mcall"):
        recv, name, args = n[1], n[2], n[3]
        if recv == SELF_CACHE:
            if name not in CACHE_OPS:
                raise Untranslatable("self.cache.%s" % name)
            return ("mcall", ("var", CACHE), "cache." + name, unwrap(args))
        if name == "hash" and len(args) == 1:
            return ("mcall", unwrap(args[0]), "hash.str", [unwrap(recv)])
    if n == SELF_CACHE:
        raise Untranslatable("self.cache used other than as the receiver of get / set / clear / has")
    return tuple(unwrap(x) if isinstance(x, (tuple, list)) else x for x in n)


def walk_all(n):
    """every tuple of the AST, closures included"""
    if isinstance(n, list):
        for x in n:
            for y in walk_all(x):
                yield y
    elif isinstance(n, tuple):
        yield n
        for x in n:
            if isinstance(x, (tuple, list)):
                for y in walk_all(x):
                    yield y


def self_calls(f, funcs):
    """the methods of its own struct that f calls on `self`"""
    out = set()
    for n in walk_all(f.body):
        if is_node(n, "mcall") and n[1] == ("var", "self") and (f.owner, n[2]) in funcs:
            out.add((f.owner, n[2]))
    return out


def add_cache_arg(n, owner, touching):
    if isinstance(n, list):
        return [add_cache_arg(x, owner, touching) for x in n]
    if not isinstance(n, tuple):
        return n
    m = tuple(add_cache_arg(x, owner, touching) if isinstance(x, (tuple, list)) else x for x in n)
    if is_node(m, "mcall") and m[1] == ("var", "self") and (owner, m[2]) in touching:
        return ("mcall", m[1], m[2], [("var", CACHE)] + list(m[3]))
    return m


# ==================================================================== emitter
class CEmitter(B.Emitter):
    """part 11's emitter + the cache, the hasher and the call convention of the functions that reach the cache"""

    def call(self, e, env):
        callee, args = e[1], e[2]
        if callee[0] == "path" and callee[1] in ("DefaultHasher::new", "DefaultHasher::default") and not args:
            return "hasher", "rs_hasher_new", False
        return B.Emitter.call(self, e, env)

    def mcall(self, e, env):
        recv, name, args = e[1], e[2], e[3]
        if name in ("finish", "concat") and not args:
            rt, r, rp = self.pure(recv, env)
            if rt == "hasher" and name == "finish":
                self.fn.uses_hash = True
                term, partial = self.binds([(r, rp)], lambda xs: "(rs_hasher_finish hfin %s)" % xs[0])
                return "u64", term, partial
            if name == "concat" and isinstance(rt, tuple) and rt[0] == "vec":
                need(rt[1], "text", ".concat()")
                term, partial = self.binds([(r, rp)], lambda xs: "(rs_concat %s)" % xs[0])
                return "text", term, partial
        if name in NEW_BUILTIN_MUT:
            raise Untranslatable("%s on something that cannot be assigned" % name)
        return B.Emitter.mcall(self, e, env)

    def user_call(self, f, self_term, argterms):
        self.u.require(f)
        head = [f.coq]
        if getattr(f, "uses_hash", False):
            head.append("hfin")
            self.fn.uses_hash = True
        if f.uses_ord:
            head.append("ord")
            self.fn.uses_ord = True
        if f.uses_fuel:
            head.append("fuel")
            self.fn.uses_fuel = True
        if self_term is not None:
            head.append(self_term)
        return "(%s)" % " ".join(head + list(argterms))

    def builtin_mut(self, place, ent, name, xs, k):
        ty = place.ty if place is not None else None

        def argt(*tys):
            if len(xs) != len(tys):
                raise Untranslatable("%s with %d arguments" % (name, len(xs)))
            for (t, _), w in zip(xs, tys):
                need(t, w, "argument of " + name)
            return [a for _, a in xs]
        if ty == "mcache":
            cur = place.read()
            if name == "cache.clear":
                argt()
                return place.write("(gen_cache_clear nat bool Nat.eqb %s)" % cur, k("unit", "tt"))
            if name == "cache.set":
                key, v = argt("u64", "bool")
                return place.write("(gen_cache_set nat bool Nat.eqb %s %s %s)" % (cur, key, v), k("unit", "tt"))
            if name in ("cache.get", "cache.has"):
                (key,) = argt("u64")
                g, r = self.fresh("g"), self.fresh("r")
                rt = ("opt", "bool") if name == "cache.get" else "bool"
                return "(let '(%s, %s) := gen_cache_%s nat bool Nat.eqb %s %s in\n %s)" % (
                    g, r, name[6:], cur, key, place.write(g, k(rt, r)))
            raise Untranslatable("%s on the cache" % name)
        if ty == "hasher":
            if name == "hash.str":
                (x,) = argt("text")
                return place.write("(rs_hash_str %s %s)" % (place.read(), x), k("unit", "tt"))
            raise Untranslatable(".%s on a hasher" % name)
        if name in NEW_BUILTIN_MUT:
            raise Untranslatable("%s on a %s" % (name, B.tyname(ty) if ty is not None else "map entry"))
        return B.Emitter.builtin_mut(self, place, ent, name, xs, k)

    def struct(self, e, env):
        t, a, p = B.Emitter.struct(self, e, env)
        name = self.fn.owner if e[1] == "Self" else e[1]
        cfields = e[3] if len(e) > 3 else []
        if name == OWNER:
            if [f for f, _ in cfields] != ["cache"]:
                raise Untranslatable("a %s literal that does not initialise exactly the field `cache` under the attribute" % OWNER)
            init = cfields[0][1]
            if not (init[0] == "call" and init[1] == ("path", "DefaultCache::new") and len(init[2]) == 1):
                raise Untranslatable("the cache is not initialised by DefaultCache::new(cap)")
            ct, c, cp = self.pure(init[2][0], env)
            need(ct, "nat", "capacity of the cache")
            if cp or p:
                raise Untranslatable("a %s literal that can panic" % OWNER)
            if self.fn.ret != ("struct", OWNER) or self.fn.mode != "pure" or getattr(self.fn, "cache_init", None) is not None:
                raise Untranslatable("a %s literal outside a constructor" % OWNER)
            self.fn.cache_init = "(gen_cache_new nat bool sched %s)" % c
        elif cfields:
            raise Untranslatable("a field of %s under the attribute" % name)
        return t, a, p


def c_coq_ty(t, atom=False):
    if t == "mcache":
        return "(%s)" % MCACHE_COQ if atom else MCACHE_COQ
    if t == "hasher":
        return "hasher"
    if t == "u64":
        return "nat"
    return ORIG["coq_ty"](t, atom)


def translate_fn_c(unit, f):
    """part 11's translate_fn for a function that reaches the cache (or the constructor)"""
    em = CEmitter(unit, f)
    env = {}
    binders = []
    if f.self_kind is not None:
        ty = ("struct", f.owner)
        env["self"] = B.Var(ty, "self", f.self_kind == "mut",
                            B.Place("var", ty, coq="self", rust="self") if f.self_kind == "mut" else None, 0)
        binders.append("(self : %s)" % B.coq_ty(ty))
    for x, t, m in f.params:
        if x == CACHE:
            env[x] = B.Var(t, CACHE_COQ, True, B.Place("var", t, coq=CACHE_COQ, rust=x), 0)
            binders.append("(%s : %s)" % (CACHE_COQ, MCACHE_COQ))
            continue
        env[x] = B.Var(t, "v_" + x, m, B.Place("var", t, coq="v_" + x, rust=x) if m else None, 0)
        binders.append("(v_%s : %s)" % (x, B.coq_ty(t)))
    f.mode = "flow" if B.needs_flow(f) else "pure"
    f.cache_init = None
    if f.mode == "pure":
        t, a, p = em.pure_block(f.body, env)
        need(t, f.ret, "value of " + f.rust)
        f.partial = p
        if f.cache_init is None:
            raise Untranslatable("%s does not build the cache" % f.rust)
        rty = "%s * %s" % (B.coq_ty(f.ret, True), MCACHE_COQ)
        term = "(%s, %s)" % (a, f.cache_init)
    else:
        blk = f.body

        def end(en):
            if blk[2] is None:
                return em.ret_term(None, en)
            return em.ret_term(blk[2], en)
        outs = [B.coq_ty(t, True) for _, t in f.outs()]
        if outs and f.ret == "unit":
            inner = " * ".join(outs)
        else:
            inner = " * ".join(outs + [B.coq_ty(f.ret, True)])
        term = "rs_fn (R := %s) %s" % (inner, em.seq(blk[1], env, end))
        rty = "option (%s)" % inner if " " in inner else "option %s" % inner
    extra = []
    if f.cache_init is not None:
        extra.append("(sched : list (nat -> bool))")
    if getattr(f, "uses_hash", False):
        extra.append("(hfin : hasher -> nat)")
    if f.uses_ord:
        extra.append("(ord : list text -> list text)")
    if f.uses_fuel:
        extra.append("(fuel : nat)")
    f.text = "Definition %s %s : %s :=\n %s.\n" % (f.coq, " ".join(extra + binders), rty, term)


def expand_use(tree, prefix=""):
    """`a::{b::c, d as e}` -> [(name in scope, full path)]"""
    tree = tree.strip()
    m = re.match(r"^((?:\w+::)*)\{(.*)\}$", tree, re.S)
    if m:
        out = []
        for part in B.split_top(m.group(2)):
            if part.strip():
                out += expand_use(part, prefix + m.group(1))
        return out
    m = re.match(r"^((?:\w+::)*\w+)(?:\s+as\s+(\w+))?$", tree)
    if not m:
        raise Untranslatable("use " + tree)
    path = prefix + m.group(1)
    if path.endswith("::self"):
        path = path[:-len("::self")]
    return [(m.group(2) or path.split("::")[-1], path)]


# what the names used by the cache statements must stand for (Gen/RmCacheRt.v and part 18 restate exactly these)
IMPORTS = {"DefaultHasher": "std::collections::hash_map::DefaultHasher", "Hash": "std::hash::Hash",
           "Hasher": "std::hash::Hasher", "DefaultCache": "crate::cache::DefaultCache", "Cache": "crate::cache::Cache"}


class CUnit(B.Unit):
    def __init__(self, src):
        B.Unit.__init__(self, src)
        # the imports (under the attribute or not): DefaultHasher / Hash / DefaultCache are the std / crate ones
        scope = {}
        for m in re.finditer(r"(?m)^\s*(?:pub\s+)?use\s+([^;]+);", self.src):
            if B.depth_at(self.src, m.start()) != 0:
                continue
            for name, path in expand_use(re.sub(r"\s+", " ", m.group(1))):
                if name in IMPORTS and scope.get(name, path) != path:
                    raise Untranslatable("%s imported twice" % name)
                scope[name] = path
        for name, path in sorted(IMPORTS.items()):
            if scope.get(name) != path:
                raise Untranslatable("%s is %s, not %s" % (name, scope.get(name, "not imported"), path))
        # the field, read from the struct
        body = B.region_of(self.src, r"struct\s+%s\s*\{" % OWNER)
        under = []
        for part in B.split_top(body):
            part = part.strip()
            am = re.match(r"(#\[(?:[^\[\]]|\[[^\]]*\])*\])\s*(.*)$", part, re.S)
            if am:
                under.append(re.sub(r"\s+", "", am.group(2)))
        if under != ["cache:DefaultCache<u64,bool>"]:
            raise Untranslatable("the field under #[cfg(feature = \"cached\")] is not `cache: DefaultCache<u64, bool>`")
        self.ctor = self.funcs.get((OWNER, "new"))
        # feature ON for every function of the struct that can reach the cache
        cand = {}
        for key, f in self.funcs.items():
            try:
                cand[key] = unwrap(f.body)
            except Untranslatable as ex:
                cand[key] = ex
        direct = set()
        for key, body in cand.items():
            if isinstance(body, Untranslatable):
                direct.add(key)          # reported when (if) the function is translated
            elif any(n == ("var", CACHE) for n in walk_all(body)):
                direct.add(key)
        touching = set(direct) | {(OWNER, n) for n in ALWAYS if (OWNER, n) in self.funcs}
        changed = True
        while changed:
            changed = False
            for key, f in self.funcs.items():
                if key not in touching and self_calls(f, self.funcs) & touching:
                    touching.add(key)
                    changed = True
        for key in touching:
            if key[0] != OWNER:
                raise Untranslatable("%s reaches the cache but is not a method of %s" % (key[1], OWNER))
        self.touching = touching
        self.failed = {}
        for key in touching:
            f = self.funcs[key]
            if isinstance(cand[key], Untranslatable):
                self.failed[key] = cand[key]
                continue
            f.body = add_cache_arg(cand[key], f.owner, touching)
            f.params = [(CACHE, "mcache", True)] + list(f.params)
            f.coq = "gen_c_" + f.coq[len("gen_"):]
        if self.ctor is not None:
            self.ctor.coq = "gen_c_new"

    def is_c(self, f):
        return (f.owner, f.rust) in self.touching or f is self.ctor

    def require(self, f):
        if f.done:
            return
        if f in self.stack:
            raise Untranslatable("recursion through " + f.rust)
        if (f.owner, f.rust) in self.failed:
            raise self.failed[(f.owner, f.rust)]
        self.stack.append(f)
        try:
            if self.is_c(f):
                translate_fn_c(self, f)
            else:
                B.translate_fn(self, f)
        finally:
            self.stack.pop()
        f.done = True
        self.order.append(f)


ORIG = {}


class patched:
    """part 11's module with the parser / types of the cached translation, restored afterwards"""

    def __enter__(self):
        ORIG.update(RP=B.RP, BUILTIN_MUT=B.BUILTIN_MUT, coq_ty=B.coq_ty, STRUCTS=dict(B.STRUCTS))
        B.RP = CRP
        B.BUILTIN_MUT = tuple(B.BUILTIN_MUT) + NEW_BUILTIN_MUT
        B.coq_ty = c_coq_ty

    def __exit__(self, *a):
        B.RP, B.BUILTIN_MUT, B.coq_ty = ORIG["RP"], ORIG["BUILTIN_MUT"], ORIG["coq_ty"]
        B.STRUCTS.clear()
        B.STRUCTS.update(ORIG["STRUCTS"])
        return False


# the functions the obligations of PinChecks/PcRmCacheGen.v are about
COVERED = [(OWNER, "new"), (OWNER, "get_or_create_role"), (OWNER, "clear"), (OWNER, "add_link"), (OWNER, "matching_fn"),
           (OWNER, "delete_link"), (OWNER, "has_link")]


def clean(ex):
    return str(ex).replace("*)", "* )").replace("(*", "( *")


def generate():
    out = ["(* GENERATED on every run by tools/rs2coq.py (tools/rs2coq_rmcache.py) from /repo/src/rbac/default_role_manager.rs",
           "   - do not edit.  DefaultRoleManager with `feature = \"cached\"` ON: the functions that reach the has_link cache,",
           "   with the statements under #[cfg(feature = \"cached\")] translated.  `cache` (a DefaultCache<u64, bool>, all of",
           "   whose methods take &self) is a separate state component: gen_cache_* of Gen/Model2Gen.v over Gen/MokaRt.v;",
           "   the key is built by rs_hasher_new / rs_hash_str / rs_hasher_finish (Gen/RmCacheRt.v), `hfin` = the digest.",
           "   rm_state and every function that does not reach the cache are those of Gen/RoleManagerGen.v. *)",
           "From CV Require Import Model.Base Model.RoleGraph Model.RoleGraphM Gen.RustStr Gen.RustVec Gen.RustIter Gen.Petgraph.",
           "From CV Require Import Gen.MokaRt Gen.Model2Gen Gen.RoleManagerGen Gen.RmCacheRt.", ""]
    ok = True
    src = pins.read(B.RM_FILE)
    with patched():
        unit = None
        try:
            if not src:
                raise Untranslatable(B.RM_FILE + " not found")
            unit = CUnit(src)
        except RecursionError:
            raise
        except Exception as ex:   # noqa
            ok = False
            out.append("(* translation failed: %s *)" % clean(ex))
            unit = None
        if unit is not None:
            missing = [k for k in COVERED if k not in unit.funcs]
            if missing:
                ok = False
                out.append("(* functions not found: %s *)" % ", ".join(n for _, n in missing))
            todo = [k for k in COVERED if k in unit.funcs] + sorted(k for k in unit.touching if k not in COVERED)
            for key in todo:
                f = unit.funcs[key]
                try:
                    unit.require(f)
                except RecursionError:
                    raise
                except Exception as ex:   # noqa
                    ok = False
                    out.append("(* translation of %s failed: %s *)\n" % (f.rust, clean(ex)))
            for f in unit.order:
                if unit.is_c(f):
                    out.append(f.text)
            reached = sorted(n for _, n in unit.touching)
            out.append("(* the functions that reach the cache: %s; every other function is the one of Gen/RoleManagerGen.v *)"
                       % ", ".join(reached))
    out.append("Definition gen_rmcache_translated : bool := %s." % ("true" if ok else "false"))
    return "\n".join(out) + "\n", ok


def main(dst_dir=None):
    import rs2coq
    dst_dir = dst_dir or "/verif/coq/Gen"
    txt, ok = generate()
    rs2coq.write_if_changed(os.path.join(dst_dir, "RmCacheGen.v"), txt, ok)


if __name__ == "__main__":
    if len(sys.argv) > 1 and sys.argv[1] == "-":
        sys.stdout.write(generate()[0])
    else:
        main(sys.argv[1] if len(sys.argv) > 1 else None)
