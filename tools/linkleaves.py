#!/usr/bin/env python3
"""Generate coq/Proofs/LinkLeavesP.v: the machine-checked table of trusted leaves."""
import re, sys, os
GEN = os.path.join(os.path.dirname(os.path.abspath(__file__)), '..', 'coq', 'Gen')
# file -> (default class, {name: class overrides}, excluded names (crate functions: item 1, or pure glue))
HASHLINK = 'hashlink'; STD = 'std'; PET = 'petgraph'; RX = 'regex'; RHAI = 'rhai'; MOKA = 'mini-moka'
TFS = 'tokio-fs'; PL = 'parking_lot'; HARN = 'harness'; STRUCT = 'struct'
FILES = [
 ('RustStr', STD, {}, []),
 ('RustVec', STD, {'rs_oset_remove': HASHLINK, 'rs_set_new': HASHLINK, 'rs_set_insert': HASHLINK, 'rs_set_to_vec': HASHLINK}, []),
 ('RustIter', STD, {}, []),
 ('RustEnf', STD, {'sc_new': RHAI, 'sc_push': RHAI, 'sc_len': RHAI, 'sc_rewind': RHAI}, []),
 ('Petgraph', PET, {n: STD for n in ['dq_new','dq_push_front','dq_push_back','dq_pop_front','hm_new','hm_get','hm_contains_key','hm_insert','hm_entry_or','hm_keys']}, []),
 ('AdaptersPrims', STD, {'rs_oset_contains': HASHLINK, 'rs_oset_insert': HASHLINK, 'rs_oset_insert_new': HASHLINK, 'rs_oset_remove_was': HASHLINK,
                         'rs_astmap_get': HASHLINK, 'rs_map_put': HASHLINK, 'rs_model_put': HASHLINK, 'rs_ast_policy': STRUCT, 'rs_ast_set_policy': STRUCT},
  ['rs_parse_csv_line']),
 ('LinksPrims', STD, {'rs_oset_contains': HASHLINK, 'rs_oset_insert': HASHLINK, 'rs_oset_clear': HASHLINK, 'rs_values_mut': HASHLINK, 'rs_value_set': HASHLINK,
                      'rs_ast_borrow': HASHLINK, 'rs_ast_write_back': HASHLINK, 'rs_ast_set_rm': STRUCT, 'rs_ast_set_policy': STRUCT},
  ['rs_rm_add_link', 'rs_rm_delete_link']),
 ('FsRt', TFS, {n: STD for n in ['rs_box_new_adapter','rs_ok_or_else','rs_map_err','rs_fmt','rs_writeln','rs_join','rs_os_push','io_result','rs_strip_cr','rs_lines_from','rs_buf_lines','rs_while_some']}, []),
 ('Model2Rt', STD, {'rs_amap_get': HASHLINK, 'rs_amap_get_mut': HASHLINK, 'rs_amap_set': HASHLINK, 'errc_of_variant': HARN}, []),
 ('MokaRt', MOKA, {}, []),
 ('IniRt', STD, {'lhm_new': HASHLINK, 'lhm_insert': HASHLINK, 'lhm_get': HASHLINK, 'lhm_values': HASHLINK, 'lhm_iter': HASHLINK,
                 'rs_regex_token_dot': RX, 'rs_cursor_new': STD, 'rs_bufreader_new': TFS, 'rs_read_line': TFS, 'rs_take_line': TFS}, ['rs_escape_assertion']),
 ('Regex', RX, {}, []),
 ('RegexRt', STD, {'rx_as_str': RX}, []),
 ('RegexSyntax', RX, {}, []),
 ('FmapRt', RX, {n: STD for n in ['fres_opt','f_bind','rs_iter_zip','rs_iter_skip','rs_vec_len','hm_new','hm_get','hm_insert']}, []),
 ('QueryRt', STD, {'amap_get': HASHLINK, 'cur_role_manager': STRUCT}, ['mdl_get_policy','mdl_get_filtered_policy','mdl_has_policy','mdl_values_for_field','rm_get_roles','rm_get_users','enf_enforce']),
 ('CachedRt', STD, {'cg_no_ctx': STRUCT}, ['cg_clear','cg_get','cg_set','cg_call','cg_inner_enforce','cg_inner_enforce_ctx']),
 ('Enforcer2Rt', STD, {n: RHAI for n in ['eng_new_raw','eng_register_fn','casbin_package','eng_register_global_module','eng_find','run_efn','eng_call']} | {'watcher_update': HARN} | {n: STRUCT for n in ['rset_events','rset_engine','rset_watcher','rset_fm','rset_links','default_effector','ufun_arity','builtin_arity','opfun_arity']},
  ['fm_default','fm_get_functions','eng_register_function','rm_new','x_core_call',
   # the abstraction function of part 15 and what is defined from it: proof-side definitions, not operations
   'eng_links','fm_users','abs_fs','abs','with_rm','eng_coherent','absorb']),
 ('LocksRt', PL, {}, []),
 ('ApiRt', STD, {}, ['removed_rules','int_remove_filtered']),
 ('EnforcerPrims', STRUCT, {}, ['rm_clear','model_build_role_links','off_policy_change','on_policy_change','add_user_function','filter_arg','new_rm','effector_arg']),
 ('InternalPrims', STD, {}, ['emit_clear_cache','build_incremental_role_links']),
]
# names that are types / data encodings, not operations: left out of the table
def is_type_def(kind, name, body):
    return kind in ('Inductive', 'Record')

def clean(s):
    s = re.sub(r'\s+', ' ', s).strip()
    s = s.replace('"', "'")
    s = ''.join(ch if 32 <= ord(ch) < 127 else '?' for ch in s)
    return s

def parse(fname):
    src = open(os.path.join(GEN, fname + '.v')).read()
    out = []
    # positions of comments
    comments = [(m.start(), m.end(), m.group(0)) for m in re.finditer(r'\(\*.*?\*\)', src, re.S)]
    for m in re.finditer(r'^[ \t]*(Definition|Fixpoint|Inductive|Record)\s+([A-Za-z_0-9\']+)', src, re.M):
        kind, name = m.group(1), m.group(2)
        # is this inside a comment?
        if any(a <= m.start() < b for a, b, _ in comments):
            continue
        # the closest comment ending before the definition, with only white space / other definitions of the same group in between (<= 400 chars)
        desc = ''
        prev = [c for c in comments if c[1] <= m.start()]
        if prev:
            a, b, txt = prev[-1]
            between = src[b:m.start()]
            if len(between) < 600:
                desc = txt[2:-2]
        # a comment on the same line, after the end of the statement, wins (Regex.v, LocksRt.v style)
        stmt_end = re.search(r'\.[ \t]*(\(\*.*?\*\))?[ \t]*\n', src[m.start():], re.S)
        if stmt_end and stmt_end.group(1) and '\n' not in src[m.start():m.start()+stmt_end.start()]:
            desc = stmt_end.group(1)[2:-2]
        desc = clean(desc)
        desc = re.sub(r'^-+\s*', '', desc)
        if re.match(r'^(Gallina counterparts|TRUSTED restatement|HAND-WRITTEN|Run-time vocabulary|Hand-written)', desc):
            desc = ''
        if (fname + '.' + name) in DESC: desc = DESC[fname + '.' + name]
        # first clause
        if len(desc) > 110:
            cut = desc[:110]
            desc = cut[:cut.rfind(' ')] + ' ..'
        out.append((kind, name, desc))
    return out

TYPE_ALIASES = {'scope','node_index','edge_index','hashmap','uchar','reader','astborrow','lhm','fmap','engine','rmval','watcher','events','evdata','caps','mres','cont'}
DESC = {
 'RustEnf.sc_new': 'rhai Scope::new()', 'RustEnf.sc_push': 'scope.push_constant / push_constant_dynamic(name, value)',
 'RustEnf.sc_len': 'scope.len()', 'RustEnf.sc_rewind': 'scope.rewind(n): truncate to the first n entries pushed',
 'RustEnf.rs_zip': 'a.iter().zip(b.iter()): stops at the shorter one', 'RustEnf.rs_position': 'v.iter().position(|x| p x)',
 'RustEnf.rs_result': 'the value of a function body: return r / the trailing expression; a panic',
 'RustIter.rs_iter_filter': 'it.filter(p), total closure', 'RustIter.rs_iter_map': 'it.map(f), total closure',
 'RustIter.rs_iter_filter_opt': 'it.filter(p) with a closure that can panic', 'RustIter.rs_iter_map_opt': 'it.map(f) with a closure that can panic',
 'RustIter.rs_iter_filter_map_opt': 'it.filter_map(f) with a closure that can panic', 'RustIter.rs_iter_flat_map_opt': 'it.flat_map(f) with a closure that can panic',
 'RustIter.rs_is_ok': 'r.is_ok()', 'RustIter.hs_new': 'HashSet::new()', 'RustIter.hs_insert': 's.insert(x) on a HashSet<String> (the set afterwards)',
 'Petgraph.dq_new': 'VecDeque::new()', 'Petgraph.dq_push_front': 'q.push_front(x)', 'Petgraph.dq_push_back': 'q.push_back(x)',
 'Petgraph.hm_new': 'HashMap::new()', 'Petgraph.pg_set_nth_kind': '(internal of update_edge) the weight of the edge at a position is replaced',
 'Petgraph.pg_remove_nth': '(internal of remove_edge) the edge at a position is unlinked, the others keep their order',
 'MokaRt.rs_moka_new': 'mini_moka::sync::Cache::new(max_capacity)', 'MokaRt.moka_tick': '(internal) the next eviction decision of the schedule is applied',
 'MokaRt.moka_lookup': '(internal) the value currently held for a key', 'MokaRt.rs_moka_get': 'cache.get(&k)',
 'MokaRt.rs_moka_contains_key': 'cache.contains_key(&k)', 'MokaRt.rs_moka_insert': 'cache.insert(k, v)', 'MokaRt.rs_moka_invalidate_all': 'cache.invalidate_all()',
 'IniRt.byte': 'a byte given by its number', 'IniRt.rs_drop_while': '(internal of trim_*_matches) drop the leading items that satisfy p',
 'IniRt.rs_vec_len': 'v.len()', 'IniRt.rs_cursor_new': 'std::io::Cursor::new(bytes)', 'IniRt.rs_bufreader_new': 'tokio::io::BufReader::new(cursor)',
 'IniRt.lhm_new': 'LinkedHashMap::new()', 'IniRt.lhm_insert': 'hashlink LinkedHashMap::insert(k, v): an existing key keeps its value slot, moved to the back',
 'IniRt.lhm_get': 'LinkedHashMap::get(k)',
 'Regex.byte_in': 'byte in a closed range', 'RegexSyntax.is_ascii': 'byte < 128', 'RegexSyntax.is_alnum': 'ASCII letter or digit',
 'RegexSyntax.rx_parse': 'regex-syntax parser: text -> AST (None = refused or outside the restated syntax)',
 'RegexSyntax.set_cat': '(parser) concatenation inside a group', 'RegexSyntax.rx_max_depth': 'nest_limit of the parser',
 'RegexSyntax.rx_run': '(parser) the token loop', 'Regex.opt_nat_eqb': 'equality on Option<usize>', 'Regex.rx_find_iter': 'Regex::find_iter(h) / captures_iter(h)',
 'Regex.mt': 'the backtracking matcher in continuation-passing style (leftmost-first semantics of the crate)', 'Regex.word_at': 'is the byte at a position a word byte',
 'CachedRt.cfield_eqb': 'equality of the four field tags of an EnforceContext', 'CachedRt.hp_ctx': 'DefaultHasher: the context key string that was fed',
 'CachedRt.hp_field': 'DefaultHasher: one context name that was fed', 'CachedRt.hp_rv': 'DefaultHasher: the request values that were fed',
 'CachedRt.cg_hash': 'DefaultHasher::new(); x.hash(&mut h)*; h.finish(): represented by WHAT WAS HASHED (SipHash assumed injective on the keys in play)',
 'Enforcer2Rt.rm_handle_cur': 'Arc::clone(&self.rm)', 'Enforcer2Rt.default_effector': 'DefaultEffector (a unit struct)', 'Enforcer2Rt.evkind_eqb': '#[derive(PartialEq, Eq, Hash)] on enum Event',
 'Enforcer2Rt.ufun_arity': 'the N of OperatorFunction::ArgN for a function the harness adds', 'Enforcer2Rt.builtin_arity': 'the N of OperatorFunction::ArgN for an entry of FunctionMap::default()', 'Enforcer2Rt.opfun_arity': 'the N of OperatorFunction::ArgN',
 'Enforcer2Rt.rset_events': 'assignment to the field events', 'Enforcer2Rt.rset_engine': 'assignment to the field engine', 'Enforcer2Rt.rset_watcher': 'assignment to the field watcher', 'Enforcer2Rt.rset_fm': 'assignment to the field fm', 'Enforcer2Rt.rset_links': 'the model store and the manager after a call that writes through &mut *self.model / self.rm.write()',
 'QueryRt.cur_role_manager': 'CoreApi::get_role_manager: Arc::clone(&self.rm)', 'CachedRt.cg_no_ctx': 'an EnforceContext with four empty names',
 'Enforcer2Rt.eng_find': 'rhai: the newest registration of (name, arity)', 'Enforcer2Rt.run_efn': 'rhai: running a registered function / closure on string arguments',
 'Enforcer2Rt.eng_call': 'rhai: a call f(args) from a matcher through the registrations of the engine',
 'Enforcer2Rt.casbin_package': 'rhai CASBIN_PACKAGE (arithmetic / logic / array / map packages)',
 'LocksRt.lk_try': 'e?  (the error arm returns from the function)', 'LocksRt.lk_tmp': 'X.read().f(..) / X.write().f(..) as a whole statement (temporary guard)',
 'LocksRt.lk_seq': 'statements in sequence', 'LocksRt.lk_alt': 'match arms',
 'ApiRt.bind': 'e.await? : on Ok continue in the new state, Err / panic stop', 'ApiRt.on_result': 'match e.await { Ok(x) => .., Err(y) => .. }',
 'FsRt.io_result': 'io::Result<T> of a call that reported success or failure',
}
rows = []   # (file, name, desc, class)
per_file = {}
for fname, dflt, over, excl in FILES:
    defs = parse(fname)
    lst = []
    for kind, name, desc in defs:
        if name in excl: continue
        if kind in ('Inductive', 'Record'): continue
        if name in TYPE_ALIASES: continue
        cls = over.get(name, dflt)
        if not desc: desc = name
        lst.append((name, desc, cls))
    per_file[fname] = lst

CLASSES = [STD, PET, HASHLINK, RX, RHAI, MOKA, TFS, PL, 'serde', HARN, STRUCT]
cname = {STD: 'LStd', PET: 'LPetgraph', HASHLINK: 'LHashlink', RX: 'LRegex', RHAI: 'LRhai', MOKA: 'LMiniMoka', TFS: 'LTokioFs', PL: 'LParkingLot', 'serde': 'LSerde', HARN: 'LHarness', STRUCT: 'LStruct'}

o = []
w = o.append
w('(* GENERATED by tools/linkleaves.py (part 21) from the hand-written run-time files Gen/*Rt.v, Gen/*Prims.v, Gen/Rust*.v,')
w('   Gen/Petgraph.v, Gen/Regex*.v and reviewed by hand - the TRUSTED LEAVES of the translation chain: every definition')
w('   of these files that restates an operation of std or of a third-party crate (or, classes LHarness / LStruct, of the')
w('   test harness / a field access of a crate struct), and that is therefore NOT tied to the source by a translation')
w('   theorem.  The definitions that stand for functions OF THE CRATE are not here: Proofs/LinkingP.v (item 1) links')
w('   each of them to the generated function of the lower layer.')
w('   A row carries the Gallina constant itself (lf_def): a definition that is renamed or removed breaks this file,')
w('   so the table cannot silently go stale; the counts per file and per class are checked by computation. *)')
w('From CV Require Import Model.Base Model.Expr Model.Enforce Model.Engine Model.FileSave Model.Locks.')
w('From CV Require Gen.RustStr Gen.RustVec Gen.RustIter Gen.RustEnf Gen.Petgraph Gen.AdaptersPrims Gen.LinksPrims Gen.FsRt.')
w('From CV Require Gen.Model2Rt Gen.MokaRt Gen.IniRt Gen.Regex Gen.RegexRt Gen.RegexSyntax Gen.FmapRt Gen.QueryRt Gen.CachedRt.')
w('From CV Require Gen.Enforcer2Rt Gen.LocksRt Gen.ApiRt Gen.EnforcerPrims Gen.InternalPrims Gen.Model2Gen.')
w('')
w('Inductive lclass := LStd | LPetgraph | LHashlink | LRegex | LRhai | LMiniMoka | LTokioFs | LParkingLot | LSerde | LHarness | LStruct.')
w('Definition lclass_eqb (a b : lclass) : bool :=')
w('  match a, b with')
w('  | LStd, LStd | LPetgraph, LPetgraph | LHashlink, LHashlink | LRegex, LRegex | LRhai, LRhai | LMiniMoka, LMiniMoka')
w('  | LTokioFs, LTokioFs | LParkingLot, LParkingLot | LSerde, LSerde | LHarness, LHarness | LStruct, LStruct => true')
w('  | _, _ => false')
w('  end.')
w('Definition lclass_name (c : lclass) : text :=')
w('  match c with')
w('  | LStd => T "std" | LPetgraph => T "petgraph" | LHashlink => T "hashlink" | LRegex => T "regex" | LRhai => T "rhai"')
w('  | LMiniMoka => T "mini-moka" | LTokioFs => T "tokio-fs" | LParkingLot => T "parking_lot" | LSerde => T "serde"')
w('  | LHarness => T "harness" | LStruct => T "struct"')
w('  end.')
w('')
w('(* the Gallina constant of a row, at whatever type it has *)')
w('Inductive witness : Type := Wit (A : Type) (a : A).')
w('Arguments Wit {A} a.')
w('Record leaf := mk_leaf { lf_name : text; lf_op : text; lf_class : lclass; lf_def : witness }.')
w('Definition L (name op : string) (c : lclass) {A : Type} (a : A) : leaf :=')
w('  {| lf_name := T name; lf_op := T op; lf_class := c; lf_def := Wit a |}.')
w('')
for fname, dflt, over, excl in FILES:
    lst = per_file[fname]
    w('(* ---- Gen/%s.v ---- *)' % fname)
    w('Definition leaves_%s : list leaf := [' % fname)
    for i, (name, desc, cls) in enumerate(lst):
        sep = ';' if i + 1 < len(lst) else ''
        w('  L "%s.%s" "%s" %s (@%s.%s)%s' % (fname, name, desc, cname[cls], fname, name, sep))
    w('].')
    w('Example leaves_%s_exist : length leaves_%s = %d.' % (fname, fname, len(lst)))
    w('Proof. reflexivity. Qed.')
    w('')

manual = [
 ('Expr.eval', "rhai: Engine::compile_expression + eval_ast_with_scope on the matcher fragment (Model/Expr.v restates the measured behaviour of the pinned rhai)", RHAI, '@Expr.eval'),
 ('Enforce.call_fn', "rhai: which registered function a call runs - an added function, else a role closure of that name and arity, else the default function", RHAI, '@Enforce.call_fn'),
 ('Enforce.all_strs', "rhai: every registered function takes ImmutableString parameters", RHAI, '@Enforce.all_strs'),
 ('Enforce.run_ufun', "the four user functions the test harness registers with add_function", HARN, '@Enforce.run_ufun'),
 ('Engine.scripted', "the fault-injecting Adapter of the test harness (a user's Adapter): one scripted response per call", HARN, '@Engine.scripted'),
 ('Engine.scripted_unit', "the fault-injecting Adapter of the test harness, unit-valued calls", HARN, '@Engine.scripted_unit'),
 ('FileSave.apply_fop', "the file system: create / append / rename / remove of the OS through tokio::fs", TFS, '@FileSave.apply_fop'),
 ('FileSave.run_cut', "a process killed in the middle of a sequence of file-system calls", TFS, '@FileSave.run_cut'),
 ('Locks.step_thread', "parking_lot::RwLock: acquire / release of a fair read-write lock by one thread", PL, '@Locks.step_thread'),
 ('Locks.can_read', "parking_lot::RwLock::read is granted: no writer holds the lock and none is queued (fair policy)", PL, '@Locks.can_read'),
 ('Model2Gen.gen_tuple1_try_into_vec [parameter cv_to_dynamic]', "rhai::serde::to_dynamic(&x), x: serde::Serialize - a PARAMETER of the translated conversions of src/convert.rs (no Gallina definition)", 'serde', '@Model2Gen.gen_tuple1_try_into_vec'),
 ('Model2Gen.gen_vec_try_into_vec [parameter cv_into]', "Into<rhai::Dynamic>::into - a PARAMETER of the translated conversions of src/convert.rs (no Gallina definition)", RHAI, '@Model2Gen.gen_vec_try_into_vec'),
 ('Locks.can_write', "parking_lot::RwLock::write is granted: no writer and no reader holds the lock", PL, '@Locks.can_write'),
]
w('(* ---- restatements that live in Model/*.v ---- *)')
w('Definition leaves_Model : list leaf := [')
for i, (name, desc, cls, ref) in enumerate(manual):
    sep = ';' if i + 1 < len(manual) else ''
    w('  L "%s" "%s" %s (%s)%s' % (name, desc, cname[cls], ref, sep))
w('].')
w('Example leaves_Model_exist : length leaves_Model = %d.' % len(manual))
w('Proof. reflexivity. Qed.')
w('')
per_file['Model'] = [(n, d, c) for (n, d, c, r) in manual]
names = [f for f, _, _, _ in FILES] + ['Model']
w('Definition all_leaves : list leaf :=')
w('  ' + ' ++ '.join('leaves_%s' % f for f in names) + '.')
w('')
w('(* (Gallina name, Rust / third-party operation) *)')
w('Definition trusted_leaves : list (text * text) := map (fun l => (lf_name l, lf_op l)) all_leaves.')
w('Definition leaves_of_class (c : lclass) : list leaf := filter (fun l => lclass_eqb (lf_class l) c) all_leaves.')
w('Definition all_classes : list lclass :=')
w('  [LStd; LPetgraph; LHashlink; LRegex; LRhai; LMiniMoka; LTokioFs; LParkingLot; LSerde; LHarness; LStruct].')
from collections import Counter
cnt = Counter(cls for v in per_file.values() for (_, _, cls) in v)
order = [STD, PET, HASHLINK, RX, RHAI, MOKA, TFS, PL, 'serde', HARN, STRUCT]
tot = sum(cnt.values())
w('')
w('(* the counts, by class (std / petgraph / hashlink / regex / rhai / mini-moka / tokio-fs / parking_lot / serde /')
w('   harness / struct) and in all.  serde: rhai::serde::to_dynamic is a parameter of the translated conversions. *)')
w('Example leaves_count_by_class :')
w('  map (fun c => length (leaves_of_class c)) all_classes = [%s].' % '; '.join(str(cnt.get(c, 0)) for c in order))
w('Proof. vm_compute. reflexivity. Qed.')
w('Example leaves_count : length trusted_leaves = %d.' % tot)
w('Proof. vm_compute. reflexivity. Qed.')
w('(* every row names its class among the eleven *)')
w('Example leaves_partition : length all_leaves = fold_right plus 0 (map (fun c => length (leaves_of_class c)) all_classes).')
w('Proof. vm_compute. reflexivity. Qed.')
open(os.path.join(GEN, '..', 'Proofs', 'LinkLeavesP.v'), 'w').write('\n'.join(o) + '\n')
tot = sum(len(v) for v in per_file.values())
print('rows', tot)
from collections import Counter
c = Counter(cls for v in per_file.values() for (_, _, cls) in v)
print(c)
for f, v in per_file.items(): print(f, len(v))
