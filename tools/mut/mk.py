#!/usr/bin/env python3
# mk.py <PID> <tag>  -> creates worktree /tmp/mut/<PID><tag>, writes prompt file, prints path
import json, sys, os, subprocess
pid, tag = sys.argv[1], sys.argv[2]
avoid = {
 "C01": "empty-policy path pushing Deny instead of Indeterminate; set_role_manager skipping g-function registration",
 "C02": "allow-and-deny ignoring a deny seen before any allow; a cap == 1 fast path that denies on a lone Indeterminate under deny-override",
 "C03": "duplicate-link check in add_link using find_edge(role1, role1); matched_domains treating the empty domain name as the default domain",
 "C04": "remove_filtered_policy breaking at an empty filter value",
 "C05": "remove_filtered_policy_internal passing (sec, sec, rules) to the incremental link update; build_incremental_role_links guard comparing only the first two fields; filtered removal rebuilding all links",
 "C06": "key_match5 using a char index as byte offset for '?'; per-rule arity check accepting over-long rules",
 "C07": "remove_filtered_policy breaking at an empty filter value; filtered grouping removal rebuilding all role links",
 "C08": "empty-policy branch returning the raw matcher result instead of the effect stream's verdict; add_link using update_edge (overwriting a Match edge)",
 "C09": "MemoryAdapter::remove_filtered_policy using || between section and ptype; parse_csv_line trimming inside quotes",
 "C10": "DefaultModel::clear_policy also clearing the role manager; load_policy restoring by re-adding rules (merging partially delivered ones); load_policy skipping the backup when there are no p rules",
 "C11": "CachedEnforcer::set_model clearing the cache only after a successful inner call",
 "C12": "FileAdapter::load_filtered_policy resetting is_filtered before reading; MemoryAdapter applying the grouping filter only to the type literally named g",
 "C13": "delete_role folding its two removals with a short-circuit ||",
 "C14": "RemovePolicies event carrying the section name instead of the policy type; CachedEnforcer::enable_auto_notify_watcher dropping its callback on re-enable",
 "C15": "key_match5 using a char index as byte offset for '?'; key_get2 using named capture groups",
 "C16": "parse_csv_line trimming inside quoted columns",
 "C17": "context loop mapping an unknown effect value to Allow; context loop returning the raw matcher result on the empty-policy path",
 "C18": "set_role_manager registering the g-functions before swapping the role manager; set_model registering only role functions whose name the old model lacked",
 "C19": "remove_policy_internal passing (sec, sec, rule) to the incremental role-link update",
 "C20": "enforce holding the role-manager read lock across the whole evaluation (nested read vs queued writer)",
}
extra = sys.argv[3] if len(sys.argv) > 3 else ""
props = {json.loads(l)["id"]: json.loads(l) for l in open("/verif/properties.jsonl") if l.strip()}
wt = "/tmp/mut/%s%s" % (pid, tag)
if not os.path.exists(wt):
    subprocess.check_call(["git", "-C", "/repo", "worktree", "add", "--detach", wt, "HEAD"], stdout=subprocess.DEVNULL, stderr=subprocess.DEVNULL)
t = open("/tmp/mut/prompt_common.txt").read()
auto = json.load(open("/tmp/mut/avoid_auto.json")).get(pid, [])
a = avoid[pid] + " ; " + " ; ".join(auto) + ((" ; " + extra) if extra else "")
t = t.replace("WORKTREE", wt).replace("PID", pid).replace("PROPTEXT", props[pid]["title"] + ". " + props[pid]["statement"]).replace("AVOIDLIST", a)
open(wt + ".prompt.txt", "w").write(t)
print(wt + ".prompt.txt")
