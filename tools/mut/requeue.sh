#!/bin/sh
cd /verif
for item in "$@"; do
  name=$(echo $item | cut -d: -f1); prop=$(echo $item | cut -d: -f2); checks=$(echo $item | cut -d: -f3)
  tools/seedtest $name $prop - --checks $checks --copy > /tmp/mut/$name.recheck.log 2>&1
  echo "$name rechecked" >> /tmp/mut/queue.log
done
