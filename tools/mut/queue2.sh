#!/bin/sh
# usage: queue2.sh name:prop:wt:checks ...   (checks run against a private copy of /repo: seedtest --copy)
cd /verif
for item in "$@"; do
  name=$(echo $item | cut -d: -f1); prop=$(echo $item | cut -d: -f2); wt=$(echo $item | cut -d: -f3); checks=$(echo $item | cut -d: -f4)
  tools/seedtest $name $prop $wt --checks $checks --copy > /tmp/mut/$name.seedtest.log 2>&1
  echo "$name done" >> /tmp/mut/queue.log
done
