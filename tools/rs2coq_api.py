#!/usr/bin/env python3
"""rs2coq, part 5: the mutating helpers of the RBAC API (src/rbac_api.rs) and the
management API (src/management_api.rs) -> coq/Gen/ApiGen.v.

Every target is re-read from the source on every run, parsed into a small
expression language and emitted as a Gallina function

    gen_<name> (s : estate) (args ..) : estate * outcome bool

over the vocabulary of coq/Gen/ApiRt.v (bind = `.await?`, on_result = a match
on a Result) and the model's five internal entry points (step_add,
step_add_many, step_remove, step_remove_many, and step_remove_filtered through
int_remove_filtered, which gives back the pair the Rust function returns).
coq/PinChecks/PcApiGen.v then proves, for all states and arguments, that every
generated management function equals `step s (<op>)` and every generated RBAC
helper equals `step_rbac s (<constructor> ..)`.

What comes from the SOURCE (and is therefore checked by those proofs): which
method every helper delegates to, the section literal ("p" / "g") and the
default policy type of the un-named forms, the order of the arguments, the
shape of the vectors that are built (element order, the "" wildcard, the field
index), the sequencing of two awaited calls (`?`: the second call runs in the
state left by the first; an Err / panic of the first stops), short-circuit
`||` / `&&` between awaited calls, and which component of the filtered
removal's pair is returned.

Method resolution: `self.m(..)` is looked up in the blanket impl of RbacApi,
then the trait's default methods, then the blanket impl of MgmtApi, then its
default methods, then the internal entry points.  Callees are translated on
demand (and emitted before their callers).

Supported subset (anything else: the function is emitted as a stub, the reason
in a comment, and `gen_api_translated := false`, which breaks PcApiGen.v):
  signatures   [mut] x: &str | String | Vec<String> | Vec<Vec<String>> | Option<&str> | usize | bool
               -> Result<bool>
  statements   let [mut] x [: T] = e;   let (a, b) = e;   x.insert(0, e);   x.push(e);
               return e;   e;  (an awaited call whose value is dropped)   final expression
  expressions  variables, "literals", integers, true/false, &e, *e, (e), !e, e == e2, e != e2,
               e || e2, e && e2 (short-circuit, also across awaited calls),
               .to_string() .to_owned() .into() .clone() .as_str() String::from(e)   (identity on text)
               vec![e, ..]   [e, ..]   .iter() .into_iter() .cloned() .collect() .to_vec()  (identity on lists)
               .map(|[mut] x| e)  with a pure closure body (an expression or a block)
               if c {..} else {..}   if let Some(x) = e {..} else {..}   match e { Some(x) => .., None => .. }
               self.m(args).await   e?   Ok(e)   Err(x)   e.0   e.1
               match r.await { Ok(x) => .., Err(y) => .. }   if let Ok(x) = r.await {..} else {..}
A mutation (`insert` / `push`) is accepted only on a `mut` variable of the same
block (so that no update is lost when a nested block ends).
"""
import os
import re
import sys

sys.path.insert(0, os.path.dirname(os.path.abspath(__file__)))
import pins  # noqa: E402


class Untranslatable(Exception):
    pass


# ------------------------------------------------------------------ types
TEXT, BOOL, NAT, ERR, ANY = "text", "bool", "nat", "err", "any"
RULE = ("list", TEXT)
RULES = ("list", RULE)
OPTT = ("opt", TEXT)


def unify(a, b):
    if a == ANY:
        return b
    if b == ANY:
        return a
    if isinstance(a, tuple) and isinstance(b, tuple) and a[0] == b[0] and len(a) == len(b):
        parts = [unify(x, y) for x, y in zip(a[1:], b[1:])]
        if any(p is None for p in parts):
            return None
        return (a[0],) + tuple(parts)
    return a if a == b else None


def coq_ty(t):
    if t == TEXT:
        return "text"
    if t == BOOL:
        return "bool"
    if t == NAT:
        return "nat"
    if t == ERR:
        return "errc"
    if t == RULE:
        return "rule"
    if isinstance(t, tuple) and t[0] == "list":
        return "(list %s)" % coq_ty(t[1])
    if isinstance(t, tuple) and t[0] == "opt":
        return "(option %s)" % coq_ty(t[1])
    if isinstance(t, tuple) and t[0] == "pair":
        return "(%s * %s)" % (coq_ty(t[1]), coq_ty(t[2]))
    raise Untranslatable("type %r has no Gallina counterpart" % (t,))


def ty_name(t):
    try:
        return coq_ty(t)
    except Untranslatable:
        return str(t)


def rust_type(txt):
    t = re.sub(r"\s+", "", txt)
    t = re.sub(r"'\w+", "", t)
    t = t.replace("&mut", "&")
    table = {
        "&str": TEXT, "String": TEXT, "&String": TEXT,
        "Vec<String>": RULE, "&[String]": RULE, "&Vec<String>": RULE,
        "Vec<Vec<String>>": RULES, "&[Vec<String>]": RULES, "&Vec<Vec<String>>": RULES,
        "Option<&str>": OPTT, "Option<String>": OPTT,
        "usize": NAT, "bool": BOOL,
        "(bool,Vec<Vec<String>>)": ("pair", BOOL, RULES),
    }
    if t not in table:
        raise Untranslatable("type %s" % txt.strip())
    return table[t]


# ------------------------------------------------------------------ lexer
TOK = re.compile(r"""\s*(?:(//[^\n]*)|(/\*.*?\*/)|(\#!?\[[^\]]*\])|("(?:[^"\\]|\\.)*")"""
                 r"""|(\d+)(?:usize|u64|u32|u16|u8|isize|i64|i32)?\b|([A-Za-z_]\w*!?)"""
                 r"""|(=>|->|::|\|\||&&|==|!=|\.\.|[{}()\[\];=!&.,<>*+\-:?|]))""", re.S)

KEYWORDS = ("let", "mut", "while", "for", "loop", "move", "async", "unsafe", "fn", "struct", "impl",
            "use", "break", "continue", "as", "in", "ref", "dyn", "where", "else")


def lex(src):
    out = []
    i = 0
    while i < len(src):
        if src[i:].strip() == "":
            break
        m = TOK.match(src, i)
        if not m:
            raise Untranslatable("cannot tokenise at: %r" % src[i:i + 30].strip())
        i = m.end()
        if m.group(1) or m.group(2) or m.group(3):
            continue
        for k, kind in ((4, "str"), (5, "int"), (6, "id"), (7, "op")):
            if m.group(k) is not None:
                out.append((kind, m.group(k)))
                break
    return out


# ------------------------------------------------------------------ parser
class AP:
    """AST
       e    = ("var", x) | ("str", s) | ("int", n) | ("bool", b) | ("self",) | ("none",)
            | ("not", e) | ("or", a, b) | ("and", a, b) | ("eq", a, b, negated)
            | ("mcall", receiver, name, args) | ("await", e) | ("try", e) | ("field", e, n)
            | ("call", path, args) | ("list", elems) | ("closure", (x, is_mut), body)
            | ("block", stmts, final | None) | ("if", cond, block, block | if | None)
            | ("match", e, [(pat, e)]) | ("return", e)
       cond = ("cond", e) | ("iflet", pat, e)
       pat  = ("Some", x) | ("Ok", x) | ("Err", x) | ("None",) | ("wild",)
       stmt = ("let", pat_let, e) | ("insert0", x, e) | ("push", x, e) | ("expr", e)
       pat_let = ("id", x, is_mut) | ("tuple", [x, ..])"""

    def __init__(self, toks):
        self.t = toks
        self.i = 0

    def peek(self, k=0):
        return self.t[self.i + k] if self.i + k < len(self.t) else ("eof", "")

    def at(self, val, k=0):
        tk = self.peek(k)
        return tk[0] in ("op", "id") and tk[1] == val

    def eat(self, val=None):
        tk = self.peek()
        if tk[0] == "eof":
            raise Untranslatable("unexpected end of the body")
        if val is not None and not (tk[0] in ("op", "id") and tk[1] == val):
            raise Untranslatable("expected %r, found %r" % (val, tk[1]))
        self.i += 1
        return tk

    def ident(self, what):
        kind, x = self.eat()
        if kind != "id" or x.endswith("!") or x in KEYWORDS or x in ("self", "true", "false", "if", "match", "return"):
            raise Untranslatable("%s: %r is not a plain identifier" % (what, x))
        return x

    # ---- expressions
    def expr(self):
        if self.at("return"):
            self.eat()
            if self.peek()[1] in (";", "}", ",", ")"):
                raise Untranslatable("return without a value")
            return ("return", self.expr())
        if self.at("|"):
            return self.closure()
        if self.at("||"):
            raise Untranslatable("closure without parameter")
        return self.or_()

    def closure(self):
        self.eat("|")
        is_mut = False
        if self.at("mut"):
            self.eat()
            is_mut = True
        x = "_" if self.at("_") else None
        if x:
            self.eat()
        else:
            x = self.ident("closure parameter")
        self.eat("|")
        return ("closure", (x, is_mut), self.expr())

    def or_(self):
        e = self.and_()
        while self.at("||"):
            self.eat()
            e = ("or", e, self.and_())
        return e

    def and_(self):
        e = self.cmp()
        while self.at("&&"):
            self.eat()
            e = ("and", e, self.cmp())
        return e

    def cmp(self):
        a = self.unary()
        if self.at("==") or self.at("!="):
            op = self.eat()[1]
            return ("eq", a, self.unary(), op == "!=")
        return a

    def unary(self):
        if self.at("!"):
            self.eat()
            return ("not", self.unary())
        if self.at("&"):                       # a reference: identity
            self.eat()
            if self.at("mut"):
                raise Untranslatable("&mut borrow")
            return self.unary()
        if self.at("*"):                       # a dereference: identity
            self.eat()
            return self.unary()
        return self.postfix()

    def args(self, closer):
        out = []
        while not self.at(closer):
            out.append(self.expr())
            if self.at(","):
                self.eat()
            elif not self.at(closer):
                raise Untranslatable("expected , or %s, found %r" % (closer, self.peek()[1]))
        self.eat(closer)
        return out

    def skip_generics(self):
        """turbofish: only vector / string types (collecting into a set would deduplicate)"""
        self.eat("<")
        depth = 1
        while depth:
            v = self.eat()[1]
            if v not in self.TYPE_TOKENS:
                raise Untranslatable("type argument with " + v)
            depth += (v == "<") - (v == ">")

    def postfix(self):
        e = self.primary()
        while True:
            if self.at("."):
                self.eat()
                kind, name = self.peek()
                if kind == "int":
                    self.eat()
                    e = ("field", e, int(name))
                elif (kind, name) == ("id", "await"):
                    self.eat()
                    e = ("await", e)
                else:
                    name = self.ident("method name")
                    if self.at("::"):
                        self.eat()
                        self.skip_generics()
                    if not self.at("("):
                        raise Untranslatable("field access .%s" % name)
                    self.eat("(")
                    e = ("mcall", e, name, self.args(")"))
            elif self.at("?"):
                self.eat()
                e = ("try", e)
            else:
                return e

    def primary(self):
        kind, v = self.peek()
        if kind == "str":
            self.eat()
            return ("str", pins.rust_unescape(v[1:-1]))
        if kind == "int":
            self.eat()
            return ("int", int(v))
        if kind == "op":
            if v == "(":
                self.eat()
                e = self.expr()
                if self.at(","):
                    raise Untranslatable("tuple expression")
                self.eat(")")
                return e
            if v == "[":
                self.eat()
                return ("list", self.args("]"))
            if v == "{":
                return self.block()
            raise Untranslatable("unexpected token " + v)
        if kind != "id":
            raise Untranslatable("unexpected " + (v or "end of the body"))
        if v == "if":
            return self.if_()
        if v == "match":
            return self.match_()
        if v in ("true", "false"):
            self.eat()
            return ("bool", v)
        if v == "self":
            self.eat()
            return ("self",)
        if v == "vec!":
            self.eat()
            if self.at("["):
                self.eat()
                return ("list", self.args("]"))
            self.eat("(")
            return ("list", self.args(")"))
        if v.endswith("!"):
            raise Untranslatable("macro " + v)
        if v in KEYWORDS:
            raise Untranslatable("unsupported " + v)
        self.eat()
        path = v
        while self.at("::") and self.peek(1)[0] == "id":
            self.eat()
            path += "::" + self.eat()[1]
        if self.at("("):
            self.eat()
            return ("call", path, self.args(")"))
        if path == "None":
            return ("none",)
        if "::" in path:
            raise Untranslatable("path " + path)
        return ("var", path)

    def pattern(self):
        if self.at("_"):
            self.eat()
            return ("wild",)
        kind, v = self.eat()
        if kind == "id" and v == "None":
            return ("None",)
        if kind == "id" and v in ("Some", "Ok", "Err"):
            self.eat("(")
            x = "_" if self.at("_") else None
            if x:
                self.eat()
            else:
                x = self.ident("pattern variable")
            self.eat(")")
            return (v, x)
        raise Untranslatable("pattern starting with %r" % v)

    def if_(self):
        self.eat("if")
        if self.at("let"):
            self.eat()
            pat = self.pattern()
            self.eat("=")
            cond = ("iflet", pat, self.expr())
        else:
            cond = ("cond", self.expr())
        th = self.block()
        el = None
        if self.at("else"):
            self.eat()
            el = self.if_() if self.at("if") else self.block()
        return ("if", cond, th, el)

    def match_(self):
        self.eat("match")
        scrut = self.expr()
        self.eat("{")
        arms = []
        while not self.at("}"):
            pat = self.pattern()
            self.eat("=>")
            body = self.expr()
            arms.append((pat, body))
            if self.at(","):
                self.eat()
            elif not self.at("}") and body[0] != "block":
                raise Untranslatable("expected , after a match arm")
        self.eat("}")
        return ("match", scrut, arms)

    TYPE_TOKENS = ("Vec", "String", "str", "bool", "usize", "Option", "_", "<", ">", "&", "(", ")", ",")

    def let_(self):
        self.eat("let")
        if self.at("("):
            self.eat()
            names = []
            while not self.at(")"):
                if self.at("_"):
                    self.eat()
                    names.append("_")
                else:
                    if self.at("mut"):
                        raise Untranslatable("mut inside a tuple pattern")
                    names.append(self.ident("let pattern"))
                if self.at(","):
                    self.eat()
            self.eat(")")
            pat = ("tuple", names)
        else:
            is_mut = False
            if self.at("mut"):
                self.eat()
                is_mut = True
            pat = ("id", self.ident("let pattern"), is_mut)
        if self.at(":"):
            self.eat()
            while not self.at("="):
                v = self.eat()[1]
                if v not in self.TYPE_TOKENS:
                    raise Untranslatable("type annotation with " + v)
        self.eat("=")
        e = self.expr()
        self.eat(";")
        return ("let", pat, e)

    def block(self):
        self.eat("{")
        b = self.seq()
        self.eat("}")
        return b

    def seq(self):
        stmts, final = [], None
        while not self.at("}") and self.peek()[0] != "eof":
            if final is not None:
                raise Untranslatable("statement after the value of a block")
            if self.at("let"):
                stmts.append(self.let_())
                continue
            e = self.expr()
            if self.at(";"):
                self.eat()
                if e[0] == "mcall" and e[1][0] == "var" and e[2] in ("insert", "push"):
                    x, args = e[1][1], e[3]
                    if e[2] == "insert":
                        if len(args) != 2 or args[0] != ("int", 0):
                            raise Untranslatable(".insert at an index other than the literal 0")
                        stmts.append(("insert0", x, args[1]))
                    else:
                        if len(args) != 1:
                            raise Untranslatable(".push with %d arguments" % len(args))
                        stmts.append(("push", x, args[0]))
                else:
                    stmts.append(("expr", e))
            elif self.at("}") or self.peek()[0] == "eof":
                final = e
            elif e[0] in ("if", "match", "block"):
                stmts.append(("expr", e))
            else:
                raise Untranslatable("expected ; or }, found %r" % self.peek()[1])
        return ("block", stmts, final)


def walk(e):
    """all nodes of an expression / block (statements included)"""
    if not isinstance(e, tuple):
        if isinstance(e, list):
            for x in e:
                yield from walk(x)
        return
    yield e
    for x in e[1:]:
        if isinstance(x, (tuple, list)):
            yield from walk(x)


def has_kind(e, kinds):
    return any(isinstance(n, tuple) and n and n[0] in kinds for n in walk(e))


def is_pure(e):
    return not has_kind(e, ("await", "try", "return", "self"))


def has_return(e):
    return has_kind(e, ("return",))


def has_exit(e):
    return has_kind(e, ("return", "try"))


# ------------------------------------------------------------------ emission
def coq_text(s):
    if any(not (32 <= ord(c) < 127) for c in s):
        raise Untranslatable("string literal with non-printable or non-ASCII characters")
    return "(T %s)" % pins.coq_str(s)


TEXT_IDENTITY = ("to_string", "to_owned", "into", "clone", "as_str", "as_ref")
LIST_IDENTITY = ("iter", "into_iter", "cloned", "collect", "to_vec", "clone", "to_owned", "into")


class Var:
    def __init__(self, ty, g, mutable):
        self.ty, self.g, self.mutable = ty, g, mutable


class Sig:
    def __init__(self, name, params, ret, coq, where):
        self.name, self.params, self.ret, self.coq, self.where = name, params, ret, coq, where


PRIMS = {
    "add_policy_internal": Sig("add_policy_internal", [("sec", TEXT), ("ptype", TEXT), ("rule", RULE)], BOOL, "step_add", "internal"),
    "add_policies_internal": Sig("add_policies_internal", [("sec", TEXT), ("ptype", TEXT), ("rules", RULES)], BOOL, "step_add_many", "internal"),
    "remove_policy_internal": Sig("remove_policy_internal", [("sec", TEXT), ("ptype", TEXT), ("rule", RULE)], BOOL, "step_remove", "internal"),
    "remove_policies_internal": Sig("remove_policies_internal", [("sec", TEXT), ("ptype", TEXT), ("rules", RULES)], BOOL, "step_remove_many", "internal"),
    "remove_filtered_policy_internal": Sig("remove_filtered_policy_internal",
                                           [("sec", TEXT), ("ptype", TEXT), ("field_index", NAT), ("field_values", RULE)],
                                           ("pair", BOOL, RULES), "int_remove_filtered", "internal"),
}


class FnEmit:
    """emission of one function.  `s` is always the CURRENT state (rebound by every bind / on_result);
       Rust variables become v_<name> (numbered when the name is already in scope), temporaries t<n>.
       Every comp* method returns (type, term); for a computation the type is the payload A of
       `estate * outcome A`."""

    def __init__(self, tr, ret):
        self.tr = tr
        self.ret = ret
        self.n = 0
        self.names = set()

    def fresh(self):
        self.n += 1
        return "t%d" % self.n

    def gname(self, env, x):
        if x == "_":
            return "_"
        g = "v_" + x                 # never reused inside one function: a continuation built for an
        while g in self.names:       # outer scope is placed under the binders of inner scopes
            self.n += 1
            g = "v_%s_%d" % (x, self.n)
        self.names.add(g)
        return g

    def bind(self, env, x, ty, mutable=False):
        g = self.gname(env, x)
        env2 = dict(env)
        if x != "_":
            env2[x] = Var(ty, g, mutable)
        return env2, g

    @staticmethod
    def nested(env):
        """scope of a nested block: the variables of the enclosing blocks can be read, not mutated"""
        return dict((x, Var(v.ty, v.g, False)) for x, v in env.items())

    # ---- pure expressions -> (type, term)
    def pure(self, e, env):
        k = e[0]
        if k == "var":
            if e[1] not in env:
                raise Untranslatable("identifier " + e[1])
            return env[e[1]].ty, env[e[1]].g
        if k == "str":
            return TEXT, coq_text(e[1])
        if k == "int":
            return NAT, str(e[1])
        if k == "bool":
            return BOOL, e[1]
        if k == "none":
            return ("opt", ANY), "None"
        if k == "not":
            t, a = self.pure(e[1], env)
            self.want(t, BOOL, "operand of !")
            return BOOL, "(negb %s)" % a
        if k in ("or", "and"):
            ta, a = self.pure(e[1], env)
            tb, b = self.pure(e[2], env)
            self.want(ta, BOOL, "operand of " + k)
            self.want(tb, BOOL, "operand of " + k)
            return BOOL, "(%s %s %s)" % (a, "||" if k == "or" else "&&", b)
        if k == "eq":
            ta, a = self.pure(e[1], env)
            tb, b = self.pure(e[2], env)
            t = unify(ta, tb)
            eqs = {TEXT: "teqb", BOOL: "Bool.eqb", NAT: "Nat.eqb"}
            if t not in eqs:
                raise Untranslatable("comparison of %s with %s" % (ty_name(ta), ty_name(tb)))
            c = "(%s %s %s)" % (eqs[t], a, b)
            return BOOL, ("(negb %s)" % c if e[3] else c)
        if k == "field":
            t, a = self.pure(e[1], env)
            return self.proj(t, a, e[2])
        if k == "list":
            if not e[1]:
                raise Untranslatable("empty vector literal (element type unknown)")
            parts = [self.pure(x, env) for x in e[1]]
            return self.mk_list(parts)
        if k == "call":
            return self.pure_call(e, env)
        if k == "mcall":
            t, a = self.pure(e[1], env)
            return self.method(t, a, e[2], e[3], env)
        if k == "closure":
            raise Untranslatable("closure outside .map(..)")
        if k in ("block", "if", "match"):
            return self.ctrl(e, env, lambda e2, env2: self.pure(e2, env2), pure=True)
        raise Untranslatable("expression of kind " + k)

    @staticmethod
    def want(t, expected, what):
        if unify(t, expected) is None:
            raise Untranslatable("%s is a %s, not a %s" % (what, ty_name(t), ty_name(expected)))

    @staticmethod
    def proj(t, a, n):
        if not (isinstance(t, tuple) and t[0] == "pair") or n not in (0, 1):
            raise Untranslatable("projection .%d of a %s" % (n, ty_name(t)))
        return t[1 + n], "(%s %s)" % ("fst" if n == 0 else "snd", a)

    @staticmethod
    def mk_list(parts):
        t = parts[0][0]
        for p in parts[1:]:
            t = unify(t, p[0])
            if t is None:
                raise Untranslatable("vector with elements of different types")
        if t not in (TEXT, RULE):
            raise Untranslatable("vector of " + ty_name(t))
        return ("list", t), "[%s]" % "; ".join(p[1] for p in parts)

    def pure_call(self, e, env):
        path, args = e[1], e[2]
        if path in ("String::from", "Cow::Owned", "Cow::Borrowed") and len(args) == 1:
            t, a = self.pure(args[0], env)
            self.want(t, TEXT, "argument of " + path)
            return TEXT, a
        if path == "Some" and len(args) == 1:
            t, a = self.pure(args[0], env)
            return ("opt", t), "(Some %s)" % a
        raise Untranslatable("call of " + path)

    def method(self, t, a, name, args, env):
        if t == TEXT and name in TEXT_IDENTITY and not args:
            return TEXT, a
        if isinstance(t, tuple) and t[0] == "list":
            if name in LIST_IDENTITY and not args:
                return t, a
            if name == "map" and len(args) == 1 and args[0][0] == "closure":
                (x, is_mut), body = args[0][1], args[0][2]
                if not is_pure(body):
                    raise Untranslatable("closure with an awaited call, ? or return")
                env2, g = self.bind(self.nested(env), x, t[1], is_mut)
                if body[0] == "block":
                    tb, b = self.stmts(body[1], body[2], env2, lambda e2, env3: self.pure(e2, env3), pure=True)
                else:
                    tb, b = self.pure(body, env2)
                if tb not in (TEXT, RULE):
                    raise Untranslatable("closure producing a " + ty_name(tb))
                return ("list", tb), "(map (fun %s => %s) %s)" % (g, b, a)
        raise Untranslatable("method .%s with %d argument(s) on a %s" % (name, len(args), ty_name(t)))

    # ---- control flow shared by the pure, the value and the tail emission
    def ctrl(self, e, env, leaf, pure=False):
        k = e[0]
        if k == "block":
            return self.stmts(e[1], e[2], self.nested(env), leaf, pure)
        if k == "if":
            if e[3] is None:
                raise Untranslatable("if without else where a value is needed")
            cond = e[1]
            if cond[0] == "iflet":
                return self.match(cond[2], [(cond[1], e[2]), (("wild",), e[3])], env, leaf, pure)

            def ite(t, c):
                self.want(t, BOOL, "condition")
                ta, a = self.ctrl(e[2], env, leaf, pure)
                tb, b = (self.ctrl(e[3], env, leaf, pure))
                return self.join(ta, tb, "if"), "(if %s then %s else %s)" % (c, a, b)
            if pure:
                return ite(*self.pure(cond[1], env))
            return self.compV(cond[1], env, ite)
        if k == "match":
            return self.match(e[1], e[2], env, leaf, pure)
        return leaf(e, env)

    @staticmethod
    def join(ta, tb, what):
        t = unify(ta, tb)
        if t is None:
            raise Untranslatable("%s with branches of type %s and %s" % (what, ty_name(ta), ty_name(tb)))
        return t

    def arm(self, body, env, leaf, pure):
        return self.ctrl(body, env, leaf, pure) if body[0] in ("block", "if", "match") else leaf(body, env)

    def match(self, scrut, arms, env, leaf, pure):
        kinds = [p[0] for p, _ in arms]
        if len(arms) != 2:
            raise Untranslatable("match with %d arms (2 are supported)" % len(arms))
        if set(kinds) <= {"Some", "None", "wild"} and "Some" in kinds:
            some = [(p, b) for p, b in arms if p[0] == "Some"]
            other = [(p, b) for p, b in arms if p[0] != "Some"]
            if len(some) != 1 or len(other) != 1 or (kinds[0] == "wild"):
                raise Untranslatable("option match needs exactly one Some(..) arm and one None / _ arm after it"
                                     if kinds[0] == "wild" else "option match with arms " + "/".join(kinds))

            def on_opt(t, v):
                if not (isinstance(t, tuple) and t[0] == "opt"):
                    raise Untranslatable("Some(..) pattern on a " + ty_name(t))
                env2, g = self.bind(env, some[0][0][1], t[1])
                ta, a = self.arm(some[0][1], env2, leaf, pure)
                tb, b = self.arm(other[0][1], env, leaf, pure)
                return self.join(ta, tb, "match"), "(match %s with Some %s => %s | None => %s end)" % (v, g, a, b)
            if pure:
                return on_opt(*self.pure(scrut, env))
            return self.compV(scrut, env, on_opt)
        if set(kinds) <= {"Ok", "Err", "wild"} and "Ok" in kinds:
            if pure:
                raise Untranslatable("match on a Result inside a pure expression")
            oks = [(p, b) for p, b in arms if p[0] == "Ok"]
            other = [(p, b) for p, b in arms if p[0] != "Ok"]
            if len(oks) != 1 or len(other) != 1 or kinds[0] == "wild":
                raise Untranslatable("result match needs exactly one Ok(..) arm and one Err(..) / _ arm")
            if has_exit(scrut):
                raise Untranslatable("? or return inside the scrutinee of a match on a Result")
            tr, c = self.compC(scrut, env)
            env_ok, g = self.bind(env, oks[0][0][1], tr)
            ta, a = self.arm(oks[0][1], env_ok, leaf, pure)
            ex = other[0][0][1] if other[0][0][0] == "Err" else "_"
            env_err, ge = self.bind(env, ex, ERR)
            tb, b = self.arm(other[0][1], env_err, leaf, pure)
            return (self.join(ta, tb, "match"),
                    "(on_result %s\n (fun s %s => %s)\n (fun s %s => %s))" % (c, g, a, ge, b))
        raise Untranslatable("match with patterns " + "/".join(kinds))

    def stmts(self, sts, final, env, leaf, pure=False):
        if not sts:
            if final is None:
                raise Untranslatable("block without a value")
            return self.arm(final, env, leaf, pure)
        st, rest = sts[0], sts[1:]

        def value(e, k):
            if pure:
                return k(*self.pure(e, env))
            return self.compV(e, env, k)
        if st[0] == "let":
            pat, e = st[1], st[2]

            def bound(t, v):
                if pat[0] == "id":
                    env2, g = self.bind(env, pat[1], t, pat[2])
                    tt, term = self.stmts(rest, final, env2, leaf, pure)
                    return tt, "(let %s := %s in\n %s)" % (g, v, term)
                if not (isinstance(t, tuple) and t[0] == "pair") or len(pat[1]) != 2:
                    raise Untranslatable("tuple pattern for a " + ty_name(t))
                env2, g1 = self.bind(env, pat[1][0], t[1])
                env2, g2 = self.bind(env2, pat[1][1], t[2])
                tt, term = self.stmts(rest, final, env2, leaf, pure)
                return tt, "(let %s := fst %s in let %s := snd %s in\n %s)" % (g1, v, g2, v, term)
            return value(e, bound)
        if st[0] in ("insert0", "push"):
            x, e = st[1], st[2]
            if x not in env:
                raise Untranslatable("identifier " + x)
            var = env[x]
            if not var.mutable:
                raise Untranslatable("mutation of %s, which is not a `mut` variable of this block" % x)
            if not (isinstance(var.ty, tuple) and var.ty[0] == "list"):
                raise Untranslatable(".%s on a %s" % (st[0], ty_name(var.ty)))

            def mutated(t, v):
                self.want(t, var.ty[1], "inserted element")
                env2, g = self.bind(env, x, var.ty, True)
                new = "(%s :: %s)" % (v, var.g) if st[0] == "insert0" else "(%s ++ [%s])" % (var.g, v)
                tt, term = self.stmts(rest, final, env2, leaf, pure)
                return tt, "(let %s := %s in\n %s)" % (g, new, term)
            return value(e, mutated)
        e = st[1]
        if e[0] == "return":
            if rest or final is not None:
                raise Untranslatable("code after return")
            return self.returned(e, env, pure)
        if pure or is_pure(e):
            raise Untranslatable("expression statement without effect")
        return self.compV(e, env, lambda t, v: self.stmts(rest, final, env, leaf, pure))

    def returned(self, e, env, pure=False):
        if pure:
            raise Untranslatable("return inside a pure expression")
        t, term = self.compC(e[1], env)
        self.want(t, self.ret, "returned value")
        return ANY, term

    # ---- values that may contain awaited calls: continuation passing.
    #      k(type, term) builds what FOLLOWS (it may be called once per branch)
    def compV(self, e, env, k):
        if is_pure(e):
            return k(*self.pure(e, env))
        kind = e[0]
        if kind == "try":
            if has_return(e[1]):
                raise Untranslatable("return inside the operand of ?")
            a, c = self.compC(e[1], env)
            t = self.fresh()
            x, rest = k(a, t)
            return x, "(bind %s (fun s %s =>\n %s))" % (c, t, rest)
        if kind in ("or", "and"):
            def left(ta, a):
                self.want(ta, BOOL, "operand of " + kind)

                def right(tb, b):
                    self.want(tb, BOOL, "operand of " + kind)
                    return k(BOOL, b)
                t1, run = self.compV(e[2], env, right)
                t2, skip = k(BOOL, "true" if kind == "or" else "false")
                return (self.join(t1, t2, kind),
                        "(if %s then %s else %s)" % ((a, skip, run) if kind == "or" else (a, run, skip)))
            return self.compV(e[1], env, left)
        if kind == "not":
            return self.compV(e[1], env, lambda t, a: (self.want(t, BOOL, "operand of !"), k(BOOL, "(negb %s)" % a))[1])
        if kind == "field":
            return self.compV(e[1], env, lambda t, a: k(*self.proj(t, a, e[2])))
        if kind == "eq":
            raise Untranslatable("comparison with an awaited call inside")
        if kind in ("block", "if", "match"):
            return self.ctrl(e, env, lambda e2, env2: self.compV(e2, env2, k))
        if kind == "return":
            return self.returned(e, env)
        if kind == "mcall" and e[1] != ("self",):
            if not all(is_pure(a) for a in e[3]):
                raise Untranslatable("awaited call inside the arguments of ." + e[2])
            return self.compV(e[1], env, lambda t, a: k(*self.method(t, a, e[2], e[3], env)))
        if kind == "list":
            if not e[1]:
                raise Untranslatable("empty vector literal (element type unknown)")
            return self.compVs(e[1], env, lambda parts: k(*self.mk_list(parts)))
        if kind == "await" or (kind == "mcall" and e[1] == ("self",)):
            raise Untranslatable("a call on self used as a plain value (supported: .await followed by ?, "
                                 "a match / if let on the Result, or the tail position)")
        raise Untranslatable("expression of kind %s with an awaited call inside" % kind)

    def compVs(self, es, env, k, acc=()):
        if not es:
            return k(list(acc))
        return self.compV(es[0], env, lambda t, v: self.compVs(es[1:], env, k, acc + ((t, v),)))

    # ---- expressions of type Result<A>: a term of type estate * outcome A over the current s
    def compC(self, e, env):
        kind = e[0]
        if kind == "await":
            call = e[1]
            if not (call[0] == "mcall" and call[1] == ("self",)):
                raise Untranslatable(".await on something that is not a call on self")
            name, args = call[2], call[3]
            if has_return(args):
                raise Untranslatable("return inside the arguments of " + name)
            sig = self.tr.sig(name)
            if len(args) != len(sig.params):
                raise Untranslatable("%s called with %d arguments" % (name, len(args)))

            def doit(parts):
                for (t, _), (pn, pt) in zip(parts, sig.params):
                    self.want(t, pt, "argument %s of %s" % (pn, name))
                return sig.ret, "(%s s %s)" % (sig.coq, " ".join(p[1] for p in parts))
            return self.compVs(args, env, doit)
        if kind == "call" and e[1] == "Ok" and len(e[2]) == 1:
            return self.compV(e[2][0], env, lambda t, v: (t, "(s, Ok %s)" % v))
        if kind == "call" and e[1] == "Err" and len(e[2]) == 1:
            t, v = self.pure(e[2][0], env) if is_pure(e[2][0]) else (None, None)
            if t != ERR:
                raise Untranslatable("Err(..) of something that is not the error of a matched Result")
            return ANY, "(s, Err %s)" % v
        if kind in ("block", "if", "match"):
            return self.ctrl(e, env, lambda e2, env2: self.compC(e2, env2))
        if kind == "return":
            return self.returned(e, env)
        if kind == "mcall" and e[1] == ("self",):
            raise Untranslatable("call of self.%s without .await" % e[2])
        raise Untranslatable("expression of kind %s where a Result is expected" % kind)


# ------------------------------------------------------------------ locating the functions
def block_after(src, header_re):
    m = re.search(header_re, src)
    if not m:
        return None
    i = src.find("{", m.end())
    return pins.balanced(src, i) if i >= 0 else None


def find_fn(block, name):
    """(params text, return type text, body text | None) of the first definition of `name` directly inside
       the trait / impl block (nested blocks skipped); a declaration without body gives body None"""
    decl = None
    depth = 0
    i = 0
    hdr = re.compile(r"\bfn\s+%s\s*\(" % re.escape(name))
    while i < len(block):
        c = block[i]
        if c == '"':
            j = i + 1
            while j < len(block) and block[j] != '"':
                j += 2 if block[j] == "\\" else 1
            i = j + 1
            continue
        if c == "{":
            depth += 1
        elif c == "}":
            depth -= 1
        elif c == "f" and depth == 1:
            m = hdr.match(block, i)
            if m and (i == 0 or not (block[i - 1].isalnum() or block[i - 1] == "_")):
                j = m.end()
                d = 1
                while j < len(block) and d:
                    d += (block[j] == "(") - (block[j] == ")")
                    j += 1
                params = block[m.end():j - 1]
                k = j
                while k < len(block) and block[k] not in "{;":
                    k += 1
                ret = block[j:k]
                if k < len(block) and block[k] == "{":
                    return params, ret, pins.balanced(block, k)
                if decl is None:
                    decl = (params, ret, None)
                i = k
                continue
        i += 1
    return decl


def split_top(txt):
    out, depth, cur = [], 0, ""
    for c in txt:
        if c in "<([":
            depth += 1
        elif c in ">)]":
            depth -= 1
        if c == "," and depth == 0:
            out.append(cur)
            cur = ""
        else:
            cur += c
    if cur.strip():
        out.append(cur)
    return [x.strip() for x in out if x.strip()]


def parse_sig(params_txt, ret_txt):
    params = []
    for p in split_top(params_txt):
        if re.match(r"&\s*(?:'\w+\s+)?(?:mut\s+)?self$|(?:mut\s+)?self$", p):
            continue
        m = re.match(r"(mut\s+)?(\w+)\s*:\s*(.+)$", p, re.S)
        if not m:
            raise Untranslatable("parameter %r" % p)
        params.append((m.group(2), rust_type(m.group(3)), bool(m.group(1))))
    m = re.match(r"\s*->\s*Result\s*<(.*)>\s*$", ret_txt.strip(), re.S)
    if not m:
        raise Untranslatable("return type %r (Result<..> expected)" % ret_txt.strip())
    return params, rust_type(m.group(1))


RBAC = "src/rbac_api.rs"
MGMT = "src/management_api.rs"

# target -> the parameter types the obligations of PcApiGen.v are stated for
TARGETS = [
    # management API: what the blanket impl maps onto the internal entry points ...
    ("add_named_policy", [TEXT, RULE]), ("add_named_policies", [TEXT, RULES]),
    ("remove_named_policy", [TEXT, RULE]), ("remove_named_policies", [TEXT, RULES]),
    ("add_named_grouping_policy", [TEXT, RULE]), ("add_named_grouping_policies", [TEXT, RULES]),
    ("remove_named_grouping_policy", [TEXT, RULE]), ("remove_named_grouping_policies", [TEXT, RULES]),
    ("remove_filtered_named_policy", [TEXT, NAT, RULE]), ("remove_filtered_named_grouping_policy", [TEXT, NAT, RULE]),
    # ... and the un-named default methods
    ("add_policy", [RULE]), ("add_policies", [RULES]), ("remove_policy", [RULE]), ("remove_policies", [RULES]),
    ("add_grouping_policy", [RULE]), ("add_grouping_policies", [RULES]),
    ("remove_grouping_policy", [RULE]), ("remove_grouping_policies", [RULES]),
    ("remove_filtered_policy", [NAT, RULE]), ("remove_filtered_grouping_policy", [NAT, RULE]),
    # RBAC API
    ("add_permission_for_user", [TEXT, RULE]), ("add_permissions_for_user", [TEXT, RULES]),
    ("add_role_for_user", [TEXT, TEXT, OPTT]), ("add_roles_for_user", [TEXT, RULE, OPTT]),
    ("delete_role_for_user", [TEXT, TEXT, OPTT]), ("delete_roles_for_user", [TEXT, OPTT]),
    ("delete_user", [TEXT]), ("delete_role", [TEXT]), ("delete_permission", [RULE]),
    ("delete_permission_for_user", [TEXT, RULE]), ("delete_permissions_for_user", [TEXT]),
]
TARGET_TYPES = dict(TARGETS)


class Translator:
    def __init__(self, reader):
        self.layers = []          # (label, text of the trait / impl block), in resolution order
        self.problems = []
        rb = pins.strip_rust_comments(reader(RBAC) or "")
        mg = pins.strip_rust_comments(reader(MGMT) or "")
        for label, src, hdr in (
                (RBAC + ": impl RbacApi for T", rb, r"\bimpl\s*<[^>]*>\s*RbacApi\s+for\s+\w+"),
                (RBAC + ": trait RbacApi (default method)", rb, r"\btrait\s+RbacApi\b"),
                (MGMT + ": impl MgmtApi for T", mg, r"\bimpl\s*<[^>]*>\s*MgmtApi\s+for\s+\w+"),
                (MGMT + ": trait MgmtApi (default method)", mg, r"\btrait\s+MgmtApi\b")):
            blk = block_after(src, hdr)
            if blk is None:
                self.problems.append("block not found: " + label)
            else:
                self.layers.append((label, blk))
        self.done = {}            # name -> Sig | Untranslatable
        self.defs = []            # emitted text, callees first
        self.stack = []

    def locate(self, name):
        """impl first, then the default method of the same trait; a body wins over a declaration"""
        for label, blk in self.layers:
            f = find_fn(blk, name)
            if f is not None and f[2] is not None:
                return label, f
        return None

    def sig(self, name):
        if name in PRIMS:
            return PRIMS[name]
        if name in self.stack:
            raise Untranslatable("recursive call of " + name)
        if name not in self.done:
            self.translate(name)
        r = self.done[name]
        if isinstance(r, Untranslatable):
            raise Untranslatable("callee %s is untranslatable" % name)
        return r

    def translate(self, name):
        self.stack.append(name)
        label = "?"
        try:
            loc = self.locate(name)
            if loc is None:
                raise Untranslatable("no method %s with a body in RbacApi / MgmtApi, and not an internal entry point" % name)
            label, (ptxt, rtxt, body) = loc
            params, ret = parse_sig(ptxt, rtxt)
            if name in TARGET_TYPES:
                if [t for _, t, _ in params] != TARGET_TYPES[name]:
                    raise Untranslatable("signature (%s) differs from the one the obligations are stated for"
                                         % ", ".join(ty_name(t) for _, t, _ in params))
                if ret != BOOL:
                    raise Untranslatable("returns Result<%s>" % ty_name(ret))
            p = AP(lex(body.strip()[1:-1]))
            blk = p.seq()
            if p.peek()[0] != "eof":
                raise Untranslatable("trailing tokens")
            em = FnEmit(self, ret)
            env = {}
            binders = []
            for x, t, is_mut in params:
                env, g = em.bind(env, x, t, is_mut)
                binders.append("(%s : %s)" % (g, coq_ty(t)))
            t, term = em.stmts(blk[1], blk[2], env, lambda e2, env2: em.compC(e2, env2))
            em.want(t, ret, "value of the function")
            coq = "gen_" + name
            self.defs.append("(* %s :: %s *)\nDefinition %s (s : estate) %s : estate * outcome %s :=\n %s.\n"
                             % (label, name, coq, " ".join(binders), coq_ty(ret), term))
            self.done[name] = Sig(name, [(x, t) for x, t, _ in params], ret, coq, label)
        except Untranslatable as ex:
            self.done[name] = ex
            why = str(ex).replace("*)", "* )").replace("(*", "( *")
            self.problems.append("%s: %s" % (name, why))
            self.defs.append("(* translation of %s (%s) failed: %s *)" % (name, label, why))
            if name in TARGET_TYPES:
                self.defs.append("Definition gen_%s (s : estate) %s : estate * outcome bool := (s, Panic).\n"
                                 % (name, " ".join("(_ : %s)" % coq_ty(t) for t in TARGET_TYPES[name])))
        finally:
            self.stack.pop()


def generate(repo_reader=None):
    """-> (text of coq/Gen/ApiGen.v, everything translated?)"""
    reader = repo_reader or pins.read
    out = ["(* GENERATED on every run by tools/rs2coq_api.py from /repo/src/management_api.rs and",
           "   /repo/src/rbac_api.rs (the mutating helpers) - do not edit.  Vocabulary: Gen/ApiRt.v;",
           "   obligations: PinChecks/PcApiGen.v. *)",
           "From CV Require Import Model.Base Model.Enforce Model.Engine Gen.ApiRt.", ""]
    try:
        tr = Translator(reader)
        for name, _ in TARGETS:
            if name not in tr.done:
                tr.translate(name)
        out.extend(tr.defs)
        problems = tr.problems
    except Exception as ex:   # noqa  (a bug of the translator must not look like a success)
        problems = ["internal error: %r" % (ex,)]
        out.append("(* translation failed: %s *)" % repr(ex).replace("*)", "* )").replace("(*", "( *"))
    ok = not problems
    out.append("Definition gen_api_translated : bool := %s." % ("true" if ok else "false"))
    return "\n".join(out) + "\n", ok


def write_if_changed(dst, txt, ok):
    os.makedirs(os.path.dirname(dst), exist_ok=True)
    old = None
    try:
        old = open(dst, encoding="utf-8").read()
    except OSError:
        pass
    if old != txt:
        open(dst, "w", encoding="utf-8").write(txt)
        print("rs2coq: rewritten", dst, "(translated)" if ok else "(UNTRANSLATABLE)")
    else:
        print("rs2coq: unchanged", dst)


def main(dst=None):
    if dst is None:
        if len(sys.argv) < 2:
            print("usage: rs2coq_api.py <path of coq/Gen/ApiGen.v>")
            return 2
        dst = sys.argv[1]
    txt, ok = generate()
    write_if_changed(dst, txt, ok)
    return 0


if __name__ == "__main__":
    sys.exit(main())
