#!/usr/bin/env python3
"""rs2coq, part 16: the regex-based matching functions of src/model/function_map.rs, COMPLETELY (what part 14 left
partial): `regex_match`, `key_match2`, `key_match3`, `key_match4`, `key_match5`, `key_get2`, `key_get3` and the statics
MAT_B / MAT_P -> coq/Gen/FmapGen.v, over
   coq/Gen/RegexSyntax.v   rx_compile: the TRUSTED restatement of the crate's PARSER - the Gallina counterpart of the
                           run-time `Regex::new(&format!(..))`  (RxOk / RxReject = the crate refuses / RxOutside)
   coq/Gen/Regex.v         the matcher (part 14),   coq/Gen/RegexRt.v   str::contains / replace / slices,
   coq/Gen/FmapRt.v        fres (value / panic / outside), Captures, replace_all with a closure, HashMap, zip, skip
   coq/Gen/RustStr.v, RustVec.v, RustIter.v  (find, format!, flow / rs_for, map_or, usize_sub, enumerate ..).
coq/PinChecks/PcFmapGen.v proves the translated functions equal to the hand model coq/Model/PathMatch.v wherever the
model answers (lemmas: coq/Proofs/FmapP.v; statements: coq/Properties/FmapGen.v).

The lexer, the item scanner (fn / static), the regex-LITERAL parser and the replacement-template parser are those of
part 14 (tools/rs2coq_regex.py: lex, Items, static_regex, regex_to_coq, template_to_coq); the expression / statement
parser is extended here and the emitter is new.  Re-read from /repo (VERIF_REPO) on every run; NOTHING is hard-coded per
function: every regex literal, replacement string, `format!` shape, guard, argument order, slice bound, early return,
`unwrap`, `panic!` and loop comes from the token stream of the function body.

Supported subset (anything else: Untranslatable -> `gen_fmap_translated := false`, reason in a comment, placeholders)
  statements   let [mut] x [: T] = e;   x = e;   e;   return e;   for PAT in e { .. }   if c { .. } [else ..]
               if let PAT = e { .. } [else { .. }]   v.push(e);   m.insert(k, v);   panic!(..);   a final expression
  patterns     x   _   (p, q)   Some(p)   None   Ok(p)   Err(_)   &p
  expressions  string / raw string / char / integer literals, variables, the statics, true false
               ! & * == != < <= > >= + - && ||   e[a..b] e[a..] e[..b] e[i]   { block }   if / if let / match as values
               |x[: T], ..| e   |x| { block }   format!("..{}..", e)   f(a, ..) for another translated fn of the file
               Regex::new(<literal>).unwrap()  -> the AST of the literal (a named constant, also listed in
               gen_fmap_literals so that PcFmapGen.v can check rx_parse on the same text against it)
               Regex::new(<text>) at RUN TIME: .unwrap()  |  if let Ok(re) = ..  |  match .. { Ok(re) => .., Err(_) => .. }
               Vec::new()   HashMap::new()
  methods      to_string to_owned into as_ref clone borrow iter as_str(String)            (identity)
               contains("..") replace("..", "..") find('c') len is_empty
               RE.is_match(s) RE.find_iter(s) RE.captures(s) RE.replace_all(s, "..") RE.replace_all(s, |caps| { .. })
               m.as_str()   caps.get(i) caps.iter() caps[i] caps.len()
               it.collect() it.enumerate() it.skip(n) it.zip(it2) it.map(|x| e)   v.len() v.is_empty()
               o.unwrap() o.map_or(d, |x| e)   h.get(k)
Translation.  Every function body is a term of type `fres R` (FRet v / FPanic / FOutside), written in
continuation-passing style: an operation that can panic is bound before its use
(`match rs_slice s a b with Some t => .. | None => FPanic end`); what follows a branching statement is repeated in
each branch; `let` / assignment re-bind the Coq variable `v_<name>`.  A `for` loop is `rs_for` over the list of the
iterator's items carrying the locals its body mutates; a closure handed to replace_all carries the captured locals
it mutates (rx_replace_all_with); a closure that can panic is an `option`-valued function (rs_iter_map_opt).
`gen_<f> := fres_opt (gen_<f>_r ..)` is the `option` view (None = the source panics)."""
import os
import sys

sys.path.insert(0, os.path.dirname(os.path.abspath(__file__)))
import pins  # noqa: E402
import rs2coq_regex as R  # noqa: E402
from rs2coq_regex import Untranslatable  # noqa: E402

FMAP = "src/model/function_map.rs"
# the covered set: (Rust function, Coq result type of gen_<f>_r, number of parameters)
FUNCS = (("regex_match", "bool", 2), ("key_match2", "bool", 2), ("key_match3", "bool", 2), ("key_match4", "bool", 2),
         ("key_match5", "bool", 2), ("key_get2", "text", 3), ("key_get3", "text", 3))
IDENTITY_METHODS = ("to_string", "to_owned", "into", "as_ref", "clone", "borrow")


# ======================================================================= parser
# new nodes (besides those of rs2coq_regex.RP):
#   ("iflet", pat, e, block, block | None)   ("match", e, [(pat, expr | ("retx", e))])   ("index", e, i)
#   ("retx", e)   ("closure", [x], e | block)   ("for", pat, e, block)   ("panic",)
#   pat = ("pvar", x) | ("pwild",) | ("ptuple", [pat]) | ("psome", pat) | ("pnone",) | ("pok", pat) | ("perr", pat)
class FP(R.RP):
    def pattern(self):
        if self.at("&"):
            self.eat()
            return self.pattern()
        if self.at("("):
            self.eat()
            ps = []
            while not self.at(")"):
                ps.append(self.pattern())
                if self.at(","):
                    self.eat()
            self.eat(")")
            return ("ptuple", ps)
        kind, v = self.peek()
        if kind != "id":
            raise Untranslatable("pattern starting with %r" % v)
        if v == "_":
            self.eat()
            return ("pwild",)
        if v in ("Some", "Ok", "Err"):
            self.eat()
            self.eat("(")
            p = self.pattern()
            self.eat(")")
            return ({"Some": "psome", "Ok": "pok", "Err": "perr"}[v], p)
        if v == "None":
            self.eat()
            return ("pnone",)
        if v == "mut":
            self.eat()
        return ("pvar", self.ident())

    def closure(self):
        params = []
        if self.at("||"):
            self.eat()
        else:
            self.eat("|")
            while not self.at("|"):
                params.append(self.ident())
                if self.at(":"):
                    # a type annotation (`: &regex::Captures`): skipped
                    self.eat()
                    depth = 0
                    while not (depth == 0 and (self.at(",") or self.at("|"))):
                        if self.at("<"):
                            depth += 1
                        elif self.at(">"):
                            depth -= 1
                        self.eat()
                if self.at(","):
                    self.eat()
            self.eat("|")
        body = self.block() if self.at("{") else self.expr()
        return ("closure", params, body)

    def unary(self):
        if self.at("!"):
            self.eat()
            return ("not", self.unary())
        if self.at("&") or self.at("*"):          # a reference / a dereference: identity
            self.eat()
            if self.at("mut"):
                self.eat()
            return self.unary()
        return self.postfix()

    def postfix(self):
        e = self.primary()
        while True:
            if self.at("."):
                self.eat()
                name = self.ident()
                if self.at("::"):
                    raise Untranslatable("turbofish on .%s" % name)
                e = ("mcall", e, name, self.args())
            elif self.at("["):
                self.eat()
                if self.at(".."):
                    self.eat()
                    b = None if self.at("]") else self.add()
                    self.eat("]")
                    e = ("slice", e, None, b)
                    continue
                a = self.add()
                if self.at(".."):
                    self.eat()
                    b = None if self.at("]") else self.add()
                    self.eat("]")
                    e = ("slice", e, a, b)
                else:
                    self.eat("]")
                    e = ("index", e, a)
            else:
                return e

    def primary(self):
        kind, v = self.peek()
        if kind == "id" and v == "match":
            self.eat()
            scrut = self.expr()
            self.eat("{")
            arms = []
            while not self.at("}"):
                p = self.pattern()
                self.eat("=>")
                if self.at("return"):
                    self.eat()
                    body = ("retx", self.expr())
                elif self.at("{"):
                    body = self.block()
                else:
                    body = self.expr()
                arms.append((p, body))
                if self.at(","):
                    self.eat()
            self.eat("}")
            return ("match", scrut, arms)
        if kind == "id" and v == "panic!":
            self.eat()
            self.macro_args()
            return ("panic",)
        return R.RP.primary(self)

    def if_(self):
        self.eat("if")
        if self.at("let"):
            self.eat()
            p = self.pattern()
            self.eat("=")
            e = self.expr()
            th = self.block()
            el = None
            if self.at("else"):
                self.eat()
                el = ("block", [], self.if_()) if self.at("if") else self.block()
            return ("iflet", p, e, th, el)
        c = self.expr()
        th = self.block()
        el = None
        if self.at("else"):
            self.eat()
            el = ("block", [], self.if_()) if self.at("if") else self.block()
        return ("if", c, th, el)

    def block(self):
        self.eat("{")
        stmts, final = [], None
        while not self.at("}"):
            if final is not None:
                # an expression of type () followed by another statement: `if c { return x; }`, `if let ..`
                stmts.append(("expr", final))
                final = None
            kind, v = self.peek()
            if (kind, v) == ("id", "let"):
                self.eat()
                mutable = False
                if self.at("mut"):
                    self.eat()
                    mutable = True
                x = self.ident()
                if self.at(":"):
                    self.eat()
                    depth = 0
                    while not (depth == 0 and self.at("=")):
                        if self.at("<"):
                            depth += 1
                        elif self.at(">"):
                            depth -= 1
                        self.eat()
                self.eat("=")
                e = self.expr()
                self.eat(";")
                stmts.append(("let", x, mutable, e))
            elif kind == "id" and self.peek(1) == ("op", "=") and "::" not in v and v not in R.KEYWORDS:
                self.eat()
                self.eat("=")
                e = self.expr()
                self.eat(";")
                stmts.append(("assign", v, e))
            elif (kind, v) == ("id", "return"):
                self.eat()
                e = None if self.at(";") or self.at("}") else self.expr()
                if self.at(";"):
                    self.eat()
                stmts.append(("ret", e))
            elif (kind, v) == ("id", "for"):
                self.eat()
                p = self.pattern()
                self.eat("in")
                it = self.expr()
                body = self.block()
                stmts.append(("for", p, it, body))
            else:
                e = self.expr()
                if self.at(";"):
                    self.eat()
                    stmts.append(("expr", e))
                else:
                    final = e
        self.eat("}")
        return ("block", stmts, final)


# ===================================================================== emission
def tyname(t):
    if isinstance(t, tuple):
        if t[0] == "tuple":
            return "(" + ", ".join(tyname(x) for x in t[1]) + ")"
        return "%s<%s>" % (t[0], tyname(t[1]))
    return str(t)


def coq_type(t):
    if t in ("text", "gmatch"):
        return "text"
    if t in ("bool", "nat", "regex", "unit"):
        return t
    if t == "match":
        return "rmatch"
    if t == "caps":
        return "rcaps"
    if isinstance(t, tuple):
        if t[0] == "opt":
            return "option (%s)" % coq_type(t[1])
        if t[0] in ("vec", "iter"):
            return "list (%s)" % coq_type(t[1])
        if t[0] == "hm":
            return "list (text * %s)" % coq_type(t[1])
        if t[0] == "tuple":
            return "(" + " * ".join(coq_type(x) for x in t[1]) + ")"
    raise Untranslatable("a value of type %s is needed in a type annotation" % tyname(t))


def is_textual(t):
    return t in ("text", "gmatch")


def unify(a, b):
    """None is an unknown component"""
    if a is None:
        return b
    if b is None:
        return a
    if is_textual(a) and is_textual(b):
        return "text"
    if a == b:
        return a
    if isinstance(a, tuple) and isinstance(b, tuple) and a[0] == b[0]:
        if a[0] == "tuple":
            if len(a[1]) != len(b[1]):
                raise Untranslatable("tuples of different sizes")
            return ("tuple", [unify(x, y) for x, y in zip(a[1], b[1])])
        return (a[0], unify(a[1], b[1]))
    raise Untranslatable("a %s where a %s is expected" % (tyname(a), tyname(b)))


class Ctx:
    """the monad a term is written in: "fres" (a function body), "flow" (a loop body), "opt" (a closure that can panic)"""

    def __init__(self, kind, ret_ty):
        self.kind = kind
        self.ret_ty = ret_ty

    def panic(self):
        return {"fres": "FPanic", "flow": "LPanic", "opt": "None"}[self.kind]

    def ret(self, term):
        if self.kind == "opt":
            raise Untranslatable("`return` inside a closure")
        return {"fres": "(FRet %s)", "flow": "(LReturn %s)"}[self.kind] % term


class Emit:
    def __init__(self, fname, statics, translated, literals):
        self.fname = fname
        self.statics = statics         # NAME -> Coq constant
        self.translated = translated   # name -> ([parameter types], result type): the functions of the covered set
        self.literals = literals       # [(constant, literal, AST term)]: appended to
        self.calls = []                # translated functions this one calls
        self.fresh = 0
        self.nlit = 0

    def tmp(self, base):
        self.fresh += 1
        return "%s%d_" % (base, self.fresh)

    # ---------------------------------------------------------------- expressions
    def pure(self, e, env, ctx):
        """(type, term) of an expression that needs no binding"""
        hold = []

        def k(ty, a):
            hold.append((ty, a))
            return "\0"
        out = self.ex(e, env, ctx, k)
        if out != "\0" or len(hold) != 1:
            raise Untranslatable("an operation that can panic (or a branch) under `&&` / `||` / `!`, in a condition or in "
                                 "an argument that must be a plain value")
        return hold[0]

    def bind_opt(self, term, pat, rest, ctx):
        return "(match %s with\n | Some %s => %s\n | None => %s end)" % (term, pat, rest, ctx.panic())

    def regex_literal(self, lit):
        """Regex::new(<literal>).unwrap(): the AST of the literal, as a named constant"""
        for name, l0, _ in self.literals:
            if l0 == lit:
                return name        # (what follows a branch is translated once per branch)
        term = R.regex_to_coq(lit)
        self.nlit += 1
        name = "gen_%s_rx%d" % (self.fname, self.nlit)
        self.literals.append((name, lit, term))
        return name

    def ex(self, e, env, ctx, k):
        """k(type, term) -> the term for what follows"""
        kind = e[0]
        if kind in ("str", "raw"):
            return k("text", R.coq_text(e[1]))
        if kind == "int":
            return k("nat", str(e[1]))
        if kind == "lit":
            return k("bool", e[1])
        if kind == "chr":
            raise Untranslatable("character literal outside find(..)")
        if kind == "var":
            if e[1] in env:
                return k(env[e[1]][0], "v_" + e[1])
            if e[1] in self.statics:
                return k("regex", self.statics[e[1]])
            raise Untranslatable("identifier " + e[1])
        if kind == "call":
            return self.call(e, env, ctx, k)
        if kind == "macro":
            if e[1] == "format":
                toks = e[2]
                if len(toks) == 3 and toks[0][0] == "str" and toks[1] == ("op", ",") and toks[0][1].count("{}") == 1 \
                        and "{" not in toks[0][1].replace("{}", "") and "}" not in toks[0][1].replace("{}", ""):
                    pre, post = toks[0][1].split("{}")
                    t, a = self.pure(FP([toks[2]]).expr(), env, ctx)
                    if not is_textual(t):
                        raise Untranslatable("format! of a " + tyname(t))
                    return k("text", "(rs_format1 %s %s %s)" % (R.coq_text(pre), R.coq_text(post), a))
                raise Untranslatable("format! other than format!(\"..{}..\", x)")
            raise Untranslatable("macro %s!" % e[1])
        if kind == "panic":
            return ctx.panic()
        if kind == "retx":
            return self.ex(e[1], env, ctx, lambda t, a: ctx.ret(self.coerce(t, a, ctx.ret_ty)))
        if kind == "not":
            t, a = self.pure(e[1], env, ctx)
            self.want(t, "bool", "!")
            return k("bool", "(negb %s)" % a)
        if kind == "bin":
            return self.binop(e, env, ctx, k)
        if kind == "slice":
            def with_s(ts, s):
                if not is_textual(ts):
                    raise Untranslatable("a slice of a " + tyname(ts))

                def with_a(a):
                    def with_b(b):
                        t = self.tmp("t")
                        op = "rs_slice_from %s %s" % (s, a) if b is None else "rs_slice %s %s %s" % (s, a, b)
                        return self.bind_opt(op, t, k("text", t), ctx)
                    if e[3] is None:
                        return with_b(None)
                    return self.ex(e[3], env, ctx, lambda tb, b: with_b(self.want(tb, "nat", "a slice bound") and b))
                if e[2] is None:
                    return with_a("0")
                return self.ex(e[2], env, ctx, lambda ta, a: with_a(self.want(ta, "nat", "a slice bound") and a))
            return self.ex(e[1], env, ctx, with_s)
        if kind == "index":
            def with_c(tc, c):
                if tc != "caps":
                    raise Untranslatable("indexing of a " + tyname(tc))

                def with_i(ti, i):
                    self.want(ti, "nat", "an index")
                    t = self.tmp("t")
                    return self.bind_opt("rx_caps_index %s %s" % (c, i), t, k("text", t), ctx)
                return self.ex(e[2], env, ctx, with_i)
            return self.ex(e[1], env, ctx, with_c)
        if kind == "block":
            return self.seq(e[1], e[2], env, ctx, None, lambda t, a, en: k(t, a))
        if kind == "if":
            if e[3] is None:
                raise Untranslatable("if-expression without else")

            def with_c(t, c):
                self.want(t, "bool", "a condition")
                try:
                    ta, a = self.pure(e[2], env, ctx)
                    tb, b = self.pure(e[3], env, ctx)
                    return k(unify(ta, tb), "(if %s then %s else %s)" % (c, a, b))
                except Untranslatable:
                    pass
                kv = lambda t, a, en: k(t, a)   # noqa: E731
                return "(if %s\n then %s\n else %s)" % (c, self.seq(e[2][1], e[2][2], env, ctx, None, kv),
                                                        self.seq(e[3][1], e[3][2], env, ctx, None, kv))
            return self.ex(e[1], env, ctx, with_c)
        if kind == "iflet":
            if e[4] is None:
                raise Untranslatable("if-let expression without else")
            kv = lambda t, a, en: k(t, a)   # noqa: E731
            return self.iflet(e, env, ctx, lambda en: self.seq(e[3][1], e[3][2], en, ctx, None, kv),
                              lambda: self.seq(e[4][1], e[4][2], env, ctx, None, kv))
        if kind == "match":
            return self.match(e, env, ctx, k)
        if kind == "closure":
            raise Untranslatable("closure outside an iterator adaptor / replace_all / map_or")
        if kind == "mcall":
            return self.mcall(e, env, ctx, k)
        raise Untranslatable("expression " + kind)

    def want(self, t, expected, what):
        if t != expected:
            raise Untranslatable("%s on / of a %s (expected %s)" % (what, tyname(t), expected))
        return True

    def coerce(self, t, a, ret):
        unify(t, ret)
        return a

    def binop(self, e, env, ctx, k):
        op = e[1]
        if op in ("&&", "||"):
            ta, a = self.pure(e[2], env, ctx)
            tb, b = self.pure(e[3], env, ctx)
            self.want(ta, "bool", op)
            self.want(tb, "bool", op)
            return k("bool", "(%s %s %s)" % (a, op, b))

        def second(ta, a):
            def done(tb, b):
                if op in ("==", "!="):
                    t = unify(ta, tb)
                    if t == "nat":
                        c = "(Nat.eqb %s %s)" % (a, b)
                    elif t == "text":
                        c = "(rs_eq %s %s)" % (a, b)
                    else:
                        raise Untranslatable("comparison of %s with %s" % (tyname(ta), tyname(tb)))
                    return k("bool", "(negb %s)" % c if op == "!=" else c)
                self.want(ta, "nat", op)
                self.want(tb, "nat", op)
                if op == "+":
                    return k("nat", "(%s + %s)" % (a, b))
                if op == "-":
                    n = self.tmp("n")
                    return self.bind_opt("rs_usize_sub %s %s" % (a, b), n, k("nat", n), ctx)
                c = {"<=": "(Nat.leb %s %s)" % (a, b), "<": "(Nat.ltb %s %s)" % (a, b),
                     ">=": "(Nat.leb %s %s)" % (b, a), ">": "(Nat.ltb %s %s)" % (b, a)}[op]
                return k("bool", c)
            return self.ex(e[3], env, ctx, done)
        return self.ex(e[2], env, ctx, second)

    def call(self, e, env, ctx, k):
        name, args = e[1], e[2]
        if name in R.IDENTITY_CTORS and len(args) == 1:
            return self.ex(args[0], env, ctx, k)
        if name in ("Regex::new", "regex::Regex::new") and len(args) == 1:
            if args[0][0] in ("raw", "str"):
                return k(("rxlit", args[0][1]), None)
            t, a = self.pure(args[0], env, ctx)
            if not is_textual(t):
                raise Untranslatable("Regex::new of a " + tyname(t))
            return k("rxdyn", a)
        if name == "Vec::new" and not args:
            return k(("vec", None), "[]")
        if name == "HashMap::new" and not args:
            return k(("hm", None), "hm_new")
        if name in self.translated:
            ptys, rty = self.translated[name]
            if len(ptys) != len(args):
                raise Untranslatable("call of %s with %d arguments" % (name, len(args)))
            if ctx.kind != "fres":
                raise Untranslatable("call of %s inside a loop / closure" % name)
            terms = []
            for pt, arg in zip(ptys, args):
                t, a = self.pure(arg, env, ctx)
                unify(t, pt)
                terms.append(a)
            if name not in self.calls:
                self.calls.append(name)
            callee = "(gen_%s_r %s)" % (name, " ".join(terms))
            r = self.tmp("r")
            rest = k(rty, r)
            if rest == "(FRet %s)" % r:
                return callee               # a tail call
            return "(f_bind %s (fun %s =>\n %s))" % (callee, r, rest)
        raise Untranslatable("call of " + name)

    # ---- patterns
    def pat_binder(self, p, t, env):
        """(Coq pattern, env extended) for a pattern over a value of type t that cannot fail"""
        if p[0] == "pvar":
            env[p[1]] = (t, False)
            return "v_" + p[1]
        if p[0] == "pwild":
            return "_"
        if p[0] == "ptuple":
            if not (isinstance(t, tuple) and t[0] == "tuple" and len(t[1]) == len(p[1])):
                raise Untranslatable("tuple pattern over a " + tyname(t))
            if len(p[1]) != 2:
                raise Untranslatable("tuple pattern of %d components" % len(p[1]))
            return "(%s, %s)" % (self.pat_binder(p[1][0], t[1][0], env), self.pat_binder(p[1][1], t[1][1], env))
        raise Untranslatable("refutable pattern where a binder is expected")

    def fun_binder(self, p, t, env):
        b = self.pat_binder(p, t, env)
        return "'" + b if b.startswith("(") else b

    def iflet(self, e, env, ctx, kthen, kelse):
        """if let PAT = scrutinee { kthen(env') } else { kelse() }"""
        pat = e[1]

        def on(t, a):
            if t == "rxdyn":
                if pat[0] != "pok":
                    raise Untranslatable("`if let` on Regex::new(..) with a pattern other than Ok(..)")
                if ctx.kind != "fres":
                    raise Untranslatable("Regex::new at run time inside a loop / closure")
                env2 = dict(env)
                b = self.pat_binder(pat[1], "regex", env2)
                return "(rx_new_result %s\n (fun %s => %s)\n %s)" % (a, b, kthen(env2), kelse())
            if isinstance(t, tuple) and t[0] == "opt":
                if pat[0] != "psome":
                    raise Untranslatable("`if let` on an Option with a pattern other than Some(..)")
                env2 = dict(env)
                b = self.pat_binder(pat[1], t[1], env2)
                return "(match %s with\n | Some %s => %s\n | None => %s end)" % (a, b, kthen(env2), kelse())
            raise Untranslatable("`if let` on a " + tyname(t))
        return self.ex(e[2], env, ctx, on)

    def match(self, e, env, ctx, k):
        arms = e[2]

        def arm_term(body, en):
            if body[0] == "block":
                return self.seq(body[1], body[2], en, ctx, None, lambda t, a, en2: k(t, a))
            return self.ex(body, en, ctx, k)

        def on(t, a):
            if t == "rxdyn":
                if len(arms) != 2 or arms[0][0][0] != "pok" or arms[1][0][0] != "perr" or arms[1][0][1][0] != "pwild":
                    raise Untranslatable("match on Regex::new(..) other than { Ok(x) => .., Err(_) => .. }")
                if ctx.kind != "fres":
                    raise Untranslatable("Regex::new at run time inside a loop / closure")
                env2 = dict(env)
                b = self.pat_binder(arms[0][0][1], "regex", env2)
                return "(rx_new_result %s\n (fun %s => %s)\n %s)" % (a, b, arm_term(arms[0][1], env2), arm_term(arms[1][1], env))
            if isinstance(t, tuple) and t[0] == "opt":
                if len(arms) != 2 or arms[0][0][0] != "psome" or arms[1][0][0] not in ("pnone", "pwild"):
                    raise Untranslatable("match on an Option other than { Some(x) => .., None => .. }")
                env2 = dict(env)
                b = self.pat_binder(arms[0][0][1], t[1], env2)
                return "(match %s with\n | Some %s => %s\n | None => %s end)" % (a, b, arm_term(arms[0][1], env2),
                                                                              arm_term(arms[1][1], env))
            raise Untranslatable("match on a " + tyname(t))
        return self.ex(e[1], env, ctx, on)

    # ---- closures
    def pure_closure(self, c, ptys, env, ctx):
        """(result type, `fun .. => ..`) for a closure whose body needs no binding"""
        ps, body = c[1], c[2]
        if len(ps) != len(ptys):
            raise Untranslatable("closure with %d parameters" % len(ps))
        env2 = dict(env)
        for p, t in zip(ps, ptys):
            env2[p] = (t, False)
        if body[0] == "block":
            if body[1] or body[2] is None:
                raise Untranslatable("closure with statements where a plain function is expected")
            body = body[2]
        t, b = self.pure(body, env2, ctx)
        return t, "(fun %s => %s)" % (" ".join("v_" + p for p in ps), b)

    def opt_closure(self, c, ptys, env):
        """(result type, `fun .. => option ..`) for a closure without captured mutation that can panic"""
        ps, body = c[1], c[2]
        if len(ps) != len(ptys):
            raise Untranslatable("closure with %d parameters" % len(ps))
        env2 = dict(env)
        for p, t in zip(ps, ptys):
            env2[p] = (t, False)
        if body[0] != "block":
            body = ("block", [], body)
        if mutated(body, env):
            raise Untranslatable("closure that mutates a captured local in an iterator adaptor")
        octx = Ctx("opt", None)
        hold = []

        def kv(t, a, en):
            hold.append(t)
            return "(Some %s)" % a
        term = self.seq(body[1], body[2], env2, octx, None, kv)
        if not hold:
            raise Untranslatable("closure without a value")
        t = hold[0]
        for x in hold[1:]:
            t = unify(t, x)
        return t, "(fun %s => %s)" % (" ".join("v_" + p for p in ps), term)

    # ---- method calls
    def mcall(self, e, env, ctx, k):
        recv, name, args = e[1], e[2], e[3]

        def on(t, a):
            if name in IDENTITY_METHODS and not args and is_textual(t):
                return k("text", a)
            # ---- Regex::new(..)
            if isinstance(t, tuple) and t[0] == "rxlit":
                if name == "unwrap" and not args:
                    return k("regex", self.regex_literal(t[1]))
                raise Untranslatable(".%s on Regex::new(<literal>)" % name)
            if t == "rxdyn":
                if name == "unwrap" and not args:
                    if ctx.kind != "fres":
                        raise Untranslatable("Regex::new at run time inside a loop / closure")
                    re = self.tmp("re")
                    return "(rx_new_unwrap %s (fun %s =>\n %s))" % (a, re, k("regex", re))
                raise Untranslatable(".%s on Regex::new(..)" % name)
            # ---- strings
            if is_textual(t):
                if not args and name == "as_str":
                    return k("text", a)
                if not args and name == "is_empty":
                    return k("bool", "(rs_is_empty %s)" % a)
                if not args and name == "len":
                    return k("nat", "(rs_len %s)" % a)
                if name == "contains" and len(args) == 1 and args[0][0] == "str":
                    if args[0][1] == "":
                        raise Untranslatable("contains of the empty string")
                    return k("bool", "(rs_contains_str %s %s)" % (a, R.coq_text(args[0][1])))
                if name == "replace" and len(args) == 2 and args[0][0] == "str" and args[1][0] == "str":
                    if args[0][1] == "":
                        raise Untranslatable("str::replace of the empty string")
                    return k("text", "(rs_str_replace %s %s %s)" % (a, R.coq_text(args[0][1]), R.coq_text(args[1][1])))
                if name == "find" and len(args) == 1 and args[0][0] == "chr":
                    return k(("opt", "nat"), "(rs_find_char %s %s)" % (R.coq_char(args[0][1]), a))
            # ---- a compiled expression
            if t == "regex":
                if name == "is_match" and len(args) == 1:
                    return self.ex(args[0], env, ctx, lambda th, h: k("bool", "(rx_is_match %s %s)" % (a, self.txt(th, h, name))))
                if name == "find_iter" and len(args) == 1:
                    return self.ex(args[0], env, ctx, lambda th, h: k(("iter", "match"),
                                   "(rx_find_iter %s %s)" % (a, self.txt(th, h, name))))
                if name == "captures" and len(args) == 1:
                    return self.ex(args[0], env, ctx, lambda th, h: k(("opt", "caps"),
                                   "(rx_captures %s %s)" % (a, self.txt(th, h, name))))
                if name == "replace_all" and len(args) == 2 and args[1][0] == "str":
                    tpl = R.template_to_coq(args[1][1])
                    return self.ex(args[0], env, ctx, lambda th, h: k("text",
                                   "(rx_replace_all %s %s %s)" % (a, self.txt(th, h, name), tpl)))
                if name == "replace_all" and len(args) == 2 and args[1][0] == "closure":
                    return self.ex(args[0], env, ctx, lambda th, h: self.replace_with(a, self.txt(th, h, name), args[1], env, ctx, k))
            if t == "match" and name == "as_str" and not args:
                return k("text", "(rx_as_str %s)" % a)
            # ---- Captures
            if t == "caps":
                if name == "get" and len(args) == 1:
                    return self.ex(args[0], env, ctx, lambda ti, i: k(("opt", "gmatch"),
                                   "(rx_caps_get %s %s)" % (a, self.want(ti, "nat", "get") and i)))
                if name == "iter" and not args:
                    return k(("iter", ("opt", "gmatch")), "(rx_caps_iter %s)" % a)
                if name == "len" and not args:
                    return k("nat", "(rx_caps_len %s)" % a)
            # ---- Option
            if isinstance(t, tuple) and t[0] == "opt":
                if name == "unwrap" and not args:
                    u = self.tmp("u")
                    return self.bind_opt(a, u, k(t[1], u), ctx)
                if name == "map_or" and len(args) == 2 and args[1][0] == "closure":
                    td, d = self.pure(args[0], env, ctx)
                    tb, f = self.pure_closure(args[1], [t[1]], env, ctx)
                    return k(unify(td, tb), "(rs_map_or %s %s %s)" % (a, d, f))
            # ---- Vec / iterators
            if isinstance(t, tuple) and t[0] in ("vec", "iter"):
                if name in ("iter", "into_iter", "collect") and not args:
                    return k(("iter" if name != "collect" else "vec", t[1]), a)
                if name == "len" and not args and t[0] == "vec":
                    return k("nat", "(rs_vec_len %s)" % a)
                if name == "is_empty" and not args and t[0] == "vec":
                    return k("bool", "(rs_vec_is_empty %s)" % a)
                if name == "enumerate" and not args:
                    return k(("iter", ("tuple", ["nat", t[1]])), "(rs_enumerate %s)" % a)
                if name == "skip" and len(args) == 1 and args[0][0] == "int":
                    return k(("iter", t[1]), "(rs_iter_skip %d %s)" % (args[0][1], a))
                if name == "zip" and len(args) == 1:
                    tb, b = self.pure(args[0], env, ctx)
                    if not (isinstance(tb, tuple) and tb[0] in ("vec", "iter")):
                        raise Untranslatable("zip with a " + tyname(tb))
                    return k(("iter", ("tuple", [t[1], tb[1]])), "(rs_iter_zip %s %s)" % (a, b))
                if name == "map" and len(args) == 1 and args[0][0] == "closure":
                    try:
                        tb, f = self.pure_closure(args[0], [t[1]], env, ctx)
                        return k(("iter", tb), "(rs_iter_map %s %s)" % (f, a))
                    except Untranslatable:
                        pass
                    tb, f = self.opt_closure(args[0], [t[1]], env)
                    lst = self.tmp("l")
                    return self.bind_opt("rs_iter_map_opt %s %s" % (f, a), lst, k(("iter", tb), lst), ctx)
            # ---- HashMap
            if isinstance(t, tuple) and t[0] == "hm" and name == "get" and len(args) == 1:
                tk, kk = self.pure(args[0], env, ctx)
                if not is_textual(tk):
                    raise Untranslatable("HashMap key of type " + tyname(tk))
                return k(("opt", t[1]), "(hm_get %s %s)" % (a, kk))
            raise Untranslatable("method .%s with %d argument(s) on a %s" % (name, len(args), tyname(t)))
        return self.ex(recv, env, ctx, on)

    def txt(self, t, a, what):
        if not is_textual(t):
            raise Untranslatable("%s of a %s" % (what, tyname(t)))
        return a

    def state_of(self, names, env):
        """(Coq term / pattern for the tuple of the carried locals, its type)"""
        if not names:
            return "tt", "_", "unit"
        if len(names) == 1:
            return "v_" + names[0], "v_" + names[0], env[names[0]][0]
        if len(names) == 2:
            t = "(v_%s, v_%s)" % tuple(names)
            return t, "'" + t, ("tuple", [env[n][0] for n in names])
        raise Untranslatable("more than two mutated locals")

    def replace_with(self, re, h, c, env, ctx, k):
        """RE.replace_all(h, |caps| { .. }) with a closure that mutates captured locals"""
        ps, body = c[1], c[2]
        if len(ps) != 1:
            raise Untranslatable("replacer closure with %d parameters" % len(ps))
        if body[0] != "block":
            body = ("block", [], body)
        carried = mutated(body, env)
        for v in carried:
            if not env[v][1]:
                raise Untranslatable("mutation of %s, which is not a `let mut` local" % v)
        env2 = dict(env)
        env2[ps[0]] = ("caps", False)
        octx = Ctx("opt", None)
        final_env = {}

        def kv(t, a, en):
            if not is_textual(t):
                raise Untranslatable("replacer closure returning a " + tyname(t))
            final_env.update(en)
            return "(Some (%s, %s))" % (a, self.state_of(carried, en)[0])
        term = self.seq(body[1], body[2], env2, octx, None, kv)
        st_term, st_pat, _ = self.state_of(carried, env)
        st_pat = st_pat[1:] if st_pat.startswith("'") else st_pat
        t = self.tmp("t")
        env3 = dict(env)
        for v in carried:
            env3[v] = (final_env.get(v, env[v])[0], True)
        self.env_after = env3
        binder = "(fun v_%s %s => %s)" % (ps[0], self.state_of(carried, env)[1], term)
        return "(match rx_replace_all_with %s %s\n %s\n %s with\n | Some (%s, %s) => %s\n | None => %s end)" % (
            re, h, binder, st_term, t, st_pat, self.with_env(env3, lambda: k("text", t)), ctx.panic())

    def with_env(self, env, thunk):
        """the continuation of an operation that refined the types of mutated locals"""
        self.pending_env = env
        try:
            return thunk()
        finally:
            self.pending_env = None

    # ----------------------------------------------------------------- statements
    def seq(self, stmts, final, env, ctx, kend, kval):
        """kend(env): the block ran to its end without a value;  kval(type, term, env): its value"""
        if getattr(self, "pending_env", None) is not None:
            # types of `let mut` locals refined inside a closure
            for v, tv in self.pending_env.items():
                if v in env and env[v][0] != tv[0]:
                    env = dict(env)
                    env[v] = tv
            self.pending_env = None
        if not stmts:
            if final is None:
                if kend is None:
                    raise Untranslatable("a block without a value where a value is needed")
                return kend(env)
            return self.final_expr(final, env, ctx, kend, kval)
        st, rest = stmts[0], stmts[1:]
        nxt = lambda en: self.seq(rest, final, en, ctx, kend, kval)    # noqa: E731
        if st[0] == "let":
            def bind(t, a):
                if t == "rxdyn" or (isinstance(t, tuple) and t[0] == "rxlit"):
                    raise Untranslatable("a Result<Regex, _> bound to a local")
                env2 = dict(env)
                if getattr(self, "pending_env", None) is not None:
                    env2.update({v: tv for v, tv in self.pending_env.items() if v in env2})
                    self.pending_env = None
                env2[st[1]] = (t, st[2])
                return "(let v_%s := %s in\n %s)" % (st[1], a, nxt(env2))
            return self.ex(st[3], env, ctx, bind)
        if st[0] == "assign":
            if st[1] not in env or not env[st[1]][1]:
                raise Untranslatable("assignment to %s, which is not a `let mut` local" % st[1])

            def rebind(t, a):
                env2 = dict(env)
                if getattr(self, "pending_env", None) is not None:
                    env2.update({v: tv for v, tv in self.pending_env.items() if v in env2})
                    self.pending_env = None
                env2[st[1]] = (unify(t, env[st[1]][0]), True)
                return "(let v_%s := %s in\n %s)" % (st[1], a, nxt(env2))
            return self.ex(st[2], env, ctx, rebind)
        if st[0] == "ret":
            if rest or final is not None:
                raise Untranslatable("code after return")
            if st[1] is None:
                raise Untranslatable("return without a value")
            return self.ex(st[1], env, ctx, lambda t, a: ctx.ret(self.coerce(t, a, ctx.ret_ty)))
        if st[0] == "for":
            return self.for_loop(st, env, ctx, nxt)
        if st[0] == "expr":
            return self.stmt_expr(st[1], env, ctx, nxt)
        raise Untranslatable("statement " + st[0])

    def final_expr(self, e, env, ctx, kend, kval):
        """the last expression of a block"""
        if kval is None:
            # a block in statement position: its last expression is a statement too
            return self.stmt_expr(e, env, ctx, kend)
        if e[0] == "if" and e[3] is not None:
            return self.ex(e[1], env, ctx, lambda t, c: self.want(t, "bool", "a condition") and
                           "(if %s\n then %s\n else %s)" % (c, self.seq(e[2][1], e[2][2], env, ctx, kend, kval),
                                                           self.seq(e[3][1], e[3][2], env, ctx, kend, kval)))
        if e[0] == "iflet" and e[4] is not None:
            return self.iflet(e, env, ctx, lambda en: self.seq(e[3][1], e[3][2], en, ctx, kend, kval),
                              lambda: self.seq(e[4][1], e[4][2], env, ctx, kend, kval))
        if e[0] in ("if", "iflet"):
            # without else: a statement; the block has no value
            return self.stmt_expr(e, env, ctx, kend)
        return self.ex(e, env, ctx, lambda t, a: kval(t, a, env))

    def stmt_expr(self, e, env, ctx, nxt):
        """an expression in statement position; nxt(env) = what follows"""
        if nxt is None:
            raise Untranslatable("a statement where a value is needed")
        if e[0] == "mcall" and e[1][0] == "var" and e[2] in ("push", "insert"):
            v = e[1][1]
            if v not in env or not env[v][1]:
                raise Untranslatable("%s on %s, which is not a `let mut` local" % (e[2], v))
            tv = env[v][0]
            if e[2] == "push" and len(e[3]) == 1 and isinstance(tv, tuple) and tv[0] == "vec":
                def pushed(t, a):
                    env2 = dict(env)
                    env2[v] = (("vec", unify(tv[1], "text" if is_textual(t) else t)), True)
                    return "(let v_%s := rs_push v_%s %s in\n %s)" % (v, v, a, nxt(env2))
                return self.ex(e[3][0], env, ctx, pushed)
            if e[2] == "insert" and len(e[3]) == 2 and isinstance(tv, tuple) and tv[0] == "hm":
                tk, kk = self.pure(e[3][0], env, ctx)
                if not is_textual(tk):
                    raise Untranslatable("HashMap key of type " + tyname(tk))

                def inserted(t, a):
                    env2 = dict(env)
                    env2[v] = (("hm", unify(tv[1], "text" if is_textual(t) else t)), True)
                    return "(let v_%s := hm_insert v_%s %s %s in\n %s)" % (v, v, kk, a, nxt(env2))
                return self.ex(e[3][1], env, ctx, inserted)
            raise Untranslatable(".%s on a %s" % (e[2], tyname(tv)))
        if e[0] == "panic":
            return ctx.panic()
        if e[0] == "if":
            def with_c(t, c):
                self.want(t, "bool", "a condition")
                th = self.seq(e[2][1], e[2][2], env, ctx, nxt, None)
                el = nxt(env) if e[3] is None else self.seq(e[3][1], e[3][2], env, ctx, nxt, None)
                return "(if %s\n then %s\n else %s)" % (c, th, el)
            return self.ex(e[1], env, ctx, with_c)
        if e[0] == "iflet":
            return self.iflet(e, env, ctx, lambda en: self.seq(e[3][1], e[3][2], en, ctx, nxt, None),
                              lambda: nxt(env) if e[4] is None else self.seq(e[4][1], e[4][2], env, ctx, nxt, None))
        raise Untranslatable("expression statement without effect")

    def for_loop(self, st, env, ctx, nxt):
        pat, it, body = st[1], st[2], st[3]
        carried = mutated(body, env)
        for v in carried:
            if not env[v][1]:
                raise Untranslatable("mutation of %s, which is not a `let mut` local" % v)

        def with_iter(t, a):
            if not (isinstance(t, tuple) and t[0] in ("iter", "vec")):
                raise Untranslatable("for over a " + tyname(t))
            env2 = dict(env)
            binder = self.fun_binder(pat, t[1], env2)
            st_term, st_pat, st_ty = self.state_of(carried, env)
            lctx = Ctx("flow", ctx.ret_ty)
            b = self.seq(body[1], body[2], env2, lctx, lambda en: "(LNext %s)" % self.state_of(carried, en)[0], None)
            # the types of the carried locals may have been refined in the body
            env3 = dict(env)
            for v in carried:
                env3[v] = (env[v][0], True)
            done_pat = st_pat[1:] if st_pat.startswith("'") else st_pat
            if ctx.kind == "fres":
                ann = "fres (%s)" % coq_type(ctx.ret_ty)
            elif ctx.kind == "flow":
                ann = None
            else:
                raise Untranslatable("a loop inside a closure")
            return "(match rs_for (fun %s %s =>\n %s)\n %s %s%s with\n | Done %s => %s\n | Returned ret_ => %s\n | Panicked => %s end)" % (
                binder, st_pat if st_pat != "_" else "(_ : unit)", b, a, st_term,
                " return " + ann if ann else "", done_pat, nxt(env3), ctx.ret("ret_"), ctx.panic())
        return self.ex(it, env, ctx, with_iter)


def mutated(blk, env):
    """the locals of `env` a block mutates (assignment, .push, .insert), in order of first mutation"""
    out, declared = [], set()

    def walk(x):
        if isinstance(x, tuple):
            if x and x[0] == "let":
                walk(x[3])
                declared.add(x[1])
                return
            if x and x[0] == "assign" and x[1] in env and x[1] not in declared and x[1] not in out:
                out.append(x[1])
            if x and x[0] == "mcall" and x[2] in ("push", "insert") and x[1][0] == "var":
                v = x[1][1]
                if v in env and v not in declared and v not in out:
                    out.append(v)
            for y in x:
                walk(y)
        elif isinstance(x, list):
            for y in x:
                walk(y)
    walk(blk)
    return out


def simp_ty(s):
    import re
    return re.sub(r"\((\w+)\)", r"\1", s)


def translate_fn(items, name, statics, translated, literals):
    generics, params, ret, body = items.fns[name]
    env, binders = {}, []
    for p, ty in params:
        if p is None:
            raise Untranslatable("parameter pattern " + ty)
        t = R.rust_type(ty, generics)
        if t != "text":
            raise Untranslatable("parameter of type " + ty)
        env[p] = (t, False)
        binders.append("(v_%s : text)" % p)
    rt = R.rust_type(ret, generics)
    p = FP(body)
    blk = p.block()
    if p.peek()[0] != "eof":
        raise Untranslatable("trailing tokens after the body")
    em = Emit(name, statics, translated, literals)
    ctx = Ctx("fres", rt)
    term = em.seq(blk[1], blk[2], env, ctx, None, lambda t, a, en: "(FRet %s)" % em.coerce(t, a, rt))
    cty = simp_ty(coq_type(rt))
    args = " ".join("v_" + p for p, _ in params)
    txt = "Definition gen_%s_r %s : fres %s :=\n %s.\n" % (name, " ".join(binders), cty, term)
    txt += "Definition gen_%s %s : option %s := fres_opt (gen_%s_r %s).\n" % (name, " ".join(binders), cty, name, args)
    return txt, em.calls, cty


def comment_safe(s):
    return R.comment_safe(s)


def generate():
    out = ["(* GENERATED on every run by tools/rs2coq.py (part 16: tools/rs2coq_fmap.py) from /repo/src/model/function_map.rs:",
           "   the statics MAT_B, MAT_P; regex_match, key_match2, key_match3, key_match4, key_match5, key_get2, key_get3,",
           "   COMPLETELY: the text handed to Regex::new at run time is compiled by Gen/RegexSyntax.v rx_compile - do not edit.",
           "   gen_<f>_r : .. -> fres R   FRet v = the function returns v; FPanic = it panics (`unwrap` of a refused pattern,",
           "   `panic!`, a slice out of range); FOutside = the pattern handed to Regex::new is outside the restated syntax.",
           "   gen_<f> = fres_opt (gen_<f>_r ..) : option R.  Regex LITERALS are parsed into Gen/Regex.v's AST by the translator",
           "   (gen_fmap_literals lists them with their text, for the check against rx_parse in PinChecks/PcFmapGen.v). *)",
           "From CV Require Import Model.Base Gen.RustStr Gen.RustVec Gen.RustIter Gen.Regex Gen.RegexRt Gen.RegexSyntax Gen.FmapRt.", ""]
    ok = True
    src = pins.read(FMAP)
    items = None
    try:
        if not src:
            raise Untranslatable("cannot read " + FMAP)
        items = R.Items(src)
    except Exception as ex:   # noqa
        ok = False
        out.append("(* %s could not be read: %s *)" % (FMAP, comment_safe(str(ex))))
    literals = []
    statics = {}
    # every `static NAME: Lazy<Regex>` of the file
    for name in (sorted(items.statics) if items is not None else ()):
        cname = "gen_fm_" + name.lower()
        try:
            lit = R.static_regex(items, name)
            term = R.regex_to_coq(lit)
            out.append("(* %s = %s *)" % (name, comment_safe(lit)))
            out.append("Definition %s : regex :=\n %s.\n" % (cname, term))
            literals.append((cname, lit, None))
            statics[name] = cname
        except Exception as ex:   # noqa
            # a static of another kind: using it is Untranslatable (it is not in `statics`)
            out.append("(* static %s is not translated: %s *)" % (name, comment_safe(str(ex))))
    translated = {}
    for name, ty, n in FUNCS:
        translated[name] = (["text"] * n, ty)
    done, texts, failed = {}, {}, {}
    if items is not None:
        for name, ty, n in FUNCS:
            try:
                if name not in items.fns:
                    raise Untranslatable("fn %s not found" % name)
                if len(items.fns[name][1]) != n:
                    raise Untranslatable("fn %s has %d parameters, the obligations expect %d" % (name, len(items.fns[name][1]), n))
                lits = []
                txt, calls, cty = translate_fn(items, name, statics, translated, lits)
                if cty != ty:
                    raise Untranslatable("translation of type fres %s, the obligations expect fres %s" % (cty, ty))
                done[name] = (txt, calls, lits)
            except Exception as ex:   # noqa
                failed[name] = str(ex)
    # definitions in dependency order (a callee before its callers); a cycle is Untranslatable
    emitted = []

    def emit(name, stack=()):
        if name in emitted:
            return
        if name in stack:
            failed[name] = "recursive call chain " + " -> ".join(stack + (name,))
            return
        if name in done:
            for c in done[name][1]:
                emit(c, stack + (name,))
            if any(c in failed for c in done[name][1]):
                failed[name] = "calls %s, whose translation failed" % ", ".join(c for c in done[name][1] if c in failed)
        emitted.append(name)
    for name, ty, n in FUNCS:
        emit(name)
    for name in emitted:
        ty, n = [(t, k) for f, t, k in FUNCS if f == name][0]
        if name in failed or name not in done:
            ok = False
            out.append("(* translation of %s failed: %s *)" % (name, comment_safe(failed.get(name, "no items"))))
            bs = " ".join("(_ : text)" for _ in range(n))
            out.append("Definition gen_%s_r %s : fres %s := FOutside." % (name, bs, ty))
            out.append("Definition gen_%s %s : option %s := None.\n" % (name, bs, ty))
            continue
        txt, calls, lits = done[name]
        for cname, lit, term in lits:
            out.append("(* %s *)" % comment_safe(lit))
            out.append("Definition %s : regex :=\n %s.\n" % (cname, term))
            literals.append((cname, lit, term))
        out.append(txt)
    out.append("(* the regex literals of the file, with the AST the translator gave them *)")
    out.append("Definition gen_fmap_literals : list (text * regex) :=\n [%s].\n" % ";\n  ".join(
        "(%s, %s)" % (R.coq_text(lit), cname) for cname, lit, _ in literals))
    out.append("Definition gen_fmap_translated : bool := %s." % ("true" if ok else "false"))
    return "\n".join(out) + "\n", ok


def main(dst_dir):
    dst = os.path.join(dst_dir, "FmapGen.v")
    txt, ok = generate()
    old = open(dst, encoding="utf-8").read() if os.path.exists(dst) else None
    if old != txt:
        open(dst, "w", encoding="utf-8").write(txt)
        print("rs2coq_fmap: rewritten", dst, "(translated)" if ok else "(UNTRANSLATABLE)")
    else:
        print("rs2coq_fmap: unchanged", dst)
    return ok


if __name__ == "__main__":
    main(sys.argv[1] if len(sys.argv) > 1 else "/verif/coq/Gen")
