#!/usr/bin/env python3
"""Robustness / sensitivity demonstration for the string-function part of rs2coq.

For every variant: copy /repo/src to a scratch repo, replace the body of one of
the four functions, run rs2coq on the scratch repo, rebuild
PinChecks/PcStrFnGen.vo and compare the outcome with the expectation
(meaning-preserving rewrite -> proofs pass; change of meaning / outside the
subset -> a proof fails).  The pristine generated files are restored at the end.

usage: python3 tools/rs2coq_demo.py   (development tool; rebuilds coq/PinChecks/PcStrFnGen.vo per variant and restores the generated files)
"""
import os
import re
import shutil
import subprocess
import sys

HERE = os.path.dirname(os.path.abspath(__file__))
ROOT = os.path.dirname(HERE)
COQ = os.path.join(ROOT, "coq")
import tempfile  # noqa: E402
SCRATCH = tempfile.mkdtemp(prefix="rs2coq_demo_")     # outside /repo and /verif; removed at the end
sys.path.insert(0, HERE)
import pins  # noqa: E402

FILES = {"key_match": "src/model/function_map.rs", "key_get": "src/model/function_map.rs",
         "csv_field": "src/util.rs", "remove_comment": "src/util.rs"}

# (label, expectation, function, new body)
VARIANTS = [
    ("P0 unmodified sources", "pass", None, None),
    ("P1 csv_field: negated condition, branches swapped", "pass", "csv_field", """{
    if !value.contains(',') {
        Cow::Borrowed(value)
    } else {
        Cow::Owned(format!("\\"{}\\"", value))
    }
}"""),
    ("P2 key_match: let-bound prefix, == with swapped operands, negated starts_with", "pass", "key_match", """{
    if let Some(star_at) = key2.find('*') {
        let pre = &key2[..star_at];
        if !key1.starts_with(pre) { false } else { true }
    } else {
        key2 == key1
    }
}"""),
    ("P3 key_get: early returns in both branches of the emptiness test", "pass", "key_get", """{
    if let Some(i) = key2.find('*') {
        if let Some(rest) = key1.strip_prefix(&key2[..i]) {
            if rest.is_empty() {
                return "".to_owned();
            } else {
                return rest.to_owned();
            }
        }
    }
    String::from("")
}"""),
    ("P4 key_get: one expression, NO emptiness test (an empty rest is \"\" anyway)", "pass", "key_get", """{
    if let Some(i) = key2.find('*') {
        if let Some(rest) = key1.strip_prefix(&key2[..i]) {
            rest.to_string()
        } else {
            "".to_string()
        }
    } else {
        "".to_string()
    }
}"""),
    ("P5 remove_comment: early return instead of the shadowing let", "pass", "remove_comment", """{
    if let Some(idx) = s.find('#') {
        return s[..idx].trim_end().to_string();
    }
    s.trim_end().to_owned()
}"""),
    ("P6 key_match: early return, != in the tail", "pass", "key_match", """{
    if let Some(i) = key2.find('*') {
        return key1.starts_with(&key2[..i]);
    }
    !(key1 != key2)
}"""),
    ("P7 key_match: extra (redundant) fast path, else-if chain", "pass", "key_match", """{
    // both empty: no star, equal
    if key1.is_empty() && key2.is_empty() {
        true
    } else if let Some(i) = key2.find('*') {
        key1.starts_with(&key2[..i])
    } else {
        key1 == key2
    }
}"""),
    ("N1 key_match: looks for '/' instead of '*'", "fail", "key_match", """{
    if let Some(i) = key2.find('/') {
        key1.starts_with(&key2[..i])
    } else {
        key1 == key2
    }
}"""),
    ("N2 key_match: prefix test also without a star", "fail", "key_match", """{
    if let Some(i) = key2.find('*') {
        key1.starts_with(&key2[..i])
    } else {
        key1.starts_with(key2)
    }
}"""),
    ("N3 key_get: emptiness test inverted", "fail", "key_get", """{
    if let Some(i) = key2.find('*') {
        if let Some(rest) = key1.strip_prefix(&key2[..i]) {
            if rest.is_empty() {
                return rest.to_string();
            }
        }
    }
    "".to_string()
}"""),
    ("N4 key_get: returns key1 instead of the rest", "fail", "key_get", """{
    if let Some(i) = key2.find('*') {
        if let Some(rest) = key1.strip_prefix(&key2[..i]) {
            if !rest.is_empty() {
                return key1.to_string();
            }
        }
    }
    "".to_string()
}"""),
    ("N5 key_get: star searched in key1, key2 sliced with it (may panic; rejected by the translator)", "fail", "key_get", """{
    if let Some(i) = key1.find('*') {
        if let Some(rest) = key1.strip_prefix(&key2[..i]) {
            if !rest.is_empty() {
                return rest.to_string();
            }
        }
    }
    "".to_string()
}"""),
    ("N6 csv_field: quotes on ';' instead of ','", "fail", "csv_field", """{
    if value.contains(';') {
        Cow::Owned(format!("\\"{}\\"", value))
    } else {
        Cow::Borrowed(value)
    }
}"""),
    ("N7 csv_field: single quotes", "fail", "csv_field", """{
    if value.contains(',') {
        Cow::Owned(format!("'{}'", value))
    } else {
        Cow::Borrowed(value)
    }
}"""),
    ("N8 remove_comment: no trim_end", "fail", "remove_comment", """{
    let s = if let Some(idx) = s.find('#') {
        &s[..idx]
    } else {
        s
    };

    s.to_owned()
}"""),
    ("N9 remove_comment: trims only when there is a comment", "fail", "remove_comment", """{
    if let Some(idx) = s.find('#') {
        return s[..idx].trim_end().to_string();
    }
    s.to_owned()
}"""),
    ("N10 key_match: outside the subset (len / index arithmetic)", "fail", "key_match", """{
    if let Some(i) = key2.find('*') {
        key1.len() >= i && key1[..i] == key2[..i]
    } else {
        key1 == key2
    }
}"""),
]


def run(cmd, **kw):
    return subprocess.run(cmd, stdout=subprocess.PIPE, stderr=subprocess.STDOUT, text=True, **kw)


def main():
    only = sys.argv[1:]
    results = []
    for label, expect, fn, body in VARIANTS:
        if only and not any(label.startswith(o) for o in only):
            continue
        shutil.rmtree(SCRATCH, ignore_errors=True)
        shutil.copytree("/repo/src", os.path.join(SCRATCH, "src"))
        if fn is not None:
            path = os.path.join(SCRATCH, FILES[fn])
            src = open(path, encoding="utf-8").read()
            old = pins.fn_body(src, r"pub\s+fn\s+%s\s*\(" % fn)
            assert old is not None and src.count(old) == 1, fn
            open(path, "w", encoding="utf-8").write(src.replace(old, body))
        env = dict(os.environ, VERIF_REPO=SCRATCH)
        tr = run([sys.executable, os.path.join(HERE, "rs2coq.py"), os.path.join(COQ, "Gen", "EffectorGen.v")], env=env)
        mk = run(["timeout", "600", "make", "PinChecks/PcStrFnGen.vo"], cwd=COQ)
        ok = mk.returncode == 0
        why = ""
        if not ok:
            m = re.search(r'File "\./PinChecks/PcStrFnGen\.v", line (\d+).*?\n(Error:.*?)(?:\n\n|\nmake)', mk.stdout, re.S)
            if m:
                line = open(os.path.join(COQ, "PinChecks", "PcStrFnGen.v")).read().split("\n")[int(m.group(1)) - 1]
                thm = ""
                lines = open(os.path.join(COQ, "PinChecks", "PcStrFnGen.v")).read().split("\n")
                for k in range(int(m.group(1)) - 1, -1, -1):
                    mm = re.match(r"(?:Theorem|Lemma)\s+(\w+)", lines[k])
                    if mm:
                        thm = mm.group(1)
                        break
                why = "%s: %s" % (thm, " ".join(m.group(2).split())[:90])
            else:
                why = mk.stdout.strip().split("\n")[-3:]
        gen = open(os.path.join(COQ, "Gen", "StrFnGen.v")).read()
        note = ""
        fm = re.search(r"\(\* translation of (\w+) failed: (.*?) \*\)", gen, re.S)
        if fm:
            note = " [untranslatable %s: %s]" % (fm.group(1), fm.group(2))
        verdict = "pass" if ok else "fail"
        flag = "as expected" if verdict == expect else "UNEXPECTED"
        print("%-4s (%s) %s%s%s" % (verdict.upper(), flag, label, (" -> " + str(why)) if why else "", note))
        sys.stdout.flush()
        results.append(verdict == expect)
    # restore the pristine generated files
    env = dict(os.environ, VERIF_REPO="/repo")
    run([sys.executable, os.path.join(HERE, "rs2coq.py"), os.path.join(COQ, "Gen", "EffectorGen.v")], env=env)
    mk = run(["timeout", "600", "make", "PinChecks/PcStrFnGen.vo", "PinChecks/PcEffectorGen.vo"], cwd=COQ)
    print("restored from /repo:", "build ok" if mk.returncode == 0 else "BUILD FAILED")
    shutil.rmtree(SCRATCH, ignore_errors=True)
    print("%d/%d variants behaved as expected" % (sum(results), len(results)))
    return 0 if all(results) and mk.returncode == 0 else 1


if __name__ == "__main__":
    sys.exit(main())
