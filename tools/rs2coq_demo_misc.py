#!/usr/bin/env python3
"""Robustness / sensitivity demonstration for rs2coq part 22 (tools/rs2coq_misc.py: src/adapter/null_adapter.rs,
FunctionMap::default / add_function / get_functions, Enforcer::register_function, Assertion::default / get_policy /
get_mut_policy, src/frontend.rs -> coq/Gen/MiscGen.v; obligations in coq/PinChecks/PcMiscGen.v).

For every variant: copy /repo/src to a scratch repo (tempfile.mkdtemp()), edit one or more functions, run
rs2coq_misc on the scratch repo (only Gen/MiscGen.v is regenerated: the other generated files are those of
/repo), rebuild PinChecks/PcMiscGen.vo and compare the outcome with the expectation (meaning-preserving rewrite
-> the translation succeeds and all proofs pass; change of meaning / outside the subset -> a proof or the
translation fails).  The pristine Gen/MiscGen.v is restored at the end, PcMiscGen / Properties/MiscGen /
Linking2 rebuilt, and the scratch directory removed.

usage: python3 tools/rs2coq_demo_misc.py [label-prefix ..]
"""
import os
import re
import shutil
import subprocess
import sys
import tempfile

HERE = os.path.dirname(os.path.abspath(__file__))
ROOT = os.path.dirname(HERE)
COQ = os.path.join(ROOT, "coq")
SCRATCH = tempfile.mkdtemp(prefix="rs2coq_demo_misc_")     # outside /repo and /verif; removed at the end
sys.path.insert(0, HERE)
import pins  # noqa: E402

NA = "src/adapter/null_adapter.rs"
FM = "src/model/function_map.rs"
EN = "src/enforcer.rs"
AS = "src/model/assertion.rs"
FE = "src/frontend.rs"
NULL = r"impl\s+Adapter\s+for\s+NullAdapter\b"
FM_DEFAULT = r"impl\s+Default\s+for\s+FunctionMap\b"
FM_IMPL = r"impl\s+FunctionMap\s*(?=\{)"
ENF = r"impl\s+Enforcer\s*(?=\{)"
AS_DEFAULT = r"impl\s+Default\s+for\s+Assertion\b"
AS_IMPL = r"impl\s+Assertion\s*(?=\{)"


def arms(order, body="{\n                engine.register_fn(key, func);\n            }"):
    return "{\n        match f {\n%s        }\n    }" % "".join(
        "            OperatorFunction::Arg%d(func) => %s\n" % (n, body) for n in order)


def entry(name, n, call):
    ps = ", ".join("s%d" % i for i in range(1, n + 1))
    return "        map.insert(String::from(\"%s\"), OperatorFunction::Arg%d(|%s| %s.into()));\n" % (name, n, ps, call)


DEFAULT_REWRITTEN = "{\n        let mut map = HashMap::new();\n" + "".join([
    entry("keyMatch", 2, "key_match(&s1, &s2)"), entry("keyGet", 2, "key_get(&s1, &s2)"),
    entry("keyMatch2", 2, "key_match2(&s1, &s2)"), entry("keyGet2", 3, "key_get2(&s1, &s2, &s3)"),
    entry("keyMatch3", 2, "key_match3(&s1, &s2)"), entry("keyGet3", 3, "key_get3(&s1, &s2, &s3)"),
    entry("keyMatch4", 2, "key_match4(&s1, &s2)"), entry("keyMatch5", 2, "key_match5(&s1, &s2)"),
    entry("regexMatch", 2, "regex_match(&s1, &s2)")]) + "        FunctionMap { fm: map }\n    }"

FRONTEND_REWRITTEN = """{
    let model = e.get_model();
    let mut p_rules = Vec::new();
    match model.get_model().get("p") {
        Some(assertions) => {
            for (ptype, _) in assertions.iter() {
                for rules in model.get_policy("p", ptype) {
                    let mut rule = Vec::new();
                    rule.push(ptype.to_string());
                    rule.extend(rules);
                    p_rules.push(rule);
                }
            }
        }
        None => {}
    }
    let mut g_rules = Vec::new();
    if let Some(assertions) = model.get_model().get("g") {
        for (ptype, _assertion) in assertions {
            let policies = model.get_policy("g", ptype);
            for rules in policies {
                let mut rule = vec![ptype.to_string()];
                rule.extend(rules);
                g_rules.push(rule);
            }
        }
    }
    let mut m = HashMap::new();
    m.insert("m", serde_json::Value::from(model.to_text()));
    m.insert("p", serde_json::Value::from(p_rules));
    m.insert("g", serde_json::Value::from(g_rules));
    Ok(serde_json::to_string(&m)?)
}"""

# an edit: ("body", file, impl header | None, fn, new body) | ("sub", file, impl header | None, fn, old, new)
#        | ("text", file, old, new)
# (label, expectation, [edits])
VARIANTS = [
    ("R0 unmodified sources", "pass", []),
    ("R1 NullAdapter::add_policy: the answer in a local, explicit return", "pass", [
        ("body", NA, NULL, "add_policy", "{\n        let done = true;\n        return Ok(done);\n    }")]),
    ("R2 NullAdapter::is_filtered: !true; load_policy: the unit in a local", "pass", [
        ("body", NA, NULL, "is_filtered", "{\n        !true\n    }"),
        ("body", NA, NULL, "load_policy", "{\n        let nothing = ();\n        Ok(nothing)\n    }")]),
    ("R3 add_function: the key in a local, the replaced value explicitly dropped", "pass", [
        ("body", FM, FM_IMPL, "add_function",
         "{\n        let name = fname.to_string();\n        let _ = self.fm.insert(name, f);\n    }")]),
    ("R4 register_function: the arms in the reverse order", "pass", [
        ("body", EN, ENF, "register_function", arms([6, 5, 4, 3, 2, 1, 0]))]),
    ("R5 FunctionMap::default: another local, String::from, closures without annotations, FunctionMap { fm: map }", "pass", [
        ("body", FM, FM_DEFAULT, "default", DEFAULT_REWRITTEN)]),
    ("R6 get_functions: the iterator in a local; get_policy through a local reference", "pass", [
        ("body", FM, FM_IMPL, "get_functions", "{\n        let it = self.fm.iter();\n        it\n    }"),
        ("body", AS, AS_IMPL, "get_policy", "{\n        let p = &self.policy;\n        p\n    }")]),
    ("R7 Assertion::default: Self { .. } with the fields in another order", "pass", [
        ("body", AS, AS_DEFAULT, "default", """{
        Self {
            rm: Arc::new(RwLock::new(DefaultRoleManager::new(0))),
            policy: LinkedHashSet::new(),
            tokens: Vec::new(),
            value: String::new(),
            key: String::from(""),
        }
    }""")]),
    ("R8 frontend: match for if let, Vec::new + push for vec![..], the map built at the end, Ok(e?)", "pass", [
        ("body", FE, None, "casbin_js_get_permission_for_user", FRONTEND_REWRITTEN)]),
    # ---- changes of meaning
    ("N1 NullAdapter::add_policy answers Ok(false)", "fail", [
        ("sub", NA, NULL, "add_policy", "Ok(true)", "Ok(false)")]),
    ("N2 NullAdapter::is_filtered answers true", "fail", [
        ("sub", NA, NULL, "is_filtered", "false", "true")]),
    ("N3 FunctionMap::default without keyMatch3", "fail", [
        ("sub", FM, FM_DEFAULT, "default", """fm.insert(
            "keyMatch3".to_owned(),
            OperatorFunction::Arg2(
                |s1: ImmutableString, s2: ImmutableString| {
                    key_match3(&s1, &s2).into()
                },
            ),
        );""", "")]),
    ("N4 FunctionMap::default: regexMatch registered under the name \"regexmatch\"", "fail", [
        ("sub", FM, FM_DEFAULT, "default", '"regexMatch".to_owned()', '"regexmatch".to_owned()')]),
    ("N5 add_function does not replace an existing name (entry().or_insert())", "fail", [
        ("body", FM, FM_IMPL, "add_function", "{\n        self.fm.entry(fname.to_owned()).or_insert(f);\n    }")]),
    ("N6 add_function returns early when the name is taken", "fail", [
        ("body", FM, FM_IMPL, "add_function",
         "{\n        if self.fm.contains_key(fname) {\n            return;\n        }\n        self.fm.insert(fname.to_owned(), f);\n    }")]),
    ("N7 register_function: Arg2 functions are filed under another name", "fail", [
        ("sub", EN, ENF, "register_function", """OperatorFunction::Arg2(func) => {
                engine.register_fn(key, func);""", """OperatorFunction::Arg2(func) => {
                engine.register_fn("other", func);""")]),
    ("N8 register_function: Arg3 functions are not registered", "fail", [
        ("sub", EN, ENF, "register_function", """OperatorFunction::Arg3(func) => {
                engine.register_fn(key, func);""", """OperatorFunction::Arg3(_func) => {""")]),
    ("N9 FunctionMap::default: keyGet2 calls key_get3", "fail", [
        ("sub", FM, FM_DEFAULT, "default", "key_get2(&s1, &s2, &s3).into()", "key_get3(&s1, &s2, &s3).into()")]),
    ("N10 FunctionMap::default: keyMatch with its arguments swapped", "fail", [
        ("sub", FM, FM_DEFAULT, "default", "key_match(&s1, &s2).into()", "key_match(&s2, &s1).into()")]),
    ("N11 FunctionMap::default: keyMatch5 registered before keyMatch4 (the order of fm_default)", "fail", [
        ("sub", FM, FM_DEFAULT, "default", '"keyMatch4".to_owned()', '"keyMatch5".to_owned()'),
        ("sub", FM, FM_DEFAULT, "default", "key_match4(&s1, &s2).into()", "key_match5(&s1, &s2).into()"),
    ]),
    ("N12 NullAdapter::remove_filtered_policy answers Ok(false); clear_policy unchanged", "fail", [
        ("sub", NA, NULL, "remove_filtered_policy", "Ok(true)", "Ok(false)")]),
    ("N13 Assertion::default: a role manager of depth 10", "fail", [
        ("sub", AS, AS_DEFAULT, "default", "DefaultRoleManager::new(0)", "DefaultRoleManager::new(10)")]),
    ("N14 get_functions of an emptied map (get_policy returns the tokens: rejected by rustc, not tried)", "fail", [
        ("body", FM, FM_IMPL, "get_functions", "{\n        let empty: &HashMap<String, OperatorFunction> = &HashMap::new();\n        empty.iter()\n    }")]),
    ("N15 frontend: the policy type is not put in front of a rule", "fail", [
        ("sub", FE, None, "casbin_js_get_permission_for_user", "let mut rule = vec![ptype.to_string()];\n                rule.extend(rules);\n                p_rules.push(rule);",
         "let mut rule = vec![];\n                rule.extend(rules);\n                p_rules.push(rule);")]),
    ("N16 frontend: the grouping rules go under \"p\" too", "fail", [
        ("sub", FE, None, "casbin_js_get_permission_for_user", 'm.insert("g", serde_json::Value::from(g_rules));',
         'm.insert("p", serde_json::Value::from(g_rules));')]),
    # ---- outside the subset: the translation fails cleanly
    ("U1 NullAdapter gets a field (the model's ANull has no state)", "fail", [
        ("text", NA, "pub struct NullAdapter;", "pub struct NullAdapter {\n    pub calls: usize,\n}")]),
    ("U2 add_function keeps a log in a field the record does not have", "fail", [
        ("body", FM, FM_IMPL, "add_function", "{\n        self.log.push(fname.to_owned());\n        self.fm.insert(fname.to_owned(), f);\n    }")]),
    ("U3 enum OperatorFunction gets a variant Arg7", "fail", [
        ("text", FM, "    Arg0(fn() -> Dynamic),", "    Arg7(fn(ImmutableString, ImmutableString, ImmutableString, ImmutableString, ImmutableString, ImmutableString, ImmutableString) -> Dynamic),\n    Arg0(fn() -> Dynamic),")]),
    ("U4 a closure of FunctionMap::default captures a local", "fail", [
        ("sub", FM, FM_DEFAULT, "default", "key_match(&s1, &s2).into()", "key_match(&s1, &prefix).into()")]),
    ("U5 src/model/mod.rs gets a function with a body", "fail", [
        ("text", "src/model/mod.rs", "pub trait Model: Send + Sync {", "pub fn sections() -> usize {\n    5\n}\n\npub trait Model: Send + Sync {")]),
]


def ws_regex(old):
    return r"\s*".join(re.escape(t) for t in re.findall(r"\w+|[^\w\s]", old))


def apply_edit(root, ed):
    if ed[0] == "text":
        path = os.path.join(root, ed[1])
        src = open(path, encoding="utf-8").read()
        assert src.count(ed[2]) == 1, (ed[1], ed[2][:40], src.count(ed[2]))
        open(path, "w", encoding="utf-8").write(src.replace(ed[2], ed[3]))
        return
    kind, rel, hdr, fn = ed[0], ed[1], ed[2], ed[3]
    path = os.path.join(root, rel)
    src = open(path, encoding="utf-8").read()
    start = 0
    if hdr is not None:
        m = re.search(hdr, src)
        assert m, hdr
        start = m.end()
    m = re.search(r"fn\s+%s\b" % fn, src[start:])
    assert m, fn
    j = start + m.end()
    depth = 0
    while True:
        c = src[j]
        if c in "(<":
            depth += 1
        elif c in ")>" and src[j - 1] != "-":
            depth -= 1
        elif c == "{" and depth == 0:
            break
        j += 1
    old = pins.balanced(src, j)
    assert old is not None, fn
    if kind == "body":
        new = ed[4]
    else:
        rx = ws_regex(ed[4])
        assert len(re.findall(rx, old)) == 1, (fn, ed[4][:40], len(re.findall(rx, old)))
        new = re.sub(rx, lambda _m: ed[5], old)
    assert new != old, fn
    open(path, "w", encoding="utf-8").write(src[:j] + new + src[j + len(old):])


def run(cmd, **kw):
    return subprocess.run(cmd, stdout=subprocess.PIPE, stderr=subprocess.STDOUT, text=True, **kw)


def first_error(out):
    m = re.search(r'File "\./([\w/]+\.v)", line (\d+).*?\n(Error:.*?)(?:\nmake|\Z)', out, re.S)
    if not m:
        return " ".join(out.strip().split("\n")[-3:])[:200]
    vfile = m.group(1)
    lines = open(os.path.join(COQ, vfile)).read().split("\n")
    thm = ""
    for k in range(int(m.group(2)) - 1, -1, -1):
        mm = re.match(r"\s*(?:Theorem|Lemma|Example|Corollary|Definition)\s+(\w+)", lines[k])
        if mm:
            thm = mm.group(1)
            break
    msg = " ".join(m.group(3).split())
    return "%s: %s: %s" % (vfile.split("/")[-1], thm, msg[:140])


def regenerate(repo):
    env = dict(os.environ, VERIF_REPO=repo)
    return run([sys.executable, os.path.join(HERE, "rs2coq_misc.py"), os.path.join(COQ, "Gen")], env=env)


def main():
    only = sys.argv[1:]
    results = []
    try:
        for label, expect, edits in VARIANTS:
            if only and not any(label.startswith(o) for o in only):
                continue
            shutil.rmtree(SCRATCH, ignore_errors=True)
            shutil.copytree("/repo/src", os.path.join(SCRATCH, "src"))
            for ed in edits:
                apply_edit(SCRATCH, ed)
            regenerate(SCRATCH)
            mk = run(["timeout", "900", "make", "PinChecks/PcMiscGen.vo"], cwd=COQ)
            ok = mk.returncode == 0
            gen = open(os.path.join(COQ, "Gen", "MiscGen.v")).read()
            translated = "gen_misc_translated : bool := true" in gen
            why = "" if ok else first_error(mk.stdout)
            note = ""
            fm = re.search(r"\(\* (translation of .*? failed: .*?|trait Adapter .*?|enum OperatorFunction could not.*?|src/\S+ (?:also )?defines .*?) \*\)", gen, re.S)
            if fm and not translated:
                note = " [untranslatable: %s]" % " ".join(fm.group(1).split())[:170]
            verdict = "pass" if ok and translated else "fail"
            flag = "as expected" if verdict == expect else "UNEXPECTED"
            print("%-4s (%s) %s%s%s" % (verdict.upper(), flag, label, (" -> " + why) if why else "", note))
            sys.stdout.flush()
            results.append(verdict == expect)
    finally:
        # restore the pristine generated file
        regenerate("/repo")
        mk = run(["timeout", "1800", "make", "PinChecks/PcMiscGen.vo", "Properties/MiscGen.vo", "Proofs/Linking2P.vo",
                  "Properties/Linking2.vo"], cwd=COQ)
        print("restored from /repo:", "build ok" if mk.returncode == 0 else "BUILD FAILED")
        shutil.rmtree(SCRATCH, ignore_errors=True)
    print("%d/%d variants behaved as expected" % (sum(results), len(results)))
    return 0 if all(results) and mk.returncode == 0 else 1


if __name__ == "__main__":
    sys.exit(main())
