#!/usr/bin/env python3
"""Robustness / sensitivity demonstration for part 17 of rs2coq (the write side and the file reading of the file
adapter, save / clear of the string adapter, the incremental stubs: tools/rs2coq_fsave.py, coq/Gen/FsaveGen.v,
coq/PinChecks/PcFsaveGen.v).

For every variant: copy /repo/src to a scratch repo (tempfile.mkdtemp()), replace the body of one or two methods of
file_adapter.rs / string_adapter.rs, run the translator on the scratch repo, rebuild PinChecks/PcFsaveGen.vo and
compare the outcome with the expectation (meaning-preserving rewrite -> every proof passes unchanged; change of
meaning -> a proof or the translation fails).  For a failing variant that WAS translated, the translated functions
are run (vm_compute) on fixed models / files / fault scripts next to the hand-written specifications of
Proofs/FsaveP.v and the first input on which they differ is reported, so that a failed proof is seen to be a change
of meaning and not a weakness of the tactics.  The pristine generated file is restored at the end.

usage: python3 tools/rs2coq_demo_fsave.py [label-prefix ..]      e.g. `rs2coq_demo_fsave.py FP` for the rewrites only
"""
import os
import re
import shutil
import subprocess
import sys
import tempfile

HERE = os.path.dirname(os.path.abspath(__file__))
ROOT = os.path.dirname(HERE)
COQ = os.path.join(ROOT, "coq")
SCRATCH = tempfile.mkdtemp(prefix="rs2coq_demo_fsave_")     # outside /repo and /verif; removed at the end
sys.path.insert(0, HERE)
import pins  # noqa: E402

FA = "src/adapter/file_adapter.rs"
SA = "src/adapter/string_adapter.rs"
FILE_INHERENT = r"impl\s*<\s*P\s*>\s*FileAdapter\s*<\s*P\s*>"
FILE_IMPL = r"impl\s*<\s*P\s*>\s*Adapter\s+for\s+FileAdapter\s*<\s*P\s*>"
STR_IMPL = r"impl\s+Adapter\s+for\s+StringAdapter"

RENDER_FILE = """writeln!(
                    policies,
                    "{}, {}",
                    ptype,
                    rule.iter()
                        .map(|v| csv_field(v))
                        .collect::<Vec<_>>()
                        .join(",")
                )
                .map_err(|e| AdapterError(e.into()))?;"""

# (label, expectation, [(file, impl regex, function, new body | (old text, new text) applied to the old body)])
VARIANTS = [
    ("FP0 unmodified sources", "pass", []),
    ("FP1 save_policy_file: the tail is an if let Err / else expression (no early return), locals renamed, "
     "the temporary name built from a separate binding", "pass",
     [(FA, FILE_INHERENT, "save_policy_file", """{
        let target = self.file_path.as_ref().as_os_str();
        let mut beside = target.to_owned();
        beside.push(".tmp");

        let outcome: std::result::Result<(), ioError> = async {
            let mut out = file::create(&beside).await?;
            out.write_all(text.as_bytes()).await?;
            out.flush().await?;
            Ok(())
        }
        .await;

        if let Err(cause) = outcome {
            let _ = remove_file(&beside).await;
            Err(cause.into())
        } else {
            rename(&beside, &self.file_path).await?;
            Ok(())
        }
    }""")]),
    ("FP2 FileAdapter::save_policy: `if let Some(..) = get(\"p\") {..} else { return Err(..) }` instead of "
     "ok_or_else + ?, the joined fields bound by a let, buffer renamed", "pass",
     [(FA, FILE_IMPL, "save_policy", """{
        if self.file_path.as_ref().as_os_str().is_empty() {
            return Err(ioError::new(
                ioErrorKind::Other,
                "save policy failed, file path is empty",
            )
            .into());
        }

        let mut out = String::new();
        if let Some(p_map) = m.get_model().get("p") {
            for (key, assertion) in p_map {
                for fields in assertion.get_policy() {
                    let joined = fields.iter().map(|x| csv_field(x)).collect::<Vec<_>>().join(",");
                    writeln!(out, "{}, {}", key, joined).map_err(|err| AdapterError(err.into()))?;
                }
            }
        } else {
            return Err(ModelError::P("Missing policy definition in conf file".to_owned()).into());
        }

        if let Some(g_map) = m.get_model().get("g") {
            for (key, assertion) in g_map {
                for fields in assertion.get_policy() {
                    let joined = fields.iter().map(|x| csv_field(x)).collect::<Vec<_>>().join(",");
                    writeln!(out, "{}, {}", key, joined).map_err(|err| AdapterError(err.into()))?;
                }
            }
        }

        self.save_policy_file(out).await?;
        Ok(())
    }""")]),
    ("FP3 the loaders: reader bound by a let, the flag updated by `left_out || is_filtered`, load_policy tests the "
     "result with if let Err instead of ?, load_filtered_policy binds the flag first", "pass",
     [(FA, FILE_INHERENT, "load_filtered_policy_file", """{
        let source = file::open(&self.file_path).await?;
        let reader = ioBufReader::new(source);
        let mut rest = reader.lines();

        let mut any_left_out = false;
        #[cfg(feature = "runtime-tokio")]
        while let Some(row) = rest.next_line().await? {
            let left_out = handler(row, m, &filter);
            any_left_out = left_out || any_left_out;
        }

        Ok(any_left_out)
    }"""),
      (FA, FILE_IMPL, "load_policy", """{
        let done = self.load_policy_file(m, load_policy_line).await;
        if let Err(e) = done {
            return Err(e);
        }
        self.is_filtered = false;
        Ok(())
    }"""),
      (FA, FILE_IMPL, "load_filtered_policy", """{
        let left_out = self
            .load_filtered_policy_file(m, f, load_filtered_policy_line)
            .await?;
        self.is_filtered = left_out;
        Ok(())
    }""")]),
    ("FP4 StringAdapter: clear_policy by assignment in the other order, save_policy with a renamed buffer and "
     "`return Ok(())`, a stub written with `return`", "pass",
     [(SA, STR_IMPL, "clear_policy", """{
        self.is_filtered = false;
        self.policy = String::new();
        Ok(())
    }"""),
      (SA, STR_IMPL, "save_policy", ("self.policy = policies;\n        Ok(())", "self.policy = policies;\n        return Ok(());")),
      (SA, STR_IMPL, "add_policy", ("Err(crate::Error::AdapterError(", "return Err(crate::Error::AdapterError("))]),
    ("FN1 (i) save_policy_file writes straight into the policy file (no temporary file, no rename)", "fail",
     [(FA, FILE_INHERENT, "save_policy_file", """{
        let mut file = file::create(&self.file_path).await?;
        file.write_all(text.as_bytes()).await?;
        file.flush().await?;
        Ok(())
    }""")]),
    ("FN2a (ii) the temporary file is not removed when writing failed", "fail",
     [(FA, FILE_INHERENT, "save_policy_file", ("let _ = remove_file(&tmp_path).await;", ""))]),
    ("FN2b (ii) the temporary file is opened, not created / truncated", "fail",
     [(FA, FILE_INHERENT, "save_policy_file", ("file::create(&tmp_path)", "file::open(&tmp_path)"))]),
    ("FN3 (iii) the rename happens before the write", "fail",
     [(FA, FILE_INHERENT, "save_policy_file", """{
        let mut tmp_path = self.file_path.as_ref().as_os_str().to_owned();
        tmp_path.push(".tmp");

        let written: std::result::Result<(), ioError> = async {
            let mut file = file::create(&tmp_path).await?;
            rename(&tmp_path, &self.file_path).await?;
            file.write_all(text.as_bytes()).await?;
            file.flush().await?;
            Ok(())
        }
        .await;

        if let Err(e) = written {
            let _ = remove_file(&tmp_path).await;
            return Err(e.into());
        }

        Ok(())
    }""")]),
    ("FN4 (iv) FileAdapter::save_policy writes the values without csv_field", "fail",
     [(FA, FILE_IMPL, "save_policy", (".map(|v| csv_field(v))", ".map(|v| v.to_string())"))]),
    ("FN5 (v) FileAdapter::save_policy writes the g rules before the p rules", "fail",
     [(FA, FILE_IMPL, "save_policy", "SWAP_PG")]),
    ("FN6a (vi) load_filtered_policy does not set is_filtered", "fail",
     [(FA, FILE_IMPL, "load_filtered_policy", """{
        let _left_out = self
            .load_filtered_policy_file(m, f, load_filtered_policy_line)
            .await?;
        Ok(())
    }""")]),
    ("FN6b (vi) load_policy does not reset is_filtered", "fail",
     [(FA, FILE_IMPL, "load_policy", ("self.is_filtered = false;", ""))]),
    ("FN6c (vi) load_policy resets is_filtered BEFORE loading (a failed load unmarks)", "fail",
     [(FA, FILE_IMPL, "load_policy", """{
        self.is_filtered = false;
        self.load_policy_file(m, load_policy_line).await?;
        Ok(())
    }""")]),
    ("FN7 (vii) StringAdapter::save_policy appends to the old text", "fail",
     [(SA, STR_IMPL, "save_policy", ("let mut policies = String::new();", "let mut policies = self.policy.clone();"))]),
    ("FN8a (viii) FileAdapter::add_policy returns Ok(false)", "fail",
     [(FA, FILE_IMPL, "add_policy", ("Ok(true)", "Ok(false)"))]),
    ("FN8b (viii) StringAdapter::remove_policy returns Ok(true)", "fail",
     [(SA, STR_IMPL, "remove_policy", """{
        Ok(true)
    }""")]),
    ("FN9 the temporary file is called path + \".new\"", "fail",
     [(FA, FILE_INHERENT, "save_policy_file", ('tmp_path.push(".tmp");', 'tmp_path.push(".new");'))]),
    ("FN10 the string adapter joins with \",\" (the file adapter's separator)", "fail",
     [(SA, STR_IMPL, "save_policy", ('.join(", ")', '.join(",")'))]),
    ("FN11 the flush is dropped (a late write error would be lost)", "fail",
     [(FA, FILE_INHERENT, "save_policy_file", ("file.flush().await?;", ""))]),
    ("FN12 load_policy_file stops reading at the first empty line (`break`)", "fail",
     [(FA, FILE_INHERENT, "load_policy_file", ("handler(line, m)\n        }", "if line.is_empty() {\n                break;\n            }\n            handler(line, m);\n        }"))]),
    ("FN13 clear_policy of the file adapter also resets is_filtered", "fail",
     [(FA, FILE_IMPL, "clear_policy", ("self.save_policy_file(String::new()).await?;", "self.save_policy_file(String::new()).await?;\n        self.is_filtered = false;"))]),
]


def run(cmd, **kw):
    return subprocess.run(cmd, stdout=subprocess.PIPE, stderr=subprocess.STDOUT, text=True, **kw)


# ---- concrete inputs on which a translated (but no longer proved) function is compared with its specification
WITNESS_V = r"""
From CV Require Import Model.Base Model.Csv Model.Enforce Model.Engine Model.FileSave Model.SpecC16.
From CV Require Import Gen.RustStr Gen.RustVec Gen.StrFnGen Gen.AdaptersPrims Gen.AdaptersGen Gen.FsRt Gen.FsaveGen.
From CV Require Import Proofs.BaseP Proofs.RustVecP Proofs.AdaptersP Proofs.FsaveP PinChecks.PcAdaptersGen.
Definition P : text := T "policy.csv".
Definition OLD : text := T "p, zed, data9, read" ++ [nl].
Definition FS : fsys := [(P, OLD); (tmp_of P, T "stale")].
Definition MD : model :=
  match gen_mem_load_policy (ex_lines ++ [[T "p"; T "p2"; T "x, y"; T "z"]]) false ex_store with Some ((_, _, md), _) => md | None => ex_store end.
Definition TXT : text := T "p, alice, data1, read" ++ [ascii_of_nat 13; nl] ++ T "# note" ++ [nl] ++ [nl] ++ T "g, alice, admin" ++ [nl] ++ T "p2, ""x, y"", z".
Definition kind {A} (r : res casbin_error A) : nat * option A :=
  match r with ROk a => (0, Some a) | RErr (ErrIo _) => (1, None) | RErr (ErrModel _) => (2, None) | RErr (ErrAdapter _) => (3, None) end.
Definition ow (w : world) := (content (w_fs w) P, content (w_fs w) (tmp_of P), w_ops w, w_dead w, w_script w).
Definition scripts : list (list fault) :=
  [[]; [FErr 3]; [FOk; FErr 9]; [FOk; FOk; FErr 0]; [FOk; FOk; FOk; FErr 0]; [FOk; FCrash 4]; [FOk; FErr 2; FErr 0]].
Definition mds (md : model) := (m_get_policy md (T "p") (T "p"), m_get_policy md (T "p") (T "p2"), m_get_policy md (T "g") (T "g")).
(* 1 save_policy_file *)
Eval vm_compute in (map (fun sc => option_map (fun x => (ow (fst x), kind (snd x))) (gen_save_policy_file P false (mk_world FS sc) (T "new text"))) scripts).
Eval vm_compute in (map (fun sc => option_map (fun x => (ow (fst x), kind (snd x))) (Some (save_spec P (mk_world FS sc) (T "new text")))) scripts).
(* 2 FileAdapter::save_policy *)
Eval vm_compute in (map (fun sc => option_map (fun x => (ow (snd (fst x)), snd (fst (fst (fst x))), kind (snd x))) (gen_file_save_policy P true MD (mk_world FS sc))) scripts).
Eval vm_compute in (map (fun sc => option_map (fun x => (ow (fst x), true, kind (snd x))) (Some (save_spec P (mk_world FS sc) (save_text_file MD)))) scripts).
(* 3 FileAdapter::clear_policy *)
Eval vm_compute in (map (fun sc => option_map (fun x => (ow (snd (fst x)), snd (fst (fst x)), kind (snd x))) (gen_file_clear_policy P true (mk_world FS sc))) scripts).
Eval vm_compute in (map (fun sc => option_map (fun x => (ow (fst x), true, kind (snd x))) (Some (save_spec P (mk_world FS sc) []))) scripts).
(* 4 FileAdapter::load_policy *)
Definition FSL : fsys := [(P, TXT)].
Eval vm_compute in (map (fun sc => option_map (fun x => (snd (fst (fst (fst x))), mds (snd (fst (fst x))), ow (snd (fst x)), kind (snd x))) (gen_file_load_policy P true ex_store (mk_world FSL sc))) scripts).
Eval vm_compute in (map (fun sc => option_map (fun x => (match snd x with ROk _ => false | RErr _ => true end, mds (fst (fst x)), ow (snd (fst x)), kind (snd x)))
  (load_spec (fun m l => Some (raw_step load_line m l)) P ex_store (mk_world FSL sc))) scripts).
(* 5 FileAdapter::load_filtered_policy *)
Eval vm_compute in (map (fun sc => option_map (fun x => (snd (fst (fst (fst x))), mds (snd (fst (fst x))), ow (snd (fst x)), kind (snd x))) (gen_file_load_filtered_policy P false ex_store (mk_world FSL sc) [T "bob"] [])) scripts).
Eval vm_compute in (map (fun sc => option_map (fun x => (match snd x with ROk _ => fst (fst (fst x)) | RErr _ => false end, mds (snd (fst (fst x))), ow (snd (fst x)), kind (snd x)))
  (load_spec (fun x l => Some (file_filtered_loop [T "bob"] [] x l)) P (false, ex_store) (mk_world FSL sc))) scripts).
(* 6 StringAdapter::save_policy / clear_policy *)
Eval vm_compute in (option_map (fun x => (fst (fst (fst x)), snd (fst (fst x)), kind (snd x))) (gen_str_save_policy (T "old text") true MD),
                    option_map (fun x => (fst (fst (fst x)), snd (fst (fst x)), kind (snd x))) (gen_str_save_policy (T "old text") true []),
                    option_map (fun x => (fst x, kind (snd x))) (gen_str_clear_policy (T "old text") true)).
Eval vm_compute in (Some (save_text_string MD, true, (0, Some tt)), Some (T "old text", true, (2, @None unit)), Some ((@nil ascii, false), (0, Some tt))).
(* 7 the incremental methods *)
Definition iv {A} (x : option ((A * bool) * res casbin_error bool)) := option_map (fun x => (snd (fst x), kind (snd x))) x.
Eval vm_compute in ([iv (gen_file_add_policy P true (T "p") (T "p") [T "a"]); iv (gen_file_add_policies P true (T "p") (T "p") [[T "a"]]);
                     iv (gen_file_remove_policy P true (T "p") (T "p") [T "a"]); iv (gen_file_remove_policies P true (T "p") (T "p") [[T "a"]]);
                     iv (gen_file_remove_filtered_policy P true (T "p") (T "p") 0 [T "a"])],
                    [iv (gen_str_add_policy P true (T "p") (T "p") [T "a"]); iv (gen_str_add_policies P true (T "p") (T "p") [[T "a"]]);
                     iv (gen_str_remove_policy P true (T "p") (T "p") [T "a"]); iv (gen_str_remove_policies P true (T "p") (T "p") [[T "a"]]);
                     iv (gen_str_remove_filtered_policy P true (T "p") (T "p") 0 [T "a"])]).
Eval vm_compute in (repeat (Some (true, (0, Some true))) 5, repeat (Some (true, (3, @None bool))) 5).
"""
WITNESS_NAMES = ["save_policy_file", "FileAdapter::save_policy", "FileAdapter::clear_policy", "FileAdapter::load_policy",
                 "FileAdapter::load_filtered_policy", "StringAdapter::save_policy / clear_policy", "the incremental methods"]
# (the calls of a save: create, write_all, flush, rename / remove_file; of a load: open, next_line, next_line, ..)
SCRIPT_NAMES = ["no fault", "the 1st call fails", "the 2nd call fails (a write: after 9 bytes)", "the 3rd call fails",
                "the 4th call fails", "killed during the 2nd call (a write: after 4 bytes)", "the 2nd and 3rd calls fail"]


def split_top(s):
    """the top-level `;`-separated items of a printed Coq list"""
    out, depth, cur = [], 0, ""
    for c in s:
        if c in "([":
            depth += 1
        elif c in ")]":
            depth -= 1
        if c == ";" and depth == 0:
            out.append(cur)
            cur = ""
        else:
            cur += c
    if cur.strip():
        out.append(cur)
    return [" ".join(x.split()) for x in out]


def witness():
    path = os.path.join(SCRATCH, "Witness.v")
    open(path, "w").write(WITNESS_V)
    r = run(["timeout", "600", "coqc", "-Q", ".", "CV", "-w", "-notation-overridden", path], cwd=COQ)
    vals = re.findall(r"^\s*=\s*(.*?)\n\s*:\s", r.stdout, re.S | re.M)
    if r.returncode != 0 or len(vals) != 2 * len(WITNESS_NAMES):
        return "the witness file did not run: " + " ".join(r.stdout.split())[:300]
    out = []
    for i, name in enumerate(WITNESS_NAMES):
        a, b = " ".join(vals[2 * i].split()), " ".join(vals[2 * i + 1].split())
        if a == b:
            continue
        where = ""
        if a.startswith("[") and b.startswith("["):
            xa, xb = split_top(a[1:-1]), split_top(b[1:-1])
            bad = [j for j in range(min(len(xa), len(xb))) if xa[j] != xb[j]]
            if bad and len(xa) == len(SCRIPT_NAMES):
                where = " under the script `%s`" % SCRIPT_NAMES[bad[0]]
        out.append("%s differs from its specification%s" % (name, where))
    return "; ".join(out) if out else "no difference on the fixed inputs"


def fn_span(src, impl, fn):
    start = re.search(impl, src).start()
    hdr = r"fn\s+%s\s*(?:<[^>]*>)?\s*\(" % fn
    old = pins.fn_body(src, hdr, start)
    assert old is not None and src.count(old) >= 1, fn
    return old, src.find(old, start)


def swap_pg(old):
    """the `if let Some(ast_map) = ..get("g") { .. }` block moved before the `for` loop over the p assertions"""
    i = old.index("for (ptype, ast) in ast_map {")
    j = old.index('if let Some(ast_map) = m.get_model().get("g")')
    k = old.index("self.save_policy_file(policies)")
    return old[:i] + old[j:k] + old[i:j] + old[k:]


def replace_body(rel, impl, fn, body):
    path = os.path.join(SCRATCH, rel)
    src = open(path, encoding="utf-8").read()
    old, at = fn_span(src, impl, fn)
    if body == "SWAP_PG":
        new = swap_pg(old)
    elif isinstance(body, tuple):
        a, b = body
        assert a in old, (fn, a)
        new = old.replace(a, b)
    else:
        new = body
    open(path, "w", encoding="utf-8").write(src[:at] + new + src[at + len(old):])


def regenerate(repo):
    env = dict(os.environ, VERIF_REPO=repo)
    return run([sys.executable, os.path.join(HERE, "rs2coq_fsave.py"), os.path.join(COQ, "Gen")], env=env)


def main():
    only = sys.argv[1:]
    results = []
    for label, expect, edits in VARIANTS:
        if only and not any(label.startswith(o) for o in only):
            continue
        shutil.rmtree(SCRATCH, ignore_errors=True)
        shutil.copytree("/repo/src", os.path.join(SCRATCH, "src"))
        for rel, impl, fn, body in edits:
            replace_body(rel, impl, fn, body)
        regenerate(SCRATCH)
        mk = run(["timeout", "1500", "make", "PinChecks/PcFsaveGen.vo"], cwd=COQ)
        ok = mk.returncode == 0
        why = ""
        if not ok:
            m = re.search(r'File "\./PinChecks/PcFsaveGen\.v", line (\d+).*?\n(Error:.*?)(?:\n\n|\nmake)', mk.stdout, re.S)
            if m:
                thm = ""
                lines = open(os.path.join(COQ, "PinChecks", "PcFsaveGen.v")).read().split("\n")
                for k in range(int(m.group(1)) - 1, -1, -1):
                    mm = re.match(r"(?:Theorem|Lemma|Example|Corollary)\s+(\w+)", lines[k])
                    if mm:
                        thm = mm.group(1)
                        break
                why = "%s: %s" % (thm, " ".join(m.group(2).split())[:90])
            else:
                why = " ".join(mk.stdout.strip().split("\n")[-3:])[:200]
        gen = open(os.path.join(COQ, "Gen", "FsaveGen.v")).read()
        note = ""
        fm = re.search(r"\(\* translation of (\w+) \((\w+)\) failed: (.*?) \*\)", gen, re.S)
        if fm:
            note = " [untranslatable %s: %s]" % (fm.group(1), " ".join(fm.group(3).split()))
        if not ok and not fm:
            note += " [witness: %s]" % witness()
        verdict = "pass" if ok else "fail"
        flag = "as expected" if verdict == expect else "UNEXPECTED"
        print("%-4s (%s) %s%s%s" % (verdict.upper(), flag, label, (" -> " + str(why)) if why else "", note))
        sys.stdout.flush()
        results.append(verdict == expect)
    # restore the pristine generated file
    regenerate("/repo")
    mk = run(["timeout", "1500", "make", "PinChecks/PcFsaveGen.vo", "Properties/FsaveGen.vo"], cwd=COQ)
    print("restored from /repo:", "build ok" if mk.returncode == 0 else "BUILD FAILED")
    shutil.rmtree(SCRATCH, ignore_errors=True)
    print("%d/%d variants behaved as expected" % (sum(results), len(results)))
    return 0 if all(results) and mk.returncode == 0 else 1


if __name__ == "__main__":
    sys.exit(main())
