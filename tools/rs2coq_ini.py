#!/usr/bin/env python3
"""rs2coq, part 12: the model-text reader - src/config.rs (Config::from_str, parse_buffer, add_config, get, get_str),
the loading half of src/model/default_model.rs (DefaultModel::from_str, load_section, load_assertion, get_key_suffix,
add_def; Assertion::default of src/model/assertion.rs) and Model::to_text -> coq/Gen/IniGen.v over the operations of
coq/Gen/IniRt.v (the TRUSTED restatement of the std / tokio / hashlink operations: Unicode-aware trims, byte slices
with their panics, split / splitn / replace, read_line on a cursor, HashMap / LinkedHashMap, `loop` / `while` with
fuel), coq/Gen/RustStr.v, RustVec.v, RustIter.v and the `hashmap` of Petgraph.v.  coq/PinChecks/PcIniGen.v proves the
translated functions equal to the hand model coq/Model/Ini.v.  Kept in its own module; rs2coq.py's main() calls
main() here.

Re-read from /repo (VERIF_REPO) on every run.  Everything is translated from the source text: the `use` declarations
(aliases such as `BufReader as ioBufReader`, resolved under the cfg features below), the constants, the three structs
(-> Records with one setter per field), `type AssertionMap`, and every covered `fn`.  cfg: features runtime-tokio,
incremental, watcher, cached ON; logging, explain, runtime-async-std OFF; not wasm32, not test.

Supported subset (anything else: Untranslatable -> `gen_ini_translated := false`, the failed functions become stubs)
  statements   let [mut] x [: T] = e;   place = e;   place += e;   e;   return [e];   break [e];   continue;
               loop { .. }   while c { .. }   for pat in e { .. }   if c { .. } [else ..]
               if let Some(x) = e { .. } [else ..]   let f = |x: T, y: &mut U| { .. };  (a local closure, inlined
               at its calls f(a, &mut b))   a final expression
  expressions  literals "str" r"raw" 'c' 123 true false (), variables, self.field, constants, e? (on a Result), e.await
               ! & &mut * == != < <= > >= + - && ||   v[i]   s[a..b] s[..b] (byte slices: a panic is None)
               Some(e) None Ok(e) Err(e) vec![] [e, ..] format!("..{}..", e..)   S { field: e, ..Default::default() }
               if / if let / match (on an Option, on a &str with string-literal arms and `_`) as values, { block }
               closures |x| e, |x| { e }  (arguments of adaptors);  String::from as the argument of map
  methods      str/String: trim trim_end trim_end_matches(closure) starts_with ends_with (char or &str) is_empty len
                 splitn(n, 'c') split('c') split("lit") to_lowercase push_str find contains('c' | &str) replace(a, b)
               u64: to_string;  Option: map and_then unwrap unwrap_or is_some
               Vec / iterators: map collect len is_empty iter
               HashMap<String, V>: entry(k).or_default() get get_mut(k) insert contains_key, `for (k, v) in &map`
                 (V = String; the iteration order is the parameter `ord` of the translated function)
               LinkedHashMap<String, V>: insert get get_mut values(), `for (k, v) in map` (insertion order)
               BufReader: read_line(&mut buf);   Regex::new(r"^([rp]\d*)_").unwrap().replace(s, "${1}.")
               clone to_owned to_string as_str as_ref as_bytes into iter into_iter collect  (identity)
  paths        String::new String::from char::is_whitespace char::to_string HashMap::new LinkedHashMap::new
               LinkedHashSet::new io::Error::new io::ErrorKind::Other ModelError::Other BufReader::new Cursor::new
               Arc::new RwLock::new DefaultRoleManager::new Default::default regex::Regex::new  (after alias resolution)
               util::remove_comment (= gen_remove_comment of part 2), util::escape_assertion (Model/PathMatch.v)

Translation as in part 11.  A function without `&mut`, `let mut`, loops, `?` or assignments is a Gallina EXPRESSION;
its type is `T`, or `option T` when some operation in it can panic.  Any other function is a term
`rs_fn (.. : flow unit R) : option R` in continuation-passing style: mutable locals, `self` of a `&mut self` method
and `&mut` parameters are Coq variables re-bound by every assignment / mutating call; the result of a `&mut self`
method is `(self, value)`.  A `&mut` borrow of a map entry (`entry(k).or_default()`, `get_mut(k)` matched against
`Some(x)`) is a local COPY that is written back to the map after every mutation.  `e?` is a match on the Result whose
`RErr` arm returns.  Loops carry the tuple of the variables they assign, in the order of their declaration (so that
renaming a local does not change the shape); a `loop` in tail position takes its value from `break v` (= return v).
A statement with several paths that fall through to what follows (if / if let without else, a call of a local
closure) binds what follows ONCE as a join point (`rs_join`).  `None` / `LPanic` = a panic (index out of range,
slice off a char boundary, usize underflow) or more than `fuel` iterations of a loop."""
import os
import re
import sys

sys.path.insert(0, os.path.dirname(os.path.abspath(__file__)))
import pins  # noqa: E402

FILES = {"config": "src/config.rs", "model": "src/model/default_model.rs", "assertion": "src/model/assertion.rs",
         "util": "src/util.rs"}
FEATURES = {"runtime-tokio": True, "incremental": True, "watcher": True, "cached": True,
            "logging": False, "explain": False, "runtime-async-std": False}


class Untranslatable(Exception):
    pass


# ====================================================================== lexer
TOK = re.compile(r"""\s*(?:(//[^\n]*)|(/\*.*?\*/)|(\#!?\[(?:[^\[\]]|\[[^\]]*\])*\])|(r\#*"|"(?:[^"\\]|\\.)*")|('(?:[^'\\]|\\.)')"""
                 r"""|('[A-Za-z_]\w*)|(\d+(?:_?(?:u|i)(?:8|16|32|64|128|size))?)"""
                 r"""|([A-Za-z_]\w*(?:::[A-Za-z_]\w*)*!?)|(::<)"""
                 r"""|(\|\||&&|==|!=|<=|>=|\|=|\+=|-=|=>|->|\.\.|[{}()\[\];=!&.,<>*+\-:?|]))""", re.S)


RAW = re.compile(r"""\s*r(\#*)"(.*?)"\1""", re.S)


def lex(src):
    out = []
    i = 0
    n = len(src)
    while i < n:
        if src[i:].strip() == "":
            break
        rm_ = RAW.match(src, i)
        if rm_:
            out.append(("rstr", rm_.group(2)))
            i = rm_.end()
            continue
        m = TOK.match(src, i)
        if not m:
            raise Untranslatable("cannot tokenise at: %r" % src[i:i + 30])
        i = m.end()
        if m.group(1) or m.group(2):
            continue
        if m.group(4) is not None and m.group(4).startswith("r"):
            raise Untranslatable("raw string literal")
        for k, kind in ((3, "attr"), (4, "str"), (5, "chr"), (6, "life"), (7, "int"), (8, "id"), (9, "turbo"), (10, "op")):
            if m.group(k) is not None:
                out.append((kind, m.group(k)))
                break
    return out


# ===================================================================== parser
# AST
#   block = ("block", [stmt], final-expression | None)
#   stmt  = ("let", pat, e) | ("expr", e) | ("assign", op, lhs, e) | ("ret", e | None) | ("break", e | None)
#         | ("continue",)
#   e     = ("lit", b) | ("int", n) | ("str", s) | ("chr", c) | ("unit",) | ("var", x) | ("path", p)
#         | ("call", callee, [e]) | ("mcall", recv, name, [e]) | ("field", e, f) | ("index", e, i)
#         | ("range", lo | None, hi | None) | ("not", e) | ("bin", op, a, b) | ("try", e)
#         | ("closure", [pat], body) | ("if", cond, block, block | None) | ("match", e, [(pat, e)]) | block
#         | ("struct", name, [(field, e)], base | None) | ("vec", [e]) | ("format", s, [e])
#         | ("loop", block) | ("while", e, block)
#   cond  = ("cond", e) | ("iflet", pat, e)
#   pat   = ("pvar", x, mutable) | ("pwild",) | ("pctor", path, [pat]) | ("ppath", path) | ("pstr", s)
KEYWORDS = ("let", "return", "else", "match", "while", "for", "loop", "mut", "fn", "move", "in", "if", "break", "continue")


class RP:
    def __init__(self, toks):
        self.t = toks
        self.i = 0

    def peek(self, k=0):
        return self.t[self.i + k] if self.i + k < len(self.t) else ("eof", "")

    def eat(self, val=None):
        tk = self.peek()
        if val is not None and tk[1] != val:
            raise Untranslatable("expected %r, found %r" % (val, tk[1]))
        if tk[0] == "eof":
            raise Untranslatable("unexpected end of the body")
        self.i += 1
        return tk

    def at(self, val):
        return self.peek()[1] == val and self.peek()[0] in ("op", "id")

    # ---- patterns
    def pattern(self):
        kind, v = self.peek()
        if (kind, v) == ("op", "&"):
            self.eat()
            return self.pattern()
        if kind == "str":
            self.eat()
            return ("pstr", pins.rust_unescape(v[1:-1]))
        if (kind, v) == ("op", "("):
            self.eat()
            subs = []
            while not self.at(")"):
                subs.append(self.pattern())
                if self.at(","):
                    self.eat()
            self.eat(")")
            return ("ptuple", subs)
        if (kind, v) == ("id", "mut"):
            self.eat()
            k2, x = self.eat()
            if k2 != "id" or "::" in x:
                raise Untranslatable("pattern mut " + x)
            return ("pvar", x, True)
        if (kind, v) == ("id", "_"):
            self.eat()
            return ("pwild",)
        if kind == "id" and not v.endswith("!"):
            self.eat()
            if self.at("("):
                self.eat()
                subs = []
                while not self.at(")"):
                    subs.append(self.pattern())
                    if self.at(","):
                        self.eat()
                self.eat(")")
                return ("pctor", v, subs)
            if "::" in v or v == "None":
                return ("ppath", v)
            return ("pvar", v, False)
        raise Untranslatable("pattern starting with %r" % v)

    # ---- expressions
    def expr(self, nostruct=False):
        """lowest precedence: a range  a..b  ..b  a.."""
        if self.peek() == ("op", ".."):
            self.eat()
            hi = None if self.range_end() else self.or_(nostruct)
            return ("range", None, hi)
        e = self.or_(nostruct)
        if self.peek() == ("op", ".."):
            self.eat()
            hi = None if self.range_end() else self.or_(nostruct)
            return ("range", e, hi)
        return e

    def range_end(self):
        return self.peek()[1] in ("]", ")", ";", ",", "}") and self.peek()[0] == "op"

    def or_(self, nostruct):
        e = self.and_(nostruct)
        while self.peek() == ("op", "||"):
            self.eat()
            e = ("bin", "||", e, self.and_(nostruct))
        return e

    def and_(self, nostruct):
        e = self.cmp(nostruct)
        while self.peek() == ("op", "&&"):
            self.eat()
            e = ("bin", "&&", e, self.cmp(nostruct))
        return e

    def cmp(self, nostruct):
        a = self.add(nostruct)
        if self.peek()[0] == "op" and self.peek()[1] in ("==", "!=", "<", "<=", ">", ">="):
            op = self.eat()[1]
            return ("bin", op, a, self.add(nostruct))
        return a

    def add(self, nostruct):
        a = self.unary(nostruct)
        while self.peek()[0] == "op" and self.peek()[1] in ("+", "-"):
            op = self.eat()[1]
            a = ("bin", op, a, self.unary(nostruct))
        return a

    def unary(self, nostruct):
        if self.peek() == ("op", "!"):
            self.eat()
            return ("not", self.unary(nostruct))
        if self.peek() == ("op", "&") or self.peek() == ("op", "&&"):          # a reference: identity
            self.eat()
            if self.peek() == ("id", "mut"):
                self.eat()
            return self.unary(nostruct)
        if self.peek() == ("op", "*"):          # a dereference: identity
            self.eat()
            return self.unary(nostruct)
        return self.postfix(nostruct)

    def args(self):
        self.eat("(")
        out = []
        while not self.at(")"):
            out.append(self.expr())
            if self.at(","):
                self.eat()
        self.eat(")")
        return out

    def skip_turbofish(self):
        depth = 1
        while depth:
            kind, v = self.eat()
            if v == "<":
                depth += 1
            elif v == ">":
                depth -= 1

    def postfix(self, nostruct):
        e = self.primary(nostruct)
        while True:
            if self.peek() == ("op", "."):
                self.eat()
                kind, name = self.eat()
                if kind != "id" or "::" in name or name.endswith("!"):
                    raise Untranslatable("method / field name " + name)
                if name == "await":
                    continue                      # single-threaded semantics: `.await` is the identity
                if self.peek()[0] == "turbo":
                    self.eat()
                    self.skip_turbofish()
                if self.at("("):
                    e = ("mcall", e, name, self.args())
                else:
                    e = ("field", e, name)
            elif self.peek() == ("op", "["):
                self.eat()
                ix = self.expr()
                self.eat("]")
                e = ("index", e, ix)
            elif self.peek() == ("op", "(") and e[0] in ("mcall", "call", "var"):
                e = ("call", e, self.args())
            elif self.peek() == ("op", "?"):
                self.eat()
                e = ("try", e)
            else:
                return e

    def closure(self):
        if self.peek() == ("id", "move"):
            self.eat()
        flags = []
        if self.peek() == ("op", "||"):
            self.eat()
            params = []
        else:
            self.eat("|")
            params = []
            while not self.at("|"):
                params.append(self.pattern())
                flag = False
                if self.at(":"):
                    self.eat()
                    flag = self.peek() == ("op", "&") and self.peek(1) == ("id", "mut")
                    depth = 0
                    while not (depth == 0 and (self.at(",") or self.at("|"))):
                        kind, v = self.eat()
                        depth += (v in ("<", "(", "[")) - (v in (">", ")", "]"))
                flags.append(flag)
                if self.at(","):
                    self.eat()
            self.eat("|")
        body = self.block() if self.at("{") else self.expr()
        return ("closure", params, body, flags)

    def primary(self, nostruct):
        kind, v = self.peek()
        if kind == "str":
            self.eat()
            return ("str", pins.rust_unescape(v[1:-1]))
        if kind == "rstr":
            self.eat()
            return ("str", v)
        if kind == "op" and v == "[":
            self.eat()
            items = []
            while not self.at("]"):
                items.append(self.expr())
                if self.at(","):
                    self.eat()
                elif self.at(";"):
                    raise Untranslatable("[x; n]")
            self.eat("]")
            return ("array", items)
        if kind == "chr":
            self.eat()
            c = pins.rust_unescape(v[1:-1])
            if len(c) != 1 or ord(c) >= 128:
                raise Untranslatable("char literal %s is not ASCII" % v)
            return ("chr", c)
        if kind == "int":
            self.eat()
            return ("int", re.match(r"\d+", v).group(0))
        if kind == "op" and v == "(":
            self.eat()
            if self.at(")"):
                self.eat()
                return ("unit",)
            e = self.expr()
            if self.at(","):
                raise Untranslatable("tuple expression")
            self.eat(")")
            return e
        if kind == "op" and v == "{":
            return self.block()
        if (kind == "op" and v in ("|", "||")) or (kind, v) == ("id", "move"):
            return self.closure()
        if kind != "id":
            raise Untranslatable("expression starting with %r" % v)
        if v == "if":
            return self.if_()
        if v == "match":
            return self.match_()
        if v == "loop":
            self.eat()
            return ("loop", self.block())
        if v == "while":
            return self.while_()
        if v in ("true", "false"):
            self.eat()
            return ("lit", v)
        if v == "vec!":
            self.eat()
            self.eat("[")
            items = []
            while not self.at("]"):
                items.append(self.expr())
                if self.at(","):
                    self.eat()
                elif self.at(";"):
                    raise Untranslatable("vec![x; n]")
            self.eat("]")
            return ("vec", items)
        if v == "format!":
            self.eat()
            self.eat("(")
            k2, s = self.eat()
            if k2 != "str":
                raise Untranslatable("format! without a literal")
            items = []
            while self.at(","):
                self.eat()
                if self.at(")"):
                    break
                items.append(self.expr())
            self.eat(")")
            return ("format", pins.rust_unescape(s[1:-1]), items)
        if v.endswith("!"):
            raise Untranslatable("macro " + v)
        if v in KEYWORDS:
            raise Untranslatable("unexpected keyword " + v)
        self.eat()
        if self.peek()[0] == "turbo":
            self.eat()
            self.skip_turbofish()
        if self.at("(") and ("::" in v or v in ("Some", "Ok", "Err")):
            return ("call", ("path", v), self.args())
        if self.at("{") and not nostruct and v[0].isupper() and (
                (self.peek(1)[0] == "id" and self.peek(2)[1] in (":", ",", "}")) or self.peek(1) == ("op", "..")):
            return self.struct_lit(v)
        if "::" in v or v in ("None", "Self") or v[0].isupper():
            return ("path", v)
        return ("var", v)

    def struct_lit(self, name):
        self.eat("{")
        fields = []
        base = None
        while not self.at("}"):
            if self.peek() == ("op", ".."):
                self.eat()
                base = self.or_(False)
                if self.at(","):
                    self.eat()
                continue
            if base is not None:
                raise Untranslatable("a field after the base of a struct literal")
            kind, f = self.eat()
            if kind != "id":
                raise Untranslatable("struct literal field " + f)
            if self.at(":"):
                self.eat()
                e = self.expr()
            else:
                e = ("var", f)
            fields.append((f, e))
            if self.at(","):
                self.eat()
        self.eat("}")
        return ("struct", name, fields, base)

    def if_(self):
        self.eat("if")
        if self.peek() == ("id", "let"):
            self.eat()
            pat = self.pattern()
            self.eat("=")
            cond = ("iflet", pat, self.expr(nostruct=True))
        else:
            cond = ("cond", self.expr(nostruct=True))
        th = self.block()
        el = None
        if self.peek() == ("id", "else"):
            self.eat()
            if self.peek() == ("id", "if"):
                el = ("block", [], self.if_())
            else:
                el = self.block()
        return ("if", cond, th, el)

    def while_(self):
        self.eat("while")
        if self.peek() == ("id", "let"):
            raise Untranslatable("while let")
        c = self.expr(nostruct=True)
        return ("while", c, self.block())

    def match_(self):
        self.eat("match")
        scrut = self.expr(nostruct=True)
        self.eat("{")
        arms = []
        while not self.at("}"):
            pat = self.pattern()
            if self.peek() == ("op", "|"):
                raise Untranslatable("alternative patterns")
            if self.peek() == ("id", "if"):
                raise Untranslatable("match guard")
            self.eat("=>")
            if self.peek() == ("id", "return"):
                self.eat()
                val = None if (self.at(",") or self.at("}")) else self.expr()
                body = ("block", [("ret", val)], None)
            else:
                body = self.expr()
            arms.append((pat, body))
            if self.at(","):
                self.eat()
        self.eat("}")
        return ("match", scrut, arms)

    def block(self):
        self.eat("{")
        b = self.seq()
        self.eat("}")
        return b

    def skip_type(self):
        depth = 0
        while True:
            kind, v = self.peek()
            if kind == "eof" or (depth == 0 and v == "=" and kind == "op"):
                return
            if v == "<":
                depth += 1
            elif v == ">":
                depth -= 1
            self.eat()

    def seq(self):
        stmts, final = [], None
        while not self.at("}") and self.peek()[0] != "eof":
            if final is not None:
                raise Untranslatable("statement after the value of a block")
            kind, v = self.peek()
            if kind == "attr":
                raise Untranslatable("attribute %s inside a body" % v)
            elif (kind, v) == ("id", "let"):
                self.eat()
                pat = self.pattern()
                if self.at(":"):
                    self.eat()
                    self.skip_type()
                self.eat("=")
                e = self.expr()
                self.eat(";")
                stmts.append(("let", pat, e))
            elif (kind, v) == ("id", "return"):
                self.eat()
                e = None if (self.at(";") or self.at("}")) else self.expr()
                if self.at(";"):
                    self.eat()
                stmts.append(("ret", e))
            elif (kind, v) == ("id", "break"):
                self.eat()
                e = None if (self.at(";") or self.at("}")) else self.expr()
                if self.at(";"):
                    self.eat()
                stmts.append(("break", e))
            elif (kind, v) == ("id", "continue"):
                self.eat()
                if self.at(";"):
                    self.eat()
                stmts.append(("continue",))
            elif (kind, v) == ("id", "for"):
                self.eat()
                pat = self.pattern()
                self.eat("in")
                it = self.expr(nostruct=True)
                stmts.append(("for", pat, it, self.block()))
            else:
                e = self.expr()
                if self.peek()[0] == "op" and self.peek()[1] in ("=", "+=", "-="):
                    op = self.eat()[1]
                    rhs = self.expr()
                    if self.at(";"):
                        self.eat()
                    elif not self.at("}"):
                        raise Untranslatable("assignment without ;")
                    stmts.append(("assign", op, e, rhs))
                elif self.at(";"):
                    self.eat()
                    stmts.append(("expr", e))
                elif e[0] in ("if", "match", "block", "loop", "while") and not self.at("}"):
                    stmts.append(("expr", e))          # a block-like expression statement needs no ;
                else:
                    final = e
        return ("block", stmts, final)


# ============================================================ cfg attributes
def cfg_eval(text):
    """value of the predicate inside #[cfg(..)] under FEATURES, not wasm32, not test"""
    toks = re.findall(r'"[^"]*"|\w+|[(),=]', text)
    pos = [0]

    def peek():
        return toks[pos[0]] if pos[0] < len(toks) else None

    def eat(v=None):
        t = peek()
        if t is None or (v is not None and t != v):
            raise Untranslatable("cfg predicate " + text)
        pos[0] += 1
        return t

    def pred():
        name = eat()
        if name in ("all", "any", "not"):
            eat("(")
            vals = []
            while peek() != ")":
                vals.append(pred())
                if peek() == ",":
                    eat()
            eat(")")
            if name == "not":
                if len(vals) != 1:
                    raise Untranslatable("cfg predicate " + text)
                return not vals[0]
            return all(vals) if name == "all" else any(vals)
        if peek() == "=":
            eat()
            val = eat()[1:-1]
            if name == "feature":
                if val not in FEATURES:
                    raise Untranslatable("cfg feature %s is not in the configuration of the translator" % val)
                return FEATURES[val]
            if name == "target_arch":
                return val == "x86_64"
            raise Untranslatable("cfg key " + name)
        return False        # test, casbin_verif, ...: off
    v = pred()
    if peek() is not None:
        raise Untranslatable("cfg predicate " + text)
    return v


def attrs_enabled(attrs):
    """attrs: the texts `#[..]` in front of an item"""
    for a in attrs:
        m = re.match(r"#\[\s*cfg\s*\((.*)\)\s*\]$", a, re.S)
        if m and not cfg_eval(m.group(1)):
            return False
        if re.match(r"#\[\s*cfg_attr", a):
            continue
    return True


ATTR = r"#!?\[(?:[^\[\]]|\[[^\]]*\])*\]"


def leading_attrs(src, pos):
    """the attributes (and visibility / async qualifiers) directly in front of position pos: [attr texts]"""
    head = src[:pos]
    attrs = []
    while True:
        head = head.rstrip()
        m = re.search(r"(?:\bpub(?:\s*\([^)]*\))?|\basync|\bunsafe|\bconst)$", head)
        if m:
            head = head[:m.start()]
            continue
        m = re.search("(" + ATTR + r")$", head, re.S)
        if m:
            attrs.append(m.group(1))
            head = head[:m.start()]
            continue
        return attrs


# ========================================================== `use` declarations
def parse_use_tree(text, prefix, out, globs):
    text = text.strip()
    if text.startswith("{") and text.endswith("}") and pins.balanced(text, 0) == text:
        for part in split_top(text[1:-1]):
            if part.strip():
                parse_use_tree(part, prefix, out, globs)
        return
    m = re.match(r"([A-Za-z_]\w*)\s*::\s*(.*)$", text, re.S)
    if m:
        parse_use_tree(m.group(2), prefix + [m.group(1)], out, globs)
        return
    if text == "*":
        globs.append("::".join(prefix))
        return
    m = re.match(r"([A-Za-z_]\w*)(?:\s+as\s+([A-Za-z_]\w*))?$", text)
    if not m:
        raise Untranslatable("use declaration " + text)
    name = m.group(1)
    alias = m.group(2) or name
    if name == "self":
        out[m.group(2) or prefix[-1]] = "::".join(prefix)
    else:
        out[alias] = "::".join(prefix + [name])


def parse_uses(src):
    """(alias -> full path, [glob-imported modules]) of the top-level `use` declarations that are enabled"""
    out, globs = {}, []
    for m in re.finditer(r"(?m)^\s*(?:pub(?:\s*\([^)]*\))?\s+)?use\s+([^;]*);", src):
        if depth_at(src, m.start()) != 0:
            continue
        if not attrs_enabled(leading_attrs(src, src.rfind("use", m.start(), m.start(1)))):
            continue
        parse_use_tree(m.group(1), [], out, globs)
    return out, globs


# ====================================================================== types
# atoms: text bool nat unit char uchar reader cursor err iokind rmhandle any
# ("opt", T) ("vec", T) ("hm", T) ("lhm", T) ("lhs", T) ("result", T) ("struct", Name)
# ("getmut", place, key-term, T)   pseudo-value of `map.get_mut(k)`
STRUCTS = {}     # Rust name -> {"coq": record name, "prefix": field prefix, "fields": [(name, type)], "derive_default": bool}
STRUCT_COQ = {"Config": ("config_state", "conf_"), "DefaultModel": ("dmodel_state", "dm_"),
              "Assertion": ("gen_assertion", "ga_")}
TYPE_ALIASES = {}   # name -> type


def split_top(s, sep=","):
    parts, depth, cur = [], 0, ""
    i = 0
    while i < len(s):
        c = s[i]
        if c == "-" and s[i:i + 2] == "->":
            cur += "->"
            i += 2
            continue
        if c in "<([{":
            depth += 1
        elif c in ">)]}":
            depth -= 1
        if c == sep and depth == 0:
            parts.append(cur)
            cur = ""
        else:
            cur += c
        i += 1
    if cur.strip():
        parts.append(cur)
    return parts


def canon_path(p, aliases):
    """the path with its first segment resolved through the `use` aliases of the file"""
    segs = p.split("::")
    if segs[0] in aliases:
        return "::".join([aliases[segs[0]]] + segs[1:])
    return p


def canon_type_text(s, aliases):
    s = re.sub(r"^\s*&\s*(?:'\w+\s*)?(?:mut\s+)?", "", s)
    s = re.sub(r"\s+", "", re.sub(r"&\s*mut\s+", "&mut@", re.sub(r"\bdyn\s+", "dyn@", s)))
    return re.sub(r"(?<![\w:'])([A-Za-z_]\w*)", lambda m: aliases.get(m.group(1), m.group(1)), s)


def rust_type(s, aliases, generics=None):
    """type from its source text (aliases of the file resolved)"""
    return rust_type_c(canon_type_text(s, aliases), generics or {})


def rust_type_c(s, generics):
    s = re.sub(r"^&(?:'\w+)?(?:mut)?", "", s)
    simple = {"str": "text", "String": "text", "usize": "nat", "u64": "nat", "bool": "bool", "()": "unit",
              "tokio::io::BufReader<std::io::Cursor<&[u8]>>": "reader",
              "std::sync::Arc<parking_lot::RwLock<dyn@crate::rbac::RoleManager>>": "rmhandle"}
    if s in simple:
        return simple[s]
    if s in generics:
        return generics[s]
    last = s.split("::")[-1] if "<" not in s else None
    if s == "Self":
        return ("struct", "Self")
    if last in STRUCT_COQ:
        return ("struct", last)
    if last in TYPE_ALIASES:
        return TYPE_ALIASES[last]
    for head, tag in (("Option<", "opt"), ("Vec<", "vec"), ("crate::Result<", "result"),
                      ("hashlink::LinkedHashSet<", "lhs")):
        if s.startswith(head) and s.endswith(">"):
            return (tag, rust_type_c(s[len(head):-1], generics))
    for head, tag in (("std::collections::HashMap<String,", "hm"), ("hashlink::LinkedHashMap<String,", "lhm")):
        if s.startswith(head) and s.endswith(">"):
            return (tag, rust_type_c(s[len(head):-1], generics))
    raise Untranslatable("type " + s.replace("@", " "))


def coq_ty(t, atom=False):
    simple = {"text": "text", "bool": "bool", "nat": "nat", "unit": "unit", "char": "ascii", "uchar": "uchar",
              "reader": "reader", "cursor": "text", "err": "ini_error", "iokind": "io_error_kind", "rmhandle": "rm_handle"}
    if isinstance(t, str):
        if t in simple:
            return simple[t]
        raise Untranslatable("type %s has no Coq counterpart" % t)
    tag = t[0]
    if tag == "struct":
        return STRUCTS[t[1]]["coq"]
    if tag in ("regex", "regexres"):
        return "unit"
    if tag == "tuple":
        s = " * ".join(coq_ty(x, True) for x in t[1])
        return "(%s)" % s
    if tag in ("opt", "vec", "lhs", "hm", "lhm"):
        s = "%s %s" % ({"opt": "option", "vec": "list", "lhs": "list", "hm": "hashmap", "lhm": "lhm"}[tag], coq_ty(t[1], True))
    elif tag == "result":
        s = "rs_result %s ini_error" % coq_ty(t[1], True)
    else:
        raise Untranslatable("type %r has no Coq counterpart" % (t,))
    return "(%s)" % s if atom else s


def tyname(t):
    if isinstance(t, str):
        return t
    if t[0] == "struct":
        return t[1]
    if t[0] == "getmut":
        return "Option<&mut %s>" % tyname(t[3])
    if t[0] in ("regex", "regexres"):
        return "Regex"
    if t[0] == "localfn":
        return "closure"
    if t[0] == "tuple":
        return "(%s)" % ", ".join(tyname(x) for x in t[1])
    return "%s<%s>" % (t[0], tyname(t[1]))


def unify(a, b):
    """the common type of a and b ("any" = not yet known), None when they differ"""
    if a == "any":
        return b
    if b == "any":
        return a
    if isinstance(a, tuple) and isinstance(b, tuple) and a[0] == b[0] and a[0] in ("opt", "vec", "hm", "lhm", "lhs", "result"):
        u = unify(a[1], b[1])
        return None if u is None else (a[0], u)
    if a == b:
        return a
    return None


def need(a, b, what):
    u = unify(a, b)
    if u is None:
        raise Untranslatable("%s: a %s where a %s is expected" % (what, tyname(a), tyname(b)))
    return u


def has_any(t):
    if t == "any":
        return True
    return isinstance(t, tuple) and t[0] in ("opt", "vec", "hm", "lhm", "lhs", "result") and has_any(t[1])


# ===================================================================== places
class Place:
    """something that can be assigned: kind = var (a Coq variable) | field (of a struct place) | alias (a local copy
       of a map entry borrowed with &mut, written back to `under` after every mutation) | hmval (the value bound
       to `key` in the map `parent`)"""

    def __init__(self, kind, ty, coq=None, parent=None, field=None, key=None, under=None, rust=None):
        self.kind, self.ty, self.coq, self.parent, self.field, self.key, self.under, self.rust = \
            kind, ty, coq, parent, field, key, under, rust

    def read(self):
        if self.kind in ("var", "alias"):
            return self.coq
        if self.kind == "field":
            st = STRUCTS[self.parent.ty[1]]
            return "(%s%s %s)" % (st["prefix"], self.field, self.parent.read())
        raise Untranslatable("read of a map entry that is not borrowed")

    def write(self, new, rest):
        """Coq term: the place receives `new`, then `rest`"""
        if self.kind == "var":
            if new == self.coq:
                return rest
            return "(let %s := %s in\n %s)" % (self.coq, new, rest)
        if self.kind == "alias":
            inner = self.under.write(self.coq, rest)
            if new == self.coq:
                return inner
            return "(let %s := %s in\n %s)" % (self.coq, new, inner)
        if self.kind == "field":
            st = STRUCTS[self.parent.ty[1]]
            return self.parent.write("(set_%s%s %s %s)" % (st["prefix"], self.field, self.parent.read(), new), rest)
        if self.kind == "hmval":
            ins = "lhm_insert" if self.parent.ty[0] == "lhm" else "hm_insert"
            return self.parent.write("(%s %s %s %s)" % (ins, self.parent.read(), self.key, new), rest)
        raise Untranslatable("write to a " + self.kind)

    def roots(self):
        """the Coq variables re-bound by a write"""
        if self.kind == "var":
            return [self.coq]
        if self.kind == "alias":
            return [self.coq] + self.under.roots()
        return self.parent.roots()


class Var:
    """a Rust variable in scope: its type, the Coq term that holds its value, whether it can be assigned, and for
       a `&mut` borrow of a map entry the place it stands for"""

    def __init__(self, ty, coq, mutable=False, place=None, depth=0):
        self.ty, self.coq, self.mutable, self.place, self.depth = ty, coq, mutable, place, depth


class Func:
    def __init__(self, rust, owner, coq, self_kind, params, ret, body, aliases, globs):
        self.rust, self.owner, self.coq, self.self_kind, self.params, self.ret, self.body = \
            rust, owner, coq, self_kind, params, ret, body     # params: [(name, type, is_mut_ref, is_mut_local)]
        self.aliases, self.globs = aliases, globs
        self.mode = None          # "pure" | "flow"
        self.partial = False      # pure mode: the result is an option
        self.uses_fuel = False
        self.uses_ord = False
        self.done = False
        self.text = None

    def outs(self):
        """what a flow-mode function returns besides its value: the final `self` of a &mut self method, the
           final values of its &mut parameters"""
        o = []
        if self.self_kind == "mut":
            o.append(("self", ("struct", self.owner)))
        o += [(p[0], p[1]) for p in self.params if p[2]]
        return o


BUILTIN_MUT = ("push_str", "insert", "read_line")
IDENTITY = ("clone", "to_owned", "into", "iter", "into_iter", "collect", "to_string", "as_str", "as_ref", "as_bytes")
CONTROL = ("ret", "break", "continue", "loop", "while", "try", "for")


def is_atomic(t):
    return re.match(r"^[\w']+$", t) is not None


def children(node):
    """sub-nodes of an AST node, closures excluded"""
    if isinstance(node, list):
        for x in node:
            yield x
    elif isinstance(node, tuple) and node and node[0] != "closure":
        for x in node[1:]:
            if isinstance(x, (tuple, list)):
                yield x


def contains(node, pred):
    if isinstance(node, tuple) and node and isinstance(node[0], str) and pred(node):
        return True
    return any(contains(c, pred) for c in children(node))


def has_control(node):
    return contains(node, lambda n: n[0] in CONTROL)


def pat_vars(pat):
    if pat[0] == "pvar":
        return [pat[1]]
    if pat[0] == "pctor":
        return [x for p in pat[2] for x in pat_vars(p)]
    if pat[0] == "ptuple":
        return [x for p in pat[1] for x in pat_vars(p)]
    return []


# ==================================================================== emitter
class Em:
    """translation of ONE function; `unit` holds the other functions (translated on demand)"""

    def __init__(self, unit, fn):
        self.u = unit
        self.fn = fn
        self.n = 0
        self.loops = []          # {"carried": [coq names], "tail": bool} of the enclosing loops; None = a closure body
        self.depth = 0
        self.plain = False       # inside the attempt to translate an `if` as a `let`
        self.decl = {}           # Coq variable -> rank of its declaration (the order of the loop-carried tuples)

    def fresh(self, base="t"):
        self.n += 1
        return "%s%d" % (base, self.n)

    def panic_term(self):
        if self.plain:
            raise NotPlain()
        return "LPanic"

    def declare(self, coq):
        if coq not in self.decl:
            self.decl[coq] = len(self.decl)

    def ordered(self, names):
        return sorted(names, key=lambda x: (self.decl.get(x, 10 ** 6), x))

    def canon(self, p):
        return canon_path(p, self.fn.aliases)

    # ------------------------------------------------------------ scopes
    def bind(self, env, x, ty, mutable=False, place_of=None):
        """a new binding of the Rust variable x: (env', Coq name)"""
        if x in env and not (env[x].depth == self.depth and env[x].place is None and not env[x].mutable):
            coq = "v_%s'%s" % (x, self.fresh(""))
        else:
            coq = "v_" + x
        env2 = dict(env)
        v = Var(ty, coq, mutable, None, self.depth)
        if place_of is not None:
            v.place = place_of(coq)
        elif mutable:
            v.place = Place("var", ty, coq=coq, rust=x)
        env2[x] = v
        self.declare(coq)
        return env2, coq

    def bind_pat(self, env, pat, ty, mutable=False):
        """pattern of a let / closure parameter: (env', Coq binder)"""
        if pat[0] == "pwild":
            return env, "_"
        if pat[0] == "pvar":
            return self.bind(env, pat[1], ty, mutable or pat[2])
        if pat[0] == "ptuple":
            if not (isinstance(ty, tuple) and ty[0] == "tuple" and len(ty[1]) == len(pat[1])):
                raise Untranslatable("a tuple pattern for a " + tyname(ty))
            names = []
            for sub, st in zip(pat[1], ty[1]):
                env, nm = self.bind_pat(env, sub, st, mutable)
                names.append(nm)
            return env, "'(%s)" % ", ".join(names)
        raise Untranslatable("pattern " + pat[0])

    def tup(self, names):
        if not names:
            return "tt"
        if len(names) == 1:
            return names[0]
        return "(%s)" % ", ".join(names)

    def lam_pat(self, names):
        if not names:
            return "(_ : unit)"
        if len(names) == 1:
            return names[0]
        return "'" + self.tup(names)

    def match_pat(self, names):
        return "_" if not names else self.tup(names)

    # ------------------------------------------------------------ places
    def resolve_place(self, e, env, declared=()):
        if e[0] == "var":
            if e[1] in declared or e[1] not in env:
                return None
            return env[e[1]].place
        if e[0] == "field":
            parent = self.resolve_place(e[1], env, declared)
            if parent is None or not (isinstance(parent.ty, tuple) and parent.ty[0] == "struct"):
                return None
            for f, t in STRUCTS[parent.ty[1]]["fields"]:
                if f == e[2]:
                    return Place("field", t, parent=parent, field=f)
            raise Untranslatable("no field %s in %s" % (e[2], parent.ty[1]))
        return None

    def type_of(self, e, env):
        """type of a pure expression, None when it cannot be typed here"""
        saved = (self.n, self.fn.uses_fuel, self.fn.uses_ord, dict(self.decl))
        try:
            return self.pure(e, env)[0]
        except (Untranslatable, NotPlain, KeyError):
            return None
        finally:
            self.n, self.fn.uses_fuel, self.fn.uses_ord, self.decl = saved

    def user_method(self, recv, name, env, declared=()):
        if recv[0] == "var" and recv[1] in declared:
            return None
        t = self.type_of(recv, env)
        if isinstance(t, tuple) and t[0] == "struct":
            return self.u.funcs.get((t[1], name))
        return None

    def user_fn(self, callee, env):
        if callee[0] == "var" and callee[1] not in env:
            name = callee[1]
        elif callee[0] == "path":
            name = callee[1]
        else:
            return None
        parts = self.canon(name).split("::")
        if len(parts) >= 2 and (parts[-2] in STRUCT_COQ or parts[-2] == "Self"):
            owner = self.fn.owner if parts[-2] == "Self" else parts[-2]
            return self.u.funcs.get((owner, parts[-1]))
        return None

    def local_fn(self, callee, env, declared=()):
        """the closure bound to a local variable that `callee` names: its ("localfn", closure) type, or None"""
        if callee[0] == "var" and callee[1] not in declared and callee[1] in env:
            t = env[callee[1]].ty
            if isinstance(t, tuple) and t[0] == "localfn":
                return t
        return None

    # ---------------------------------------------------------- mutation analysis
    def mut_roots(self, node, env, declared=frozenset()):
        """Coq variables (bound outside `node`) that executing `node` may re-bind"""
        out = set()

        def roots_of(e, decl):
            if e[0] == "var" and e[1] not in decl and e[1] in env and isinstance(env[e[1]].ty, tuple) and env[e[1]].ty[0] == "getmut":
                return set(env[e[1]].ty[1].roots())
            p = self.resolve_place(e, env, decl)
            return set(p.roots()) if p is not None else set()

        def base_map(e):
            # the map at the bottom of a borrow chain  m.entry(k).or_default() / m.get_mut(k)
            while e[0] == "mcall" and e[2] in ("entry", "or_default", "get_mut", "unwrap"):
                e = e[1]
            return e

        def walk(n, decl):
            if isinstance(n, list):
                for x in n:
                    walk(x, decl)
                return
            if not isinstance(n, tuple) or not n or n[0] == "closure":
                return
            k = n[0]
            if k == "block":
                d = set(decl)
                for st in n[1]:
                    walk(st, frozenset(d))
                    if st[0] == "let":
                        d.update(pat_vars(st[1]))
                if n[2] is not None:
                    walk(n[2], frozenset(d))
                return
            if k == "for":
                walk(n[2], decl)
                walk(n[3], frozenset(set(decl) | set(pat_vars(n[1]))))
                return
            if k == "if" and n[1][0] == "iflet":
                walk(n[1][2], decl)
                walk(n[2], frozenset(set(decl) | set(pat_vars(n[1][1]))))
                if n[3] is not None:
                    walk(n[3], decl)
                return
            if k == "match":
                out.update(roots_of(n[1], decl))
                walk(n[1], decl)
                for pat, body in n[2]:
                    walk(body, frozenset(set(decl) | set(pat_vars(pat))))
                return
            if k == "assign":
                out.update(roots_of(n[2], decl))
                walk(n[3], decl)
                return
            if k == "mcall":
                recv, name, args = n[1], n[2], n[3]
                f = self.user_method(recv, name, env, decl)
                if f is not None:
                    if f.self_kind == "mut":
                        out.update(roots_of(recv, decl))
                    for p, a in zip(f.params, args):
                        if p[2]:
                            out.update(roots_of(a, decl))
                elif name in BUILTIN_MUT:
                    out.update(roots_of(recv, decl))
                    if name == "read_line":
                        for a in args:
                            out.update(roots_of(a, decl))
                elif name in ("or_default", "get_mut"):
                    out.update(roots_of(base_map(n), decl))
                walk(recv, decl)
                walk(args, decl)
                return
            if k == "call":
                f = self.user_fn(n[1], env)
                lf = self.local_fn(n[1], env, decl)
                if f is not None:
                    for p, a in zip(f.params, n[2]):
                        if p[2]:
                            out.update(roots_of(a, decl))
                elif lf is not None:
                    for flag, a in zip(lf[1][3], n[2]):
                        if flag:
                            out.update(roots_of(a, decl))
                else:
                    walk(n[1], decl)
                walk(n[2], decl)
                return
            for c in children(n):
                walk(c, decl)

        walk(node, frozenset(declared))
        return out

    def eff(self, e, env):
        """does evaluating the expression e mutate something / transfer control (closures excluded)"""
        k = e[0]
        if k in ("try", "loop", "while"):
            return True
        if k == "mcall":
            recv, name, args = e[1], e[2], e[3]
            if self.eff(recv, env) or any(self.eff(a, env) for a in args):
                return True
            f = self.user_method(recv, name, env)
            if f is not None:
                self.u.require(f)
                return f.mode == "flow"
            if name in ("or_default", "get_mut", "entry"):
                return True
            if name in BUILTIN_MUT:
                if self.resolve_place(recv, env) is not None:
                    return True
            return False
        if k == "call":
            if self.local_fn(e[1], env) is not None:
                return True
            f = self.user_fn(e[1], env)
            if f is not None:
                self.u.require(f)
                if f.mode == "flow":
                    return True
            return (f is None and self.eff(e[1], env)) or any(self.eff(a, env) for a in e[2])
        if k == "not":
            return self.eff(e[1], env)
        if k == "bin":
            return self.eff(e[2], env) or self.eff(e[3], env)
        if k in ("field", "index", "range"):
            return any(self.eff(c, env) for c in e[1:] if isinstance(c, tuple))
        if k == "if":
            return self.eff(e[1][-1], env) or self.block_eff(e[2], env) or (e[3] is not None and self.block_eff(e[3], env))
        if k == "match":
            if e[1][0] == "var" and e[1][1] in env and isinstance(env[e[1][1]].ty, tuple) and env[e[1][1]].ty[0] == "getmut":
                return True
            return self.eff(e[1], env) or any(self.block_eff(b, env) if b[0] == "block" else self.eff(b, env) for _, b in e[2])
        if k == "block":
            return self.block_eff(e, env)
        if k in ("vec", "format", "array"):
            return any(self.eff(c, env) for c in e[-1])
        if k == "for":
            return True
        if k == "struct":
            return any(self.eff(c, env) for _, c in e[2]) or (e[3] is not None and self.eff(e[3], env))
        return False

    def block_eff(self, b, env):
        if b[0] != "block":
            return self.eff(b, env)
        for st in b[1]:
            if st[0] in ("assign", "ret", "break", "continue", "for"):
                return True
            if st[0] == "let" and (self.eff(st[2], env) or (st[1][0] == "pvar" and st[1][2])):
                return True
            if st[0] == "expr" and self.eff(st[1], env):
                return True
        return b[2] is not None and self.eff(b[2], env)


class NotPlain(Exception):
    pass


def coq_text(s):
    if s == "":
        return "(T \"\")"
    return "(T %s)" % pins.coq_str(s)


def coq_char(c):
    if c == '"':
        return '""""%char'
    if 32 <= ord(c) < 127:
        return '"%s"%%char' % c
    return "(byte %d)" % ord(c)


EXTERNAL_FNS = {
    # name -> (module that must be glob-imported, source file, [parameter types], result type, Coq function)
    "remove_comment": ("crate::util", "util", ["text"], "text", "gen_remove_comment"),
    "escape_assertion": ("crate::util", "util", ["text"], "text", "rs_escape_assertion"),
}
# canonical path -> ([argument types], result type, Coq format)
PRIM_PATHS = {
    "String::new": ([], "text", "(T \"\")"),
    "String::from": (["text"], "text", "%s"),
    "char::is_whitespace": (["uchar"], "bool", "(rs_char_is_whitespace %s)"),
    "char::to_string": (["uchar"], "text", "(rs_char_to_string %s)"),
    "std::collections::HashMap::new": ([], ("hm", "any"), "hm_new"),
    "hashlink::LinkedHashMap::new": ([], ("lhm", "any"), "lhm_new"),
    "hashlink::LinkedHashSet::new": ([], ("lhs", "any"), "[]"),
    "tokio::io::Error::new": (["iokind", "text"], "err", "(IniIoError %s %s)"),
    "crate::error::ModelError::Other": (["text"], "err", "(IniModelOther %s)"),
    "tokio::io::BufReader::new": (["cursor"], "reader", "(rs_bufreader_new %s)"),
    "std::io::Cursor::new": (["text"], "cursor", "(rs_cursor_new %s)"),
    "std::sync::Arc::new": (["rmhandle"], "rmhandle", "%s"),
    "parking_lot::RwLock::new": (["rmhandle"], "rmhandle", "%s"),
    "crate::rbac::DefaultRoleManager::new": (["nat"], "rmhandle", "(RmFresh %s)"),
}
# (regular expression, replacement) -> Coq function of the receiver (unit) and the text
REGEX_REPLACE = {(r"^([rp]\d*)_", "${1}."): "rs_regex_token_dot"}
PRIM_CONSTS = {"tokio::io::ErrorKind::Other": ("iokind", "IoOther")}


class EmPure:
    """pure expressions: (type, term, partial); a partial term has type `option T` (None = panic)"""

    def binds(self, parts, build):
        """parts: [(term, partial)], evaluated left to right; build(pure terms) -> pure term"""
        names, wrap = [], []
        for term, partial in parts:
            if partial:
                x = self.fresh("o")
                wrap.append((x, term))
                names.append(x)
            else:
                names.append(term)
        body = build(names)
        if not wrap:
            return body, False
        out = "(Some %s)" % body
        for x, term in reversed(wrap):
            out = "(match %s with Some %s => %s | None => None end)" % (term, x, out)
        return out, True

    def flat(self, inner, ip):
        """a term that is partial itself, built from parts that may be partial: (term, True)"""
        if ip:
            x = self.fresh("o")
            return "(match %s with Some %s => %s | None => None end)" % (inner, x, x)
        return inner

    def lift(self, term, partial, want):
        """term as a partial term when `want`"""
        if want and not partial:
            return "(Some %s)" % term
        return term

    def pure_args(self, args, env):
        return [self.pure(a, env) for a in args]

    def pure(self, e, env):
        k = e[0]
        if k == "lit":
            return "bool", e[1], False
        if k == "int":
            return "nat", e[1], False
        if k == "str":
            return "text", coq_text(e[1]), False
        if k == "chr":
            return "char", coq_char(e[1]), False
        if k == "unit":
            return "unit", "tt", False
        if k == "var":
            if e[1] not in env:
                if e[1] in self.u.consts:
                    return "text", "gen_" + e[1], False
                raise Untranslatable("identifier " + e[1])
            if isinstance(env[e[1]].ty, tuple) and env[e[1]].ty[0] == "getmut":
                raise Untranslatable("the result of get_mut used otherwise than in a match against Some(x) / None")
            if isinstance(env[e[1]].ty, tuple) and env[e[1]].ty[0] == "localfn":
                raise Untranslatable("a closure used otherwise than in a call")
            vt = env[e[1]].ty
            if has_any(vt) and env[e[1]].place is not None and env[e[1]].place.kind == "var":
                vt = env[e[1]].place.ty          # refined by a later insert
            return vt, env[e[1]].coq, False
        if k == "path":
            return self.path(e[1])
        if k == "not":
            t, a, p = self.pure(e[1], env)
            need(t, "bool", "!")
            term, partial = self.binds([(a, p)], lambda xs: "(negb %s)" % xs[0])
            return "bool", term, partial
        if k == "bin":
            return self.binop(e, env)
        if k == "field":
            t, a, p = self.pure(e[1], env)
            if not (isinstance(t, tuple) and t[0] == "struct"):
                raise Untranslatable("field .%s of a %s" % (e[2], tyname(t)))
            st = STRUCTS[t[1]]
            for f, ft in st["fields"]:
                if f == e[2]:
                    term, partial = self.binds([(a, p)], lambda xs: "(%s%s %s)" % (st["prefix"], f, xs[0]))
                    return ft, term, partial
            raise Untranslatable("no field %s in %s" % (e[2], t[1]))
        if k == "index":
            return self.index(e, env)
        if k == "call":
            return self.call(e, env)
        if k == "mcall":
            return self.mcall(e, env)
        if k == "if":
            return self.pure_if(e, env)
        if k == "match":
            return self.pure_match(e, env)
        if k == "block":
            return self.pure_block(e, env)
        if k == "struct":
            return self.struct(e, env)
        if k == "vec":
            subs = self.pure_args(e[1], env)
            t = "any"
            for s in subs:
                t = need(t, s[0], "vec![..]")
            term, partial = self.binds([(s[1], s[2]) for s in subs], lambda xs: "[%s]" % "; ".join(xs))
            return ("vec", t), term, partial
        if k == "array":
            subs = self.pure_args(e[1], env)
            t = "any"
            for x in subs:
                t = need(t, x[0], "[..]")
            term, partial = self.binds([(x[1], x[2]) for x in subs], lambda xs: "[%s]" % "; ".join(xs))
            return ("vec", t), term, partial
        if k == "format":
            pieces = e[1].split("{}")
            if len(pieces) != len(e[2]) + 1 or "{" in e[1].replace("{}", "") or "}" in e[1].replace("{}", ""):
                raise Untranslatable("format! with other placeholders than {}")
            subs = self.pure_args(e[2], env)
            for s in subs:
                need(s[0], "text", "format! argument")

            def build(xs):
                out = []
                for j, pc in enumerate(pieces):
                    if pc:
                        out.append(coq_text(pc))
                    if j < len(xs):
                        out.append(xs[j])
                return "(%s)" % " ++ ".join(out) if out else "(T \"\")"
            term, partial = self.binds([(s[1], s[2]) for s in subs], build)
            return "text", term, partial
        if k == "closure":
            raise Untranslatable("a closure that is not the argument of an adaptor")
        raise Untranslatable("expression " + k)

    def path(self, p):
        if p == "None":
            return ("opt", "any"), "None", False
        if p in self.u.consts:
            return "text", "gen_" + p, False
        c = self.canon(p)
        if c in PRIM_CONSTS:
            return PRIM_CONSTS[c][0], PRIM_CONSTS[c][1], False
        raise Untranslatable("path " + p)

    def index(self, e, env):
        tb, b, pb = self.pure(e[1], env)
        if e[2][0] == "range":
            if tb != "text":
                raise Untranslatable("slice of a " + tyname(tb))
            lo, hi = e[2][1], e[2][2]
            tl, l, pl = self.pure(lo, env) if lo is not None else ("nat", "0", False)
            if hi is None:
                th, h, ph = "nat", None, False
            else:
                th, h, ph = self.pure(hi, env)
            need(tl, "nat", "slice bound")
            need(th, "nat", "slice bound")
            if h is None:
                inner, ip = self.binds([(b, pb), (l, pl)], lambda xs: "(rs_str_slice %s %s (rs_str_len %s))" % (xs[0], xs[1], xs[0]))
            else:
                inner, ip = self.binds([(b, pb), (l, pl), (h, ph)], lambda xs: "(rs_str_slice %s %s %s)" % tuple(xs))
            return "text", self.flat(inner, ip), True
        ti, i, pi = self.pure(e[2], env)
        if isinstance(tb, tuple) and tb[0] == "vec" and ti == "nat":
            inner, ip = self.binds([(b, pb), (i, pi)], lambda xs: "(rs_index %s %s)" % (xs[0], xs[1]))
            return tb[1], self.flat(inner, ip), True
        raise Untranslatable("index of a %s by a %s" % (tyname(tb), tyname(ti)))

    def binop(self, e, env):
        op = e[1]
        ta, a, pa = self.pure(e[2], env)
        tb, b, pb = self.pure(e[3], env)
        if op in ("&&", "||"):
            need(ta, "bool", op)
            need(tb, "bool", op)
            if not pa and not pb:
                return "bool", "(%s %s %s)" % (a, op, b), False
            lifted = b if pb else "(Some %s)" % b
            short = "(Some false)" if op == "&&" else "(Some true)"
            if not pa:
                return "bool", ("(if %s then %s else %s)" % ((a, lifted, short) if op == "&&" else (a, short, lifted))), True
            if op == "&&":
                return "bool", "(match %s with Some true => %s | Some false => %s | None => None end)" % (a, lifted, short), True
            return "bool", "(match %s with Some true => %s | Some false => %s | None => None end)" % (a, short, lifted), True
        if op in ("==", "!="):
            t = need(ta, tb, op)
            fn = {"text": "rs_eq", "bool": "Bool.eqb", "nat": "Nat.eqb", "char": "Ascii.eqb"}.get(t if isinstance(t, str) else None)
            if fn is None:
                raise Untranslatable("comparison of two %s" % tyname(t))
            neg = op == "!="
            term, partial = self.binds([(a, pa), (b, pb)], lambda xs: ("(negb (%s %s %s))" if neg else "(%s %s %s)") % (fn, xs[0], xs[1]))
            return "bool", term, partial
        need(ta, "nat", op)
        need(tb, "nat", op)
        if op in ("<", "<=", ">", ">="):
            fmt = {"<": "(Nat.ltb %s %s)", "<=": "(Nat.leb %s %s)", ">": "(Nat.ltb %s %s)", ">=": "(Nat.leb %s %s)"}[op]
            swap = op in (">", ">=")
            term, partial = self.binds([(a, pa), (b, pb)], lambda xs: fmt % ((xs[1], xs[0]) if swap else (xs[0], xs[1])))
            return "bool", term, partial
        if op == "+":
            term, partial = self.binds([(a, pa), (b, pb)], lambda xs: "(%s + %s)" % (xs[0], xs[1]))
            return "nat", term, partial
        if op == "-":
            inner, ip = self.binds([(a, pa), (b, pb)], lambda xs: "(rs_usize_sub %s %s)" % (xs[0], xs[1]))
            return "nat", self.flat(inner, ip), True
        raise Untranslatable("operator " + op)

    # ---- closures
    def closure(self, clo, ptys, env):
        """(result type, term, partial) of a closure whose parameters have the types ptys"""
        if clo[0] == "path" and self.canon(clo[1]) == "String::from" and len(ptys) == 1:
            need(ptys[0], "text", "String::from")
            return "text", "(fun x => x)", False
        if clo[0] != "closure":
            raise Untranslatable("a closure is expected")
        if len(clo[1]) != len(ptys):
            raise Untranslatable("closure with %d parameters where %d are expected" % (len(clo[1]), len(ptys)))
        self.depth += 1
        env2 = env
        names = []
        for pat, ty in zip(clo[1], ptys):
            env2, nm = self.bind_pat(env2, pat, ty)
            names.append(nm)
        body = clo[2]
        saved = self.loops
        self.loops = self.loops + [None]
        try:
            t, a, p = self.pure_block(body, env2) if body[0] == "block" else self.pure(body, env2)
        finally:
            self.loops = saved
            self.depth -= 1
        return t, "(fun %s => %s)" % (" ".join(names), a), p

    # ---- calls
    def user_call(self, f, self_term, argterms):
        self.u.require(f)
        head = [f.coq]
        if f.uses_ord:
            head.append("ord")
            self.fn.uses_ord = True
        if f.uses_fuel:
            head.append("fuel")
            self.fn.uses_fuel = True
        if self_term is not None:
            head.append(self_term)
        return "(%s)" % " ".join(head + list(argterms))

    def check_args(self, f, subs):
        if len(subs) != len(f.params):
            raise Untranslatable("%s called with %d arguments" % (f.rust, len(subs)))
        for p, s in zip(f.params, subs):
            need(s[0], p[1], "argument %s of %s" % (p[0], f.rust))

    def pure_user(self, f, recv, args, env):
        self.u.require(f)
        if f.mode == "flow":
            raise Untranslatable("call of %s (a function with statements) inside an expression" % f.rust)
        subs = self.pure_args(args, env)
        self.check_args(f, subs)
        parts = [(s[1], s[2]) for s in subs]
        if recv is not None:
            parts = [(recv[1], recv[2])] + parts
        if f.self_kind is not None and recv is None:
            raise Untranslatable("method %s called without a receiver" % f.rust)
        if f.self_kind is None and recv is not None:
            raise Untranslatable("function %s called with a receiver" % f.rust)
        inner, ip = self.binds(parts, lambda xs: self.user_call(f, xs[0] if recv is not None else None, xs[1:] if recv is not None else xs))
        if f.partial:
            return f.ret, self.flat(inner, ip), True
        return f.ret, inner, ip

    def struct_default(self, name):
        """(term, partial) of <name as Default>::default()"""
        f = self.u.funcs.get((name, "default"))
        if f is not None:
            if f.params or f.self_kind is not None:
                raise Untranslatable("%s::default with parameters" % name)
            t, a, p = self.pure_user(f, None, [], {})
            return a, p
        st = STRUCTS[name]
        if not st["derive_default"]:
            raise Untranslatable("%s has no Default" % name)
        return "{| %s |}" % "; ".join("%s%s := %s" % (st["prefix"], fld, self.default_of(ft)) for fld, ft in st["fields"]), False

    def default_of(self, ty):
        if isinstance(ty, tuple) and ty[0] == "hm":
            return "hm_new"
        if isinstance(ty, tuple) and ty[0] == "lhm":
            return "lhm_new"
        if isinstance(ty, tuple) and ty[0] in ("vec", "lhs"):
            return "[]"
        if ty == "text":
            return "(T \"\")"
        raise Untranslatable("Default::default() of a " + tyname(ty))

    def call(self, e, env):
        callee, args = e[1], e[2]
        f = self.user_fn(callee, env)
        if f is not None:
            if f.self_kind is not None:
                raise Untranslatable("method %s called as a function" % f.rust)
            return self.pure_user(f, None, args, env)
        name = callee[1] if callee[0] in ("path", "var") else None
        if callee[0] == "var" and callee[1] in env:
            name = None
        if name is None:
            raise Untranslatable("call of a value")
        if name in ("Some", "Ok", "Err") and len(args) == 1:
            t, a, pa = self.pure(args[0], env)
            if name == "Some":
                term, partial = self.binds([(a, pa)], lambda xs: "(Some %s)" % xs[0])
                return ("opt", t), term, partial
            if name == "Ok":
                term, partial = self.binds([(a, pa)], lambda xs: "(ROk %s)" % xs[0])
                return ("result", t), term, partial
            need(t, "err", "Err(..)")
            term, partial = self.binds([(a, pa)], lambda xs: "(RErr %s)" % xs[0])
            return ("result", "any"), term, partial
        c = self.canon(name)
        parts = c.split("::")
        if len(parts) >= 2 and parts[-1] == "default" and parts[-2] in STRUCT_COQ and not args:
            a, p = self.struct_default(parts[-2])
            return ("struct", parts[-2]), a, p
        if c == "regex::Regex::new" and len(args) == 1:
            if args[0][0] != "str":
                raise Untranslatable("Regex::new of something that is not a literal")
            return ("regexres", args[0][1]), "tt", False
        if c in PRIM_PATHS:
            ptys, rt, fmt = PRIM_PATHS[c]
            if len(args) != len(ptys):
                raise Untranslatable("%s with %d arguments" % (name, len(args)))
            subs = self.pure_args(args, env)
            for s, w in zip(subs, ptys):
                need(s[0], w, "argument of " + name)
            term, partial = self.binds([(s[1], s[2]) for s in subs], lambda xs: fmt % tuple(xs))
            return rt, term, partial
        if "::" not in name and name in EXTERNAL_FNS:
            mod, fkey, ptys, rt, coq = EXTERNAL_FNS[name]
            if mod not in self.fn.globs and self.fn.aliases.get(name) != mod + "::" + name:
                raise Untranslatable("%s is not imported from %s" % (name, mod))
            if not self.u.external_ok(name):
                raise Untranslatable("%s not found in %s" % (name, FILES[fkey]))
            subs = self.pure_args(args, env)
            if len(subs) != len(ptys):
                raise Untranslatable("%s with %d arguments" % (name, len(subs)))
            for s, w in zip(subs, ptys):
                need(s[0], w, "argument of " + name)
            term, partial = self.binds([(s[1], s[2]) for s in subs], lambda xs: "(%s %s)" % (coq, " ".join(xs)))
            return rt, term, partial
        raise Untranslatable("call of " + name)

    def struct(self, e, env):
        name = self.fn.owner if e[1] == "Self" else e[1]
        if name not in STRUCTS:
            raise Untranslatable("struct literal " + name)
        st = STRUCTS[name]
        given = dict(e[2])
        if len(given) != len(e[2]):
            raise Untranslatable("a field given twice in a struct literal")
        names = [f for f, _ in st["fields"]]
        for f in given:
            if f not in names:
                raise Untranslatable("no field %s in %s" % (f, name))
        base = None
        if e[3] is not None:
            b = e[3]
            if b[0] == "call" and b[1][0] == "path" and self.canon(b[1][1]) in ("Default::default", "std::default::Default::default") and not b[2]:
                bt, bp = self.struct_default(name)
            else:
                t, bt, bp = self.pure(b, env)
                need(t, ("struct", name), "base of the struct literal")
            base = (bt, bp)
        elif sorted(given) != sorted(names):
            raise Untranslatable("struct literal %s does not give all the fields of the struct" % name)
        subs = []
        for f, fe in e[2]:           # Rust evaluates the field expressions in the order they are written
            t, a, p = self.pure(fe, env)
            need(t, dict(st["fields"])[f], "field %s of %s" % (f, name))
            subs.append((a, p))
        order = [f for f, _ in e[2]]

        def build(xs):
            val = dict(zip(order, xs))
            if base is None:
                return "{| %s |}" % "; ".join("%s%s := %s" % (st["prefix"], f, val[f]) for f in names)
            bx = xs[-1]
            body = "{| %s |}" % "; ".join("%s%s := %s" % (st["prefix"], f, val[f] if f in val else "(%s%s base_)" % (st["prefix"], f))
                                          for f in names)
            return "(let base_ := %s in %s)" % (bx, body)
        term, partial = self.binds(subs + ([base] if base is not None else []), build)
        return ("struct", name), term, partial

    # ---- method calls
    def mcall(self, e, env):
        recv, name, args = e[1], e[2], e[3]
        rt, r, rp = self.pure(recv, env)
        if isinstance(rt, tuple) and rt[0] == "struct" and (rt[1], name) in self.u.funcs:
            return self.pure_user(self.u.funcs[(rt[1], name)], (rt, r, rp), args, env)
        tag = rt[0] if isinstance(rt, tuple) else rt

        def one(fmt, ty, *subs):
            """receiver and the (already translated) arguments, left to right"""
            term, partial = self.binds([(r, rp)] + [(s[1], s[2]) for s in subs], lambda xs: fmt % tuple(xs))
            return ty, term, partial

        def argn(n):
            if len(args) != n:
                raise Untranslatable(".%s with %d arguments" % (name, len(args)))
            return self.pure_args(args, env)

        def with_closure(fmt, ty_of, ptys, fallible=None):
            """receiver + one closure argument; fmt has %s for the receiver and {c} for the closure"""
            ct, c, cp = self.closure(args[0], ptys, env)
            if cp:
                if fallible is None:
                    raise Untranslatable("a closure that can panic as the argument of ." + name)
                ty, term, _ = one(fallible.replace("{c}", c.replace("%", "%%")), ty_of(ct))
                return ty, self.flat(term, rp), True
            return one(fmt.replace("{c}", c.replace("%", "%%")), ty_of(ct))

        if tag == "regexres" and name == "unwrap" and not args:
            return ("regex", rt[1]), r, rp           # the literal is a valid regular expression (REGEXES)
        if tag == "regex" and name == "replace" and len(args) == 2:
            key = (rt[1], args[1][1] if args[1][0] == "str" else None)
            if key not in REGEX_REPLACE:
                raise Untranslatable("Regex::replace for the expression %r / replacement %r" % key)
            (x,) = self.pure_args(args[:1], env)
            need(x[0], "text", "Regex::replace")
            return one("(" + REGEX_REPLACE[key] + " %s %s)", "text", x)
        if name in IDENTITY and not args:
            if tag == "nat" and name == "to_string":
                return one("(rs_u64_to_string %s)", "text")
            if tag == "uchar" and name == "to_string":
                return one("(rs_char_to_string %s)", "text")
            if tag in ("text", "vec", "opt", "err", "cursor", "reader", "struct", "lhs", "hm", "lhm") or name in ("clone", "into"):
                if tag == "text" and name == "as_bytes":
                    return "text", r, rp
                return rt, r, rp
        if tag == "text":
            if not args and name in ("trim", "trim_end", "is_empty", "len", "to_lowercase"):
                fn, ty = {"trim": ("rs_str_trim", "text"), "trim_end": ("rs_str_trim_end", "text"),
                          "is_empty": ("rs_is_empty", "bool"), "len": ("rs_str_len", "nat"),
                          "to_lowercase": ("rs_to_lowercase", "text")}[name]
                return one("(" + fn + " %s)", ty)
            if name in ("starts_with", "ends_with", "split", "find", "contains") and len(args) == 1:
                (x,) = argn(1)
                if x[0] == "char":
                    fn, ty = {"starts_with": ("(rs_starts_with_char %s %s)", "bool"), "ends_with": ("(rs_ends_with_char %s %s)", "bool"),
                              "split": ("(rs_split_char %s %s)", ("vec", "text")), "find": (None, ("opt", "nat")),
                              "contains": (None, "bool")}[name]
                    if fn is None:      # RustStr.v takes the char first
                        term, partial = self.binds([(r, rp), (x[1], x[2])], lambda xs: "(rs_%s_char %s %s)" % (name, xs[1], xs[0]))
                        return ty, term, partial
                    return one(fn, ty, x)
                if x[0] == "text" and name in ("starts_with", "ends_with"):
                    return one("(rs_%s %%s %%s)" % name, "bool", x)
                if x[0] == "text" and name == "contains":
                    return one("(rs_contains_str %s %s)", "bool", x)
                if x[0] == "text" and name == "split":
                    if args[0][0] != "str" or args[0][1] == "":
                        raise Untranslatable(".split with a pattern that is not a non-empty string literal")
                    return one("(rs_split_str %s %s)", ("vec", "text"), x)
                raise Untranslatable(".%s with a %s" % (name, tyname(x[0])))
            if name == "replace" and len(args) == 2:
                a_, b_ = argn(2)
                need(a_[0], "text", "replace")
                need(b_[0], "text", "replace")
                return one("(rs_str_replace %s %s %s)", "text", a_, b_)
            if name == "splitn" and len(args) == 2:
                n_, x = argn(2)
                need(n_[0], "nat", "splitn")
                need(x[0], "char", "splitn pattern")
                return one("(rs_splitn_char %s %s %s)", ("vec", "text"), n_, x)
            if name == "trim_end_matches" and len(args) == 1:
                if args[0][0] != "closure":
                    raise Untranslatable("trim_end_matches with a pattern that is not a closure")

                def chk(ct):
                    need(ct, "bool", "closure of trim_end_matches")
                    return "text"
                return with_closure("(rs_str_trim_end_matches {c} %s)", chk, ["uchar"])
        if tag == "opt":
            T_ = rt[1]
            if name == "unwrap" and not args:
                return T_, self.flat(r, rp), True
            if name == "unwrap_or":
                (d,) = argn(1)
                return one("(rs_unwrap_or %s %s)", need(T_, d[0], "unwrap_or"), d)
            if name == "is_some" and not args:
                return one("(rs_is_some %s)", "bool")
            if name == "map" and len(args) == 1:
                return with_closure("(rs_opt_map {c} %s)", lambda ct: ("opt", ct), [T_], "(rs_opt_map_opt {c} %s)")
            if name == "and_then" and len(args) == 1:
                def chk2(ct):
                    if not (isinstance(ct, tuple) and ct[0] == "opt"):
                        raise Untranslatable("and_then with a closure that returns a " + tyname(ct))
                    return ct
                return with_closure("(rs_and_then %s {c})", chk2, [T_])
        if tag == "vec":
            T_ = rt[1]
            if name == "map" and len(args) == 1:
                return with_closure("(rs_iter_map {c} %s)", lambda ct: ("vec", ct), [T_], "(rs_iter_map_opt {c} %s)")
            if name == "len" and not args:
                return one("(rs_vec_len %s)", "nat")
            if name == "is_empty" and not args:
                return one("(rs_vec_is_empty %s)", "bool")
        if tag in ("hm", "lhm"):
            V = rt[1]
            if name == "get":
                (kx,) = argn(1)
                need(kx[0], "text", "key")
                return one("(%s_get %%s %%s)" % tag, ("opt", V), kx)
            if name == "values" and tag == "lhm" and not args:
                return one("(lhm_values %s)", ("vec", V))
            if name == "contains_key" and tag == "hm":
                (kx,) = argn(1)
                need(kx[0], "text", "key")
                return one("(hm_contains_key %s %s)", "bool", kx)
        raise Untranslatable("method .%s on a %s" % (name, tyname(rt)))

    # ---- if / match / blocks as values
    def join(self, branches):
        """branches [(type, term, partial)] -> (type, [terms], partial) with a common type and partiality"""
        t = "any"
        for b in branches:
            t = need(t, b[0], "branches")
        partial = any(b[2] for b in branches)
        return t, [self.lift(b[1], b[2], partial) for b in branches], partial

    def pure_if(self, e, env):
        cond, th, el = e[1], e[2], e[3]
        if el is None:
            el = ("block", [], None)            # the value of the missing else is ()
        if cond[0] == "cond":
            tc, c, pc = self.pure(cond[1], env)
            need(tc, "bool", "condition")
            t, (a, b), p = self.join([self.pure_block(th, env), self.pure_block(el, env)])
            if pc:
                return t, "(match %s with Some true => %s | Some false => %s | None => None end)" % (
                    c, self.lift(a, p, True), self.lift(b, p, True)), True
            return t, "(if %s then %s else %s)" % (c, a, b), p
        pat, scrut = cond[1], cond[2]
        ts, s, ps = self.pure(scrut, env)
        if not (isinstance(ts, tuple) and ts[0] == "opt" and pat[0] == "pctor" and pat[1] == "Some" and len(pat[2]) == 1):
            raise Untranslatable("if let on a %s" % tyname(ts))
        self.depth += 1
        env2, x = self.bind_pat(env, pat[2][0], ts[1])
        ba = self.pure_block(th, env2)
        self.depth -= 1
        t, (a, b), p = self.join([ba, self.pure_block(el, env)])
        if ps:
            return t, "(match %s with Some (Some %s) => %s | Some None => %s | None => None end)" % (
                s, x, self.lift(a, p, True), self.lift(b, p, True)), True
        return t, "(match %s with Some %s => %s | None => %s end)" % (s, x, a, b), p

    def str_arms(self, arms):
        """arms of a match on a &str: ([(literal, body)], default body)"""
        lits, dflt = [], None
        for i, (pat, body) in enumerate(arms):
            if pat[0] == "pstr":
                if dflt is not None:
                    raise Untranslatable("an arm after the default arm")
                if pat[1] in [x for x, _ in lits]:
                    raise Untranslatable("the same literal in two arms")
                lits.append((pat[1], body))
            elif pat[0] == "pwild" or (pat[0] == "pvar" and False):
                if dflt is not None:
                    raise Untranslatable("two default arms")
                dflt = body
            else:
                raise Untranslatable("an arm of a match on a string that is neither a literal nor _")
        if dflt is None:
            raise Untranslatable("match on a string without a default arm")
        return lits, dflt

    def pure_match(self, e, env):
        ts, s, ps = self.pure(e[1], env)
        arms = e[2]
        if ts == "text":
            lits, dflt = self.str_arms(arms)
            t, terms, p = self.join([self.pure_block(b, env) for _, b in lits] + [self.pure_block(dflt, env)])
            x = s if (is_atomic(s) and not ps) else self.fresh("m")
            out = terms[-1]
            for (lit, _), tm in reversed(list(zip(lits, terms[:-1]))):
                out = "(if (rs_eq %s %s) then %s else %s)" % (x, coq_text(lit), tm, out)
            if ps:
                return t, "(match %s with Some %s => %s | None => None end)" % (s, x, self.lift(out, p, True)), True
            if x != s:
                out = "(let %s := %s in %s)" % (x, s, out)
            return t, out, p
        if isinstance(ts, tuple) and ts[0] == "opt" and len(arms) == 2:
            some = [(p_, b) for p_, b in arms if p_[0] == "pctor" and p_[1] == "Some" and len(p_[2]) == 1]
            none = [(p_, b) for p_, b in arms if p_ == ("ppath", "None") or p_ == ("pwild",)]
            if len(some) == 1 and len(none) == 1:
                return self.pure_if(("if", ("iflet", some[0][0], e[1]), ("block", [], some[0][1]), ("block", [], none[0][1])), env)
        raise Untranslatable("match on a " + tyname(ts))

    def pure_block(self, blk, env):
        if blk[0] != "block":
            return self.pure(blk, env)
        self.depth += 1
        try:
            return self.pure_seq(blk[1], blk[2], env)
        finally:
            self.depth -= 1

    def pure_seq(self, stmts, final, env):
        if not stmts:
            if final is None:
                return "unit", "tt", False
            return self.pure(final, env)
        st, rest = stmts[0], stmts[1:]
        if st[0] == "ret":
            if rest or final is not None:
                raise Untranslatable("code after return")
            if None in self.loops:
                raise Untranslatable("return inside a closure")
            return self.pure(st[1], env) if st[1] is not None else ("unit", "tt", False)
        if st[0] == "let":
            if st[1][0] == "pvar" and st[1][2]:
                raise Untranslatable("let mut in an expression-only function / closure")
            t, a, p = self.pure(st[2], env)
            env2, x = self.bind_pat(env, st[1], t)
            rt, r, rp = self.pure_seq(rest, final, env2)
            if p:
                return rt, "(match %s with Some %s => %s | None => None end)" % (a, x, self.lift(r, rp, True)), True
            return rt, "(let %s := %s in\n %s)" % (x, a, r), rp
        if st[0] == "expr" and st[1][0] == "if" and st[1][3] is None and st[1][2][1] and st[1][2][1][-1][0] == "ret" \
                and st[1][2][2] is None:
            # if c { ..; return e; }  followed by the rest: the rest is the else branch
            node = st[1]
            return self.pure_if(("if", node[1], node[2], ("block", rest, final)), env)
        raise Untranslatable("statement %s in an expression-only function / closure" % st[0])


class EmFlow:
    """statements and effectful expressions, continuation-passing: k(type, term) / k(env) is the Coq term of what follows"""

    # ---- expressions
    def ev(self, e, env, k):
        if not self.eff(e, env):
            t, a, p = self.pure(e, env)
            if p:
                x = self.fresh("o")
                return "(match %s with Some %s => %s | None => %s end)" % (a, x, k(t, x), self.panic_term())
            return k(t, a)
        kind = e[0]
        if kind == "try":
            return self.ev_try(e, env, k)
        if kind == "mcall":
            return self.ev_mcall(e, env, k)
        if kind == "call":
            return self.ev_call(e, env, k)
        if kind == "not":
            return self.ev(e[1], env, lambda t, a: k(need(t, "bool", "!"), "(negb %s)" % a))
        if kind == "bin":
            if e[1] in ("&&", "||") and self.eff(e[3], env):
                raise Untranslatable("an effectful expression on the right of %s" % e[1])
            return self.ev_temps([e[2], e[3]], env, lambda xs, en: self.ev(("bin", e[1], xs[0], xs[1]), en, k))
        if kind == "if":
            return self.ev_if(e, env, k)
        if kind == "match":
            return self.ev_match(e, env, k)
        if kind == "block":
            return self.block_value(e, env, k)
        if kind in ("loop", "while"):
            if self.plain:
                raise NotPlain()
            return self.loop_(e, env, lambda en: k("unit", "tt"), tail=False)
        if kind in ("field", "index"):
            subs = [c for c in e[1:] if isinstance(c, tuple)]
            return self.ev_temps(subs, env, lambda xs, en: self.ev((kind,) + tuple(xs) + tuple(c for c in e[1:] if not isinstance(c, tuple)), en, k))
        raise Untranslatable("an effectful expression inside a %s expression" % kind)

    def ev_try(self, e, env, k):
        """e?  on a Result: the RErr arm returns the error (converted by From: one error type here)"""
        if self.plain:
            raise NotPlain()
        if None in self.loops:
            raise Untranslatable("? inside a closure")
        if not (isinstance(self.fn.ret, tuple) and self.fn.ret[0] == "result"):
            raise Untranslatable("? in a function that does not return a Result")

        def got(t, a):
            if not (isinstance(t, tuple) and t[0] == "result"):
                raise Untranslatable("? on a " + tyname(t))
            x, er = self.fresh("v"), self.fresh("e")
            return "(match %s with\n | ROk %s => %s\n | RErr %s => (LReturn %s) end)" % (
                a, x, k(t[1], x), er, self.pack_result(env, "(RErr %s)" % er))
        return self.ev(e[1], env, got)

    def ev_temps(self, exprs, env, k2):
        """evaluate exprs left to right into temporaries; k2([AST of each value], env')"""
        def go(todo, done, en):
            if not todo:
                return k2(done, en)
            e, rest = todo[0], todo[1:]
            if not self.eff(e, en) and not any(self.eff(x, en) for x in rest):
                return go(rest, done + [e], en)

            def got(t, a):
                name = "%" + self.fresh("tmp")
                en2 = dict(en)
                if is_atomic(a):
                    en2[name] = Var(t, a, False, None, self.depth)
                    return go(rest, done + [("var", name)], en2)
                x = self.fresh("t")
                en2[name] = Var(t, x, False, None, self.depth)
                return "(let %s := %s in\n %s)" % (x, a, go(rest, done + [("var", name)], en2))
            return self.ev(e, en, got)
        return go(list(exprs), [], env)

    def ev_args(self, args, env, k2):
        """argument values (type, term), evaluated left to right"""
        def done(xs, en):
            subs = [self.pure(x, en) for x in xs]
            names = []
            out_wrap = []
            for (t, a, p) in subs:
                if p:
                    x = self.fresh("o")
                    out_wrap.append((x, a))
                    names.append((t, x))
                else:
                    names.append((t, a))
            body = k2(names)
            for x, a in reversed(out_wrap):
                body = "(match %s with Some %s => %s | None => %s end)" % (a, x, body, self.panic_term())
            return body
        return self.ev_temps(args, env, done)

    def ev_mcall(self, e, env, k):
        recv, name, args = e[1], e[2], e[3]
        if name == "unwrap" and not args:
            def got(t, a):
                if not (isinstance(t, tuple) and t[0] == "opt"):
                    raise Untranslatable("unwrap on a " + tyname(t))
                x = self.fresh("u")
                return "(match %s with Some %s => %s | None => %s end)" % (a, x, k(t[1], x), self.panic_term())
            return self.ev(recv, env, got)
        f = self.user_method(recv, name, env)
        if f is not None:
            self.u.require(f)
            if f.mode == "flow":
                return self.ev_user(f, recv, args, env, k)
        place = self.resolve_place(recv, env)
        if name == "read_line" and place is not None and place.ty == "reader" and len(args) == 1 and not self.eff(recv, env):
            bp = self.resolve_place(args[0], env)
            if bp is None or bp.ty != "text":
                raise Untranslatable("read_line into something that is not a mutable String")
            rd, ln, res = self.fresh("rd"), self.fresh("ln"), self.fresh("res")
            return "(let '(%s, %s, %s) := rs_read_line %s %s in\n %s)" % (
                rd, ln, res, place.read(), bp.read(), place.write(rd, bp.write(ln, k(("result", "nat"), res))))
        if name in BUILTIN_MUT and place is not None and not self.eff(recv, env):
            return self.ev_args(args, env, lambda xs: self.builtin_mut(place, name, xs, k))
        if name in ("or_default", "get_mut", "entry"):
            raise Untranslatable("a &mut borrow (.%s) that is neither bound by a let nor matched against Some(x)" % name)
        # the receiver or an argument is effectful; the method itself is not
        return self.ev_temps([recv] + list(args), env, lambda xs, en: self.ev(("mcall", xs[0], name, xs[1:]), en, k))

    def builtin_mut(self, place, name, xs, k):
        def argt(*tys):
            if len(xs) != len(tys):
                raise Untranslatable(".%s with %d arguments" % (name, len(xs)))
            for (t, _), w in zip(xs, tys):
                need(t, w, "argument of ." + name)
            return [a for _, a in xs]
        ty = place.ty
        tag = ty[0] if isinstance(ty, tuple) else ty
        cur = place.read()
        if tag == "text" and name == "push_str":
            (x,) = argt("text")
            return place.write("(rs_push_str %s %s)" % (cur, x), k("unit", "tt"))
        if tag in ("hm", "lhm") and name == "insert":
            if has_any(ty) and len(xs) == 2:
                place.ty = ty = (tag, need(ty[1], xs[1][0], "inserted value"))
            kx, v = argt("text", ty[1])
            return place.write("(%s_insert %s %s %s)" % (tag, cur, kx, v), k("unit", "tt"))     # the returned old value is dropped
        raise Untranslatable("method .%s on a %s" % (name, tyname(ty)))

    def ev_user(self, f, recv, args, env, k):
        """call of a translated flow-mode function: Some (new self, new &mut arguments.., value) | None = panic"""
        self.u.require(f)
        outs = []
        if f.self_kind == "mut":
            p = self.resolve_place(recv, env)
            if p is None:
                raise Untranslatable("%s called on something that cannot be assigned" % f.rust)
            outs.append(p)
        if f.self_kind is not None and recv is None:
            raise Untranslatable("method %s called without a receiver" % f.rust)
        for prm, a in zip(f.params, args):
            if prm[2]:
                outs.append(self.resolve_place(a, env))      # None: a temporary, its final value is dropped

        def done(xs):
            self.check_args(f, [(t, a, False) for t, a in xs[1 if recv is not None else 0:]])
            self_term = xs[0][1] if recv is not None else None
            call = self.user_call(f, self_term, [a for _, a in xs[1 if recv is not None else 0:]])
            names = ["_" if p is None else self.fresh("s") for p in outs]
            r = self.fresh("r")
            pat = names + ([] if f.ret == "unit" and names else [r])
            body = k(f.ret, "tt" if (f.ret == "unit" and names) else r)
            for p, nm in reversed(list(zip(outs, names))):
                if p is not None:
                    body = p.write(nm, body)
            return "(match %s with\n | Some %s => %s\n | None => %s end)" % (call, self.tup(pat), body, self.panic_term())
        return self.ev_args(([recv] if recv is not None else []) + list(args), env, done)

    def ev_local(self, lf, args, env, k):
        """call of a closure bound by `let`: its body with the parameters bound to the arguments; a `&mut`
           parameter IS the caller's variable"""
        if self.plain:
            raise NotPlain()
        clo = lf[1]
        params, body, flags = clo[1], clo[2], clo[3]
        if len(params) != len(args) or len(flags) != len(params):
            raise Untranslatable("closure called with %d arguments" % len(args))
        if contains(body, lambda n: n[0] in ("ret", "try", "break", "continue")):
            raise Untranslatable("control flow that leaves a local closure")
        if self.mut_roots(body, env, frozenset(x for p_ in params for x in pat_vars(p_))):
            raise Untranslatable("a local closure that assigns a captured variable")
        byval = [(p_, a) for p_, a, fl in zip(params, args, flags) if not fl]

        def bound(xs):
            env2 = dict(env)
            self.depth += 1
            lets = []
            vals = iter(xs)
            for p_, a, fl in zip(params, args, flags):
                if p_[0] != "pvar":
                    raise Untranslatable("closure parameter pattern")
                if fl:
                    pl = self.resolve_place(a, env)
                    if pl is None:
                        raise Untranslatable("a &mut argument of a closure that is not a mutable variable")
                    env2[p_[1]] = Var(pl.ty, pl.read(), True, pl, self.depth)
                else:
                    t, term = next(vals)
                    env2, x = self.bind(env2, p_[1], t)
                    lets.append((x, term))
            try:
                inner = self.block_value(body, env2, lambda t, a: k("unit", "tt") if t == "unit" else k(t, a))
            finally:
                self.depth -= 1
            for x, term in reversed(lets):
                if x != term:
                    inner = "(let %s := %s in\n %s)" % (x, term, inner)
            return inner
        return self.ev_args([a for _, a in byval], env, bound)

    def ev_call(self, e, env, k):
        lf = self.local_fn(e[1], env)
        if lf is not None:
            return self.ev_local(lf, e[2], env, k)
        f = self.user_fn(e[1], env)
        if f is not None:
            self.u.require(f)
            if f.mode == "flow":
                if f.self_kind is not None:
                    raise Untranslatable("method %s called as a function" % f.rust)
                return self.ev_user(f, None, e[2], env, k)
        if f is None and self.eff(e[1], env):
            raise Untranslatable("call of an effectful expression")
        return self.ev_temps(e[2], env, lambda xs, en: self.ev(("call", e[1], xs), en, k))

    def block_value(self, blk, env, k):
        if blk[0] != "block":
            return self.ev(blk, env, k)
        if blk[2] is not None and blk[2][0] == "if" and blk[2][3] is None:
            blk = ("block", blk[1] + [("expr", blk[2])], None)      # an `if` without else has the value ()
        self.depth += 1
        try:
            return self.seq(blk[1], env, lambda en: k("unit", "tt") if blk[2] is None else self.ev(blk[2], en, k))
        finally:
            self.depth -= 1

    def getmut_of(self, e, env):
        """e = M.get_mut(k) for a map place M, or a variable bound to one: (map place, key expression | key term, V)"""
        if e[0] == "var" and e[1] in env and isinstance(env[e[1]].ty, tuple) and env[e[1]].ty[0] == "getmut":
            t = env[e[1]].ty
            return t[1], None, t[2], t[3]
        if e[0] == "mcall" and e[2] == "get_mut" and len(e[3]) == 1:
            m = self.resolve_place(e[1], env)
            if m is not None and isinstance(m.ty, tuple) and m.ty[0] in ("hm", "lhm"):
                return m, e[3][0], None, m.ty[1]
        return None

    def ev_getmut(self, gm, some_pat, th, el, env, k):
        """match M.get_mut(key) { Some(x) => th, None => el }: x is a copy of the value, written back to M[key]
           after every mutation"""
        m, kexpr, kterm, V = gm

        def body(kt):
            self.depth += 1
            if some_pat[0] == "pvar":
                under = Place("hmval", V, parent=m, key=kt)
                env2, x = self.bind(env, some_pat[1], V, mutable=True,
                                    place_of=lambda coq: Place("alias", V, coq=coq, under=under, rust=some_pat[1]))
            elif some_pat[0] == "pwild":
                env2, x = env, "_"
            else:
                raise Untranslatable("pattern inside Some(..)")
            a = self.block_value(th, env2, k)
            self.depth -= 1
            b = self.block_value(el, env, k) if el is not None else k("unit", "tt")
            get = "lhm_get" if m.ty[0] == "lhm" else "hm_get"
            return "(match %s %s %s with\n | Some %s => %s\n | None => %s end)" % (get, m.read(), kt, x, a, b)
        if kterm is not None:
            return body(kterm)
        return self.keyed(kexpr, env, body)

    def keyed(self, kexpr, env, body):
        """evaluate a map key into an atomic term first"""
        def got(t, a):
            need(t, "text", "map key")
            if is_atomic(a):
                return body(a)
            kx = self.fresh("key")
            return "(let %s := %s in\n %s)" % (kx, a, body(kx))
        return self.ev(kexpr, env, got)

    def ev_if(self, e, env, k):
        cond, th, el = e[1], e[2], e[3]
        if cond[0] == "cond":
            def got(t, c):
                need(t, "bool", "condition")
                a = self.block_value(th, env, k)
                b = self.block_value(el, env, k) if el is not None else k("unit", "tt")
                return "(if %s\n then %s\n else %s)" % (c, a, b)
            return self.ev(cond[1], env, got)
        pat, scrut = cond[1], cond[2]
        if not (pat[0] == "pctor" and pat[1] == "Some" and len(pat[2]) == 1):
            raise Untranslatable("if let with a pattern that is not Some(x)")
        gm = self.getmut_of(scrut, env)
        if gm is not None:
            return self.ev_getmut(gm, pat[2][0], th, el, env, k)

        def got2(t, s):
            if not (isinstance(t, tuple) and t[0] == "opt"):
                raise Untranslatable("if let Some(..) on a %s" % tyname(t))
            self.depth += 1
            env2, x = self.bind_pat(env, pat[2][0], t[1])
            a = self.block_value(th, env2, k)
            self.depth -= 1
            b = self.block_value(el, env, k) if el is not None else k("unit", "tt")
            return "(match %s with\n | Some %s => %s\n | None => %s end)" % (s, x, a, b)
        return self.ev(scrut, env, got2)

    def ev_match(self, e, env, k):
        arms = e[2]
        blk = lambda b: b if b[0] == "block" else ("block", [], b)   # noqa: E731
        if len(arms) == 2:
            # match <Option> { Some(x) => A, None | _ => B }  is  if let Some(x) = .. { A } else { B }
            some = [(p_, b) for p_, b in arms if p_[0] == "pctor" and p_[1] == "Some" and len(p_[2]) == 1]
            none = [(p_, b) for p_, b in arms if p_ == ("ppath", "None") or p_ == ("pwild",)]
            if len(some) == 1 and len(none) == 1:
                return self.ev_if(("if", ("iflet", some[0][0], e[1]), blk(some[0][1]), blk(none[0][1])), env, k)
        if any(p_[0] == "pstr" for p_, _ in arms):
            lits, dflt = self.str_arms(arms)

            def got(t, s):
                need(t, "text", "match on string literals")
                x = s if is_atomic(s) else self.fresh("m")
                out = self.block_value(blk(dflt), env, k)
                for lit, body in reversed(lits):
                    out = "(if (rs_eq %s %s)\n then %s\n else %s)" % (x, coq_text(lit), self.block_value(blk(body), env, k), out)
                if x != s:
                    out = "(let %s := %s in\n %s)" % (x, s, out)
                return out
            return self.ev(e[1], env, got)
        raise Untranslatable("match with mutation / control flow on something that is not an Option or a string")

    # ---- statements
    def seq(self, stmts, env, k):
        if not stmts:
            return k(env)
        st, rest = stmts[0], stmts[1:]
        kind = st[0]

        def cont(en):
            return self.seq(rest, en, k)
        if kind == "let":
            return self.let(st[1], st[2], env, cont)
        if kind == "expr":
            e = st[1]
            if e[0] == "if" and not has_control(e):
                plain = self.plain_if(e, env, cont)
                if plain is not None:
                    return plain
            if e[0] in ("loop", "while"):
                return self.loop_(e, env, cont, tail=False)
            if rest and not self.plain:
                return self.join_stmt(e, env, cont)
            return self.ev(e, env, lambda t, a: cont(env))
        if kind == "assign":
            return self.assign(st, env, cont)
        if kind == "for":
            return self.for_(st, env, cont)
        if kind == "ret":
            if rest:
                raise Untranslatable("code after return")
            return self.ret_term(st[1], env)
        if kind == "break":
            if rest:
                raise Untranslatable("code after break")
            if not self.loops or self.loops[-1] is None:
                raise Untranslatable("break outside a loop")
            lp = self.loops[-1]
            if lp["tail"]:
                # the loop is the value of the function: `break v` returns v
                return self.ret_term(st[1], env)
            if st[1] is not None:
                raise Untranslatable("break with a value in a loop that is not the value of the function")
            return "(LBreak %s)" % self.tup(lp["carried"])
        if kind == "continue":
            if rest:
                raise Untranslatable("code after continue")
            if not self.loops or self.loops[-1] is None:
                raise Untranslatable("continue outside a loop")
            return "(LNext %s)" % self.tup(self.loops[-1]["carried"])
        raise Untranslatable("statement " + kind)

    def join_stmt(self, e, env, cont):
        """an expression statement followed by other statements.  When more than one path through it falls
           through to what follows (if / if let / match without else, a call of a local closure), what follows
           is bound ONCE, as a local function of the variables the statement may assign (a join point)."""
        saved = (self.n, dict(self.decl), self.fn.uses_ord, self.fn.uses_fuel)
        names = self.ordered(self.mut_roots(("block", [("expr", e)], None), env))
        count = [0]
        mark = "%JOIN%"

        def kj(t, a):
            count[0] += 1
            return "(%s %s)" % (mark, self.tup(names))
        body = self.ev(e, env, kj)
        if count[0] <= 1:
            self.n, self.decl, self.fn.uses_ord, self.fn.uses_fuel = saved
            return self.ev(e, env, lambda t, a: cont(env))
        name = self.fresh("k")
        binder, prefix = self.typed_lam(names, env)
        return "(rs_join (fun %s =>\n %s%s)\n (fun %s =>\n %s))" % (binder, prefix, cont(env), name, body.replace(mark, name))

    def typed_lam(self, names, env):
        """binder of a join point: the tuple of `names`, with its type when it is known"""
        tys = []
        for nm in names:
            t = None
            for v in env.values():
                if v.coq == nm and not (isinstance(v.ty, tuple) and v.ty[0] in ("getmut", "localfn")):
                    t = v.place.ty if (v.place is not None and v.place.kind == "var" and has_any(v.ty)) else v.ty
            if t is None or has_any(t):
                return self.lam_pat(names), ""
            tys.append(coq_ty(t, True))
        if not names:
            return "(_ : unit)", ""
        if len(names) == 1:
            return "(%s : %s)" % (names[0], tys[0]), ""
        return "(jp_ : %s)" % " * ".join(tys), "let '%s := jp_ in\n " % self.tup(names)

    def plain_if(self, e, env, cont):
        """an `if` without control flow whose branches cannot panic: a `let` of the variables it assigns"""
        names = self.ordered(self.mut_roots(("block", [("expr", ("if", ("cond", ("lit", "true")), e[2], e[3]))], None), env))
        saved_n = self.n

        def attempt():
            old = self.plain
            self.plain = True
            try:
                a = self.block_value(e[2], env, lambda t, x: self.tup(names))
                b = self.block_value(e[3], env, lambda t, x: self.tup(names)) if e[3] is not None else self.tup(names)
            finally:
                self.plain = old
            return a, b
        cond = e[1]
        try:
            if cond[0] == "cond" and not self.eff(cond[1], env):
                tc, c, pc = self.pure(cond[1], env)
                need(tc, "bool", "condition")
                if pc:
                    return None
                a, b = attempt()
                if not names:
                    return None
                pat = names[0] if len(names) == 1 else "'" + self.tup(names)
                return "(let %s := (if %s then %s else %s) in\n %s)" % (pat, c, a, b, cont(env))
        except NotPlain:
            self.n = saved_n
            return None
        return None

    def let(self, pat, init, env, cont):
        if pat[0] not in ("pvar", "pwild"):
            raise Untranslatable("let pattern " + pat[0])
        mutable = pat[0] == "pvar" and pat[2]
        if init[0] == "closure" and pat[0] == "pvar" and not mutable:
            # a local closure: inlined at each call (it captures by reference and nothing it captures can
            # be assigned while it is alive)
            env2 = dict(env)
            env2[pat[1]] = Var(("localfn", init), "", False, None, self.depth)
            return cont(env2)
        # &mut borrows of a map entry
        b = self.borrow(init, env)
        if b is not None:
            if pat[0] != "pvar":
                raise Untranslatable("a &mut borrow bound to _")
            if self.plain:
                raise NotPlain()
            return b(pat[1], cont)

        def got(t, a):
            if pat[0] == "pwild":
                return cont(env)
            env2, x = self.bind(env, pat[1], t, mutable)
            if a == x:
                return cont(env2)
            return "(let %s := %s in\n %s)" % (x, a, cont(env2))
        return self.ev(init, env, got)

    def borrow(self, e, env):
        """`let x = <e>` where e borrows (part of) a map mutably: a function (x, cont) -> term, or None.
             M.entry(k).or_default()     x = a copy of the value, written back to M[k] after every mutation
             M.get_mut(k)                x = the Option<&mut V>; it can only be matched against Some(y) / None"""
        if e[0] != "mcall":
            return None
        name = e[2]

        def map_place(m):
            p = self.resolve_place(m, env)
            if p is None or not (isinstance(p.ty, tuple) and p.ty[0] in ("hm", "lhm")):
                return None
            return p

        if name == "or_default" and not e[3] and e[1][0] == "mcall" and e[1][2] == "entry" and len(e[1][3]) == 1:
            m = map_place(e[1][1])
            if m is None or m.ty[0] != "hm":
                return None

            def mk3(x, cont):
                def body(kt):
                    V = m.ty[1]
                    under = Place("hmval", V, parent=m, key=kt)
                    env2, coq = self.bind(env, x, V, mutable=True,
                                          place_of=lambda c: Place("alias", V, coq=c, under=under, rust=x))
                    t1 = self.fresh("m")
                    return "(let '(%s, %s) := hm_entry_or %s %s %s in\n %s)" % (
                        t1, coq, m.read(), kt, self.default_of(V), m.write(t1, cont(env2)))
                return self.keyed(e[1][3][0], env, body)
            return mk3
        if name == "get_mut" and len(e[3]) == 1:
            m = map_place(e[1])
            if m is None:
                return None

            def mk4(x, cont):
                def body(kt):
                    env2 = dict(env)
                    env2[x] = Var(("getmut", m, kt, m.ty[1]), "", False, None, self.depth)
                    return cont(env2)
                return self.keyed(e[3][0], env, body)
            return mk4
        return None

    def assign(self, st, env, cont):
        op, lhs, rhs = st[1], st[2], st[3]
        place = self.resolve_place(lhs, env)
        if place is None:
            raise Untranslatable("assignment to something that is not a mutable variable or a field of one")

        def got(t, a):
            if op == "=":
                need(t, place.ty, "assignment")
                return place.write(a, cont(env))
            need(t, "nat", op)
            need(place.ty, "nat", op)
            if op == "+=":
                return place.write("(%s + %s)" % (place.read(), a), cont(env))
            x = self.fresh("d")
            return "(match rs_usize_sub %s %s with\n | Some %s => %s\n | None => %s end)" % (
                place.read(), a, x, place.write(x, cont(env)), self.panic_term())
        return self.ev(rhs, env, got)

    def pack_result(self, env, val):
        f = self.fn
        outs = []
        if f.self_kind == "mut":
            outs.append(env["self"].coq)
        outs += [env[p[0]].coq for p in f.params if p[2]]
        if outs and f.ret == "unit":
            return self.tup(outs)
        return self.tup(outs + [val])

    def ret_term(self, e, env):
        if None in self.loops:
            raise Untranslatable("return inside a closure")
        if self.plain:
            raise NotPlain()

        def fin(t, a):
            need(t, self.fn.ret, "returned value")
            return "(LReturn %s)" % self.pack_result(env, a)
        if e is None:
            return fin("unit", "tt")
        if e[0] == "loop":
            return self.loop_(e, env, None, tail=True)
        return self.ev(e, env, fin)

    # ---- loops
    def iter_source(self, t, term):
        """what `for x in <a value of type t>` iterates over: (item type, list term)"""
        if isinstance(t, tuple) and t[0] in ("vec", "lhs") and t[1] != "any":
            return t[1], term
        if isinstance(t, tuple) and t[0] == "lhm" and t[1] != "any":
            return ("tuple", ["text", t[1]]), "(lhm_iter %s)" % term       # insertion order
        if isinstance(t, tuple) and t[0] == "hm" and t[1] == "text":
            self.fn.uses_ord = True                                          # unspecified order
            return ("tuple", ["text", "text"]), "(hm_iter ord %s)" % term
        raise Untranslatable("for over a " + tyname(t))

    def for_(self, st, env, cont):
        pat, it, body = st[1], st[2], st[3]
        if self.plain:
            raise NotPlain()
        if body[2] is not None:
            body = ("block", body[1] + [("expr", body[2])], None)

        def got(t, l):
            et, lst = self.iter_source(t, l)
            carried = self.ordered(self.mut_roots(body, env, frozenset(pat_vars(pat))))
            self.depth += 1
            env2, x = self.bind_pat(env, pat, et)
            self.loops.append({"carried": carried, "tail": False})
            try:
                b = self.seq(body[1], env2, lambda en: "(LNext %s)" % self.tup(carried))
            finally:
                self.loops.pop()
                self.depth -= 1
            return ("(match rs_for (fun %s %s =>\n %s)\n %s %s with\n | Done %s => %s\n | Returned ret_ => LReturn ret_\n | Panicked => %s end)"
                    % (x, self.lam_pat(carried), b, lst, self.tup(carried), self.match_pat(carried), cont(env), self.panic_term()))
        return self.ev(it, env, got)

    def loop_(self, e, env, cont, tail):
        """loop { body } / while c { body }; tail = the loop is the value of the function (only `loop`)"""
        body = e[1] if e[0] == "loop" else e[2]
        if body[2] is not None:
            body = ("block", body[1] + [("expr", body[2])], None)
        carried = self.ordered(self.mut_roots(body, env))
        self.fn.uses_fuel = True
        cond_term = None
        if e[0] == "while":
            if self.eff(e[1], env):
                raise Untranslatable("a while condition with effects")
            tc, c, pc = self.pure(e[1], env)
            need(tc, "bool", "while condition")
            if pc:
                raise Untranslatable("a while condition that can panic")
            cond_term = c
        self.loops.append({"carried": carried, "tail": tail})
        self.depth += 1
        try:
            b = self.seq(body[1], env, lambda en: "(LNext %s)" % self.tup(carried))
        finally:
            self.depth -= 1
            self.loops.pop()
        if e[0] == "loop":
            head = "rs_loop fuel (fun %s =>\n %s)\n %s" % (self.lam_pat(carried), b, self.tup(carried))
        else:
            head = "rs_while fuel (fun %s => %s)\n (fun %s =>\n %s)\n %s" % (
                self.lam_pat(carried), cond_term, self.lam_pat(carried), b, self.tup(carried))
        if tail:
            # every `break` of a tail loop carries the value of the function and was translated as a return
            return "(match %s with\n | Done _ => LPanic\n | Returned ret_ => LReturn ret_\n | Panicked => LPanic end)" % head
        return "(match %s with\n | Done %s => %s\n | Returned ret_ => LReturn ret_\n | Panicked => %s end)" % (
            head, self.match_pat(carried), cont(env), self.panic_term())


class Emitter(Em, EmPure, EmFlow):
    pass


# ======================================================================= unit
def strip_tests(src):
    """remove every `#[cfg(test)] mod name { .. }`"""
    while True:
        m = re.search(r"#\[cfg\(test\)\]\s*mod\s+\w+\s*\{", src)
        if not m:
            return src
        body = pins.balanced(src, m.end() - 1)
        if body is None:
            raise Untranslatable("unbalanced test module")
        src = src[:m.start()] + src[m.end() - 1 + len(body):]


def blank_strings(src):
    """src with the contents of string / char literals replaced by spaces (same length): for counting braces"""
    out = []
    i = 0
    n = len(src)
    while i < n:
        c = src[i]
        if c == '"':
            j = i + 1
            while j < n and src[j] != '"':
                j += 2 if src[j] == "\\" else 1
            out.append('"' + " " * (j - i - 1) + '"')
            i = j + 1
            continue
        m = re.match(r"'(?:[^'\\]|\\.)'", src[i:i + 4])
        if c == "'" and m:
            out.append("'" + " " * (len(m.group(0)) - 2) + "'")
            i += len(m.group(0))
            continue
        out.append(c)
        i += 1
    return "".join(out)


_BLANK = {}


def depth_at(src, pos):
    """brace depth of src at pos"""
    b = _BLANK.get(src)
    if b is None:
        b = _BLANK[src] = blank_strings(src)
    return b.count("{", 0, pos) - b.count("}", 0, pos)


def find_fns(region):
    """[(name, generics text, params text, return text | None, body text, [attrs])] of the functions at brace depth 0"""
    out = []
    for m in re.finditer(r"\bfn\s+(\w+)\s*", region):
        if depth_at(region, m.start()) != 0:
            continue
        i = m.end()
        generics = ""
        if region[i:i + 1] == "<":
            depth, j = 0, i
            while True:
                if region[j] == "<":
                    depth += 1
                elif region[j] == ">" and region[j - 1] != "-":
                    depth -= 1
                    if depth == 0:
                        break
                j += 1
            generics = region[i + 1:j]
            i = j + 1
        while region[i].isspace():
            i += 1
        if region[i] != "(":
            raise Untranslatable("signature of " + m.group(1))
        start = i + 1
        depth = 1
        i += 1
        while depth:
            depth += (region[i] == "(") - (region[i] == ")")
            i += 1
        params = region[start:i - 1]
        j = region.find("{", i)
        semi = region.find(";", i)
        if j < 0 or (0 <= semi < j):
            continue                       # a declaration without body
        head = region[i:j]
        rm = re.match(r"\s*->\s*(.*?)\s*$", head, re.S)
        if head.strip() and not rm:
            raise Untranslatable("signature of %s: %r" % (m.group(1), head.strip()))
        body = pins.balanced(region, j)
        if body is None:
            raise Untranslatable("unbalanced body of " + m.group(1))
        out.append((m.group(1), generics, params, rm.group(1) if rm else None, body, leading_attrs(region, m.start())))
    return out


def regions_of(src, header_re):
    """the bodies of all enabled blocks introduced by header_re"""
    out = []
    for m in re.finditer(header_re, src):
        if depth_at(src, m.start()) != 0:
            continue
        if not attrs_enabled(leading_attrs(src, m.start())):
            continue
        body = pins.balanced(src, m.end() - 1)
        if body is None:
            raise Untranslatable("unbalanced block after " + header_re)
        out.append(body[1:-1])
    return out


OWNERS = [   # (owner, file key, [impl header regex])
    ("Config", "config", [r"impl\s+Config\s*\{"]),
    ("DefaultModel", "model", [r"impl\s+DefaultModel\s*\{", r"impl\s+Model\s+for\s+DefaultModel\s*\{"]),
    ("Assertion", "assertion", [r"impl\s+Default\s+for\s+Assertion\s*\{"]),
]
STRUCT_FILE = {"Config": "config", "DefaultModel": "model", "Assertion": "assertion"}


class LazyFuncs:
    def __init__(self, unit):
        self.u = unit
        self.raw = {}      # (owner, name) -> [(file key, generics, params, ret, body)]
        self.built = {}

    def __contains__(self, key):
        return key in self.raw

    def get(self, key, default=None):
        if key not in self.raw:
            return default
        if key not in self.built:
            cands = self.raw[key]
            if len(cands) != 1:
                raise Untranslatable("%d enabled definitions of %s::%s" % (len(cands), key[0], key[1]))
            self.built[key] = self.u.build_fn(key[0], key[1], *cands[0])
        return self.built[key]

    def __getitem__(self, key):
        f = self.get(key)
        if f is None:
            raise KeyError(key)
        return f


class Unit:
    def __init__(self):
        self.src = {}
        self.aliases = {}
        self.globs = {}
        self.consts = {}
        self.funcs = LazyFuncs(self)
        self.order = []
        self.stack = []
        STRUCTS.clear()
        TYPE_ALIASES.clear()
        _BLANK.clear()
        for key, rel in FILES.items():
            raw = pins.read(rel)
            if not raw:
                raise Untranslatable(rel + " not found")
            src = strip_tests(pins.strip_rust_comments(raw))
            self.src[key] = src
            self.aliases[key], self.globs[key] = parse_uses(src)
        for m in re.finditer(r"const\s+(\w+)\s*:\s*&(?:'static\s+)?str\s*=\s*\"((?:[^\"\\]|\\.)*)\"\s*;", self.src["config"]):
            if depth_at(self.src["config"], m.start()) == 0:
                self.consts[m.group(1)] = pins.rust_unescape(m.group(2))
        # structs (Assertion first: AssertionMap and DefaultModel refer to it)
        for name in ("Assertion", "Config", "DefaultModel"):
            key = STRUCT_FILE[name]
            src = self.src[key]
            m = re.search(r"struct\s+%s\s*\{" % name, src)
            if not m:
                raise Untranslatable("struct %s not found" % name)
            attrs = leading_attrs(src, m.start())
            derive_default = any(re.match(r"#\[\s*derive\s*\(", a) and re.search(r"\bDefault\b", a) for a in attrs)
            body = pins.balanced(src, m.end() - 1)[1:-1]
            fields = []
            for part in split_top(body):
                part = part.strip()
                if not part:
                    continue
                if part.startswith("#["):
                    raise Untranslatable("attribute on a field of " + name)
                fm = re.match(r"(?:pub(?:\s*\([^)]*\))?\s+)?(\w+)\s*:\s*(.+)$", part, re.S)
                if not fm:
                    raise Untranslatable("field of %s: %r" % (name, part))
                fields.append((fm.group(1), rust_type(fm.group(2), self.aliases[key])))
            STRUCTS[name] = {"coq": STRUCT_COQ[name][0], "prefix": STRUCT_COQ[name][1], "fields": fields,
                             "derive_default": derive_default}
            if name == "Assertion":
                for tm in re.finditer(r"(?:pub\s+)?type\s+(\w+)\s*=\s*([^;]+);", src):
                    if depth_at(src, tm.start()) == 0:
                        TYPE_ALIASES[tm.group(1)] = rust_type(tm.group(2), self.aliases[key])
        for owner, key, hdrs in OWNERS:
            for hdr in hdrs:
                regs = regions_of(self.src[key], hdr)
                if not regs:
                    raise Untranslatable("%s not found in %s" % (hdr, FILES[key]))
                for reg in regs:
                    for name, generics, params, ret, body, attrs in find_fns(reg):
                        if attrs_enabled(attrs):
                            self.funcs.raw.setdefault((owner, name), []).append((key, generics, params, ret, body))

    def external_ok(self, name):
        mod, fkey, ptys, rt, coq = EXTERNAL_FNS[name]
        m = re.search(r"pub\s+fn\s+%s\s*\(\s*\w+\s*:\s*&str\s*\)\s*->\s*String\s*\{" % name, self.src[fkey])
        return m is not None and depth_at(self.src[fkey], m.start()) == 0

    def build_fn(self, owner, name, key, generics, params, ret, body):
        aliases = self.aliases[key]
        gen = {}
        for part in split_top(generics):
            part = part.strip()
            if not part or part.startswith("'"):
                continue
            gm = re.match(r"(\w+)\s*:\s*(.+)$", part, re.S)
            if gm and re.sub(r"\s+", "", gm.group(2)) == "AsRef<str>":
                gen[gm.group(1)] = "text"
            else:
                gen[part.split(":")[0].strip()] = None
        self_kind = None
        ps = []
        for part in split_top(params):
            part = part.strip()
            if not part:
                continue
            compact = re.sub(r"\s+", "", part)
            if compact in ("&self", "&mutself"):
                self_kind = "mut" if compact == "&mutself" else "ref"
                continue
            if compact in ("self", "mutself"):
                raise Untranslatable("%s takes self by value" % name)
            pm = re.match(r"(mut\s+)?(\w+)\s*:\s*(.+)$", part, re.S)
            if not pm:
                raise Untranslatable("parameter %r of %s" % (part, name))
            ty_text = re.sub(r"\s+", "", pm.group(3))
            if gen.get(ty_text, 0) is None:
                raise Untranslatable("generic parameter %s of %s" % (ty_text, name))
            ps.append((pm.group(2), rust_type(pm.group(3), aliases, gen), ty_text.startswith("&mut"), pm.group(1) is not None))
        rt = rust_type(ret, aliases, gen) if ret else "unit"
        if rt == ("struct", "Self"):
            rt = ("struct", owner)
        if isinstance(rt, tuple) and rt[1] == ("struct", "Self"):
            rt = (rt[0], ("struct", owner))
        if owner == "Config":
            coq = "gen_" + name
        elif owner == "DefaultModel":
            coq = "gen_model_" + name if ("Config", name) in self.funcs else "gen_" + name
        else:
            coq = "gen_%s_%s" % (owner.lower(), name)
        p = RP(lex(body))
        blk = p.block()
        if p.peek()[0] != "eof":
            raise Untranslatable("%s: trailing tokens" % name)
        return Func(name, owner, coq, self_kind, ps, rt, blk, aliases, self.globs[key])

    def require(self, f):
        if f.done:
            return
        if f in self.stack:
            raise Untranslatable("recursion through " + f.rust)
        self.stack.append(f)
        try:
            translate_fn(self, f)
        finally:
            self.stack.pop()
        f.done = True
        self.order.append(f)


def needs_flow(f):
    if f.self_kind == "mut" or any(p[2] or p[3] for p in f.params):
        return True
    return contains(f.body, lambda n: n[0] in ("assign", "loop", "while", "try", "for") or (n[0] == "let" and n[1][0] == "pvar" and n[1][2]))


def translate_fn(unit, f):
    em = Emitter(unit, f)
    env = {}
    binders = []
    if f.self_kind is not None:
        ty = ("struct", f.owner)
        env["self"] = Var(ty, "self", f.self_kind == "mut", Place("var", ty, coq="self", rust="self") if f.self_kind == "mut" else None, 0)
        binders.append("(self : %s)" % coq_ty(ty))
        em.declare("self")
    for x, t, m, ml in f.params:
        env[x] = Var(t, "v_" + x, m or ml, Place("var", t, coq="v_" + x, rust=x) if (m or ml) else None, 0)
        binders.append("(v_%s : %s)" % (x, coq_ty(t)))
        em.declare("v_" + x)
    f.mode = "flow" if needs_flow(f) else "pure"
    if f.mode == "pure":
        t, a, p = em.pure_block(f.body, env)
        need(t, f.ret, "value of " + f.rust)
        f.partial = p
        rty = coq_ty(f.ret, True)
        rty = "option %s" % rty if p else coq_ty(f.ret)
        term = a
    else:
        blk = f.body

        def end(en):
            return em.ret_term(blk[2], en)
        outs = [coq_ty(t, True) for _, t in f.outs()]
        if outs and f.ret == "unit":
            inner = " * ".join(outs)
        else:
            inner = " * ".join(outs + [coq_ty(f.ret, True)])
        term = "rs_fn (R := %s) %s" % (inner, em.seq(blk[1], env, end))
        rty = "option (%s)" % inner if " " in inner else "option %s" % inner
    extra = []
    if f.uses_ord:
        extra.append("(ord : list (text * text) -> list (text * text))")
    if f.uses_fuel:
        extra.append("(fuel : nat)")
    f.text = "Definition %s %s : %s :=\n %s.\n" % (f.coq, " ".join(extra + binders), rty, term)


def record_text(name):
    st = STRUCTS[name]
    fields = st["fields"]
    out = ["Record %s := { %s }." % (st["coq"], ";\n  ".join("%s%s : %s" % (st["prefix"], f, coq_ty(t)) for f, t in fields))]
    for f, t in fields:
        out.append("Definition set_%s%s (s : %s) (x : %s) : %s :=\n  {| %s |}." % (
            st["prefix"], f, st["coq"], coq_ty(t), st["coq"],
            "; ".join("%s%s := %s" % (st["prefix"], g, "x" if g == f else "%s%s s" % (st["prefix"], g)) for g, _ in fields)))
    return "\n".join(out) + "\n"


# the functions whose translation the obligations of PcIniGen.v are about: (owner, name, stub) - the stub (Coq
# binders, type, value) keeps Gen/IniGen.v and the STATEMENTS of PcIniGen.v well-typed when a translation fails
RES = "rs_result %s ini_error"
COVERED = [
    ("Config", "add_config", "(self : config_state) (v_section : text) (v_option : text) (v_value : text)", "option config_state", "None"),
    ("Config", "parse_buffer", "(fuel : nat) (self : config_state) (v_reader : reader)",
     "option (config_state * reader * (rs_result unit ini_error))", "None"),
    ("Config", "from_str", "(fuel : nat) (v_s : text)", "option (rs_result config_state ini_error)", "None"),
    ("Config", "get", "(self : config_state) (v_key : text)", "option (option text)", "None"),
    ("Config", "get_str", "(self : config_state) (v_key : text)", "option (option text)", "None"),
    ("Assertion", "default", "", "gen_assertion",
     "{| ga_key := []; ga_value := []; ga_tokens := []; ga_policy := []; ga_rm := RmFresh 0 |}"),
    ("DefaultModel", "get_key_suffix", "(self : dmodel_state) (v_i : nat)", "text", "[]"),
    ("DefaultModel", "add_def", "(self : dmodel_state) (v_sec : text) (v_key : text) (v_value : text)",
     "option (dmodel_state * bool)", "None"),
    ("DefaultModel", "load_assertion", "(self : dmodel_state) (v_cfg : config_state) (v_sec : text) (v_key : text)",
     "option (dmodel_state * (rs_result bool ini_error))", "None"),
    ("DefaultModel", "load_section", "(fuel : nat) (self : dmodel_state) (v_cfg : config_state) (v_sec : text)",
     "option (dmodel_state * (rs_result unit ini_error))", "None"),
    ("DefaultModel", "from_str", "(fuel : nat) (v_s : text)", "option (rs_result dmodel_state ini_error)", "None"),
    ("DefaultModel", "to_text", "(ord : list (text * text) -> list (text * text)) (self : dmodel_state)", "option text", "None"),
]


def comment_safe(s):
    return str(s).replace("*)", "* )").replace("(*", "( *")


def generate():
    out = ["(* GENERATED on every run by tools/rs2coq.py (tools/rs2coq_ini.py) from /repo/src/config.rs,",
           "   /repo/src/model/default_model.rs (loading half) and /repo/src/model/assertion.rs (Assertion::default)",
           "   - do not edit.  The model-text reader over the operations of Gen/IniRt.v, Gen/RustStr.v, Gen/RustVec.v,",
           "   Gen/RustIter.v and the `hashmap` of Gen/Petgraph.v; None / LPanic = a panic, or more than `fuel`",
           "   iterations of a loop. *)",
           "From CV Require Import Model.Base Gen.RustStr Gen.StrFnGen Gen.RustVec Gen.RustIter Gen.Petgraph Gen.IniRt.", ""]
    ok = True
    unit = None
    try:
        unit = Unit()
        for c, v in sorted(unit.consts.items()):
            out.append("Definition gen_%s : text := %s." % (c, coq_text(v)))
        out.append("")
        recs = [record_text(name) for name in ("Config", "Assertion", "DefaultModel")]
        out += recs
    except RecursionError:
        raise
    except Exception as ex:   # noqa
        ok = False
        out.append("(* translation failed: %s *)" % comment_safe(ex if isinstance(ex, Untranslatable) else "%s: %s" % (type(ex).__name__, ex)))
        unit = None
        out.append(FALLBACK_RECORDS)
    failed = []
    if unit is not None:
        for owner, name, _b, _t, _v in COVERED:
            try:
                f = unit.funcs.get((owner, name))
                if f is None:
                    raise Untranslatable("function not found")
                unit.require(f)
            except RecursionError:
                raise
            except Exception as ex:   # noqa
                ok = False
                failed.append((owner, name))
                msg = str(ex) if isinstance(ex, Untranslatable) else "%s: %s" % (type(ex).__name__, ex)
                out.append("(* translation of %s::%s failed: %s *)\n" % (owner, name, comment_safe(msg)))
        for f in unit.order:
            out.append(f.text)
    else:
        failed = [(o, n) for o, n, _b, _t, _v in COVERED]
    names = {}
    if unit is not None:
        for f in unit.order:
            names[(f.owner, f.rust)] = f.coq
    for owner, name, binders, ty, val in COVERED:
        if (owner, name) in failed and (owner, name) not in names:
            coq = {"Config": "gen_" + name, "DefaultModel": ("gen_model_" + name if name == "from_str" else "gen_" + name),
                   "Assertion": "gen_assertion_" + name}[owner]
            out.append("(* stub: %s::%s was not translated *)\nDefinition %s %s : %s := %s.\n" % (owner, name, coq, binders, ty, val))
    out.append("Definition gen_ini_translated : bool := %s." % ("true" if ok else "false"))
    return "\n".join(out) + "\n", ok


FALLBACK_RECORDS = """Definition gen_DEFAULT_COMMENT : text := [].
Definition gen_DEFAULT_COMMENT_SEM : text := [].
Definition gen_DEFAULT_MULTI_LINE_SEPARATOR : text := [].
Definition gen_DEFAULT_SECTION : text := [].
Record config_state := { conf_data : hashmap (hashmap text) }.
Record gen_assertion := { ga_key : text; ga_value : text; ga_tokens : list text; ga_policy : list (list text); ga_rm : rm_handle }.
Record dmodel_state := { dm_model : hashmap (lhm gen_assertion) }.
"""


def main(dst_dir=None):
    import rs2coq
    dst_dir = dst_dir or "/verif/coq/Gen"
    txt, ok = generate()
    rs2coq.write_if_changed(os.path.join(dst_dir, "IniGen.v"), txt, ok)


if __name__ == "__main__":
    if len(sys.argv) > 1 and sys.argv[1] == "-":
        sys.stdout.write(generate()[0])
    else:
        main(sys.argv[1] if len(sys.argv) > 1 else None)
