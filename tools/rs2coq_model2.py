#!/usr/bin/env python3
"""rs2coq, part 18: the policy store of `impl Model for DefaultModel` as WHOLE functions on the model map, the lookup
macros of src/macros.rs, the conversions of src/convert.rs, the decision cache of src/cache/default_cache.rs and the
error enums of src/error.rs  ->  coq/Gen/Model2Gen.v over coq/Gen/Model2Rt.v + coq/Gen/MokaRt.v; proved equal to the
model (m_add_policy .. m_values, get_ast, cache_get / cons / [] of Model/Cached.v) for all inputs in
coq/PinChecks/PcModel2Gen.v (lemmas in coq/Proofs/Model2P.v), statements in coq/Properties/Model2Gen.v.
Kept in its own module; rs2coq.py's main() calls main() here.

Everything below is read from the Rust text on every run by ONE lexer / parser of a Rust subset (items: fn, impl, struct,
enum, trait, use, macro_rules!, macro invocations, attributes; statements: let, expression statements, return;
expressions: paths, literals, method calls, calls, fields, closures, if / if let / match, blocks, tuples, references,
`?`, `.await`, `as`, struct literals, vec![..] / format!(..); patterns: binders, tuples, Some(..) / None / `_`) and a
macro_rules! engine (matchers with `$x:ident` / `$x:expr`, literal tokens, `$( .. ) sep rep`; transcribers with
repetitions) that expands `impl_args!(A, .., V)` of convert.rs into its 21 impls.

(A) src/model/default_model.rs, the nine policy-store methods.
    get_policy is translated COMPLETELY (lookups with their keys, `if let Some(..)` / `else` / `match` on the lookups,
    `and_then` chains, `return`, the value when the section or the type is missing, `unwrap` as a panic).
    For the other eight the LOOPS are parts 3 / 8 (Gen/StoreGen.v, Gen/LinksGen.v: `gen_f .. st_policy` when the
    addressed assertion exists, `gen_f_absent ..` when a lookup fails); what is translated here is what those parts
    leave out: WHICH map is looked up with WHICH key, in which order, through `get` or `get_mut`, what `self.get_policy(a, b)`
    is called with, and the write-back of the `&mut` borrow.  The translator collects every lookup SITE of the body
      if let Some(x) = self.model.get[_mut](K1) { .. if let Some(y) = x.get[_mut](K2) { .. } .. }
      if let Some(y) = self.model.get[_mut](K1).and_then(|m| m.get[_mut](K2)) { .. }
      self.get_policy(K1, K2)
    checks that all sites of the function address the same assertion (same key expressions: parameters that are never
    rebound, or string literals), that the borrowed section is used for nothing but the second lookup, that `self` is used
    for nothing but the sites, that no lookup has an `else` (parts 3 / 8 have no mode for it), and emits
      gen_m_f st_model keys args  :=  match <lookup K1> with Some x => match <lookup K2 in x> with
                                        Some y => gen_f args (policy of y)  [+ write-back of y into x into st_model]
                                        | None => gen_f_absent args end | None => gen_f_absent args end
    respectively  gen_f args (gen_m_get_policy st_model K1 K2)  for a function built on self.get_policy.
    Nothing of this is per-function: names, keys, order of the parameters, get / get_mut come from the text.
(B) src/macros.rs: every macro_rules! of the file must be accounted for.  get_or_err! / get_or_err_with_context! (any
    macro whose transcriber is one expression over `$this.get_model().get_model()`) become Gallina functions of their
    parameters; register_g_function! is expanded and translated by part 15 (Gen/Enforcer2Gen.v); a macro whose whole
    transcriber is under a `#[cfg(feature = F)]` with F off is recorded as empty.
(C) src/convert.rs: every impl of TryIntoModel / TryIntoAdapter / EnforceArgs (after macro expansion), with the
    `#[cfg(target_arch = "wasm32")]` alternatives resolved for a non-wasm target.
(D) src/cache/default_cache.rs: `new` and the four methods of `impl Cache for DefaultCache` over Gen/MokaRt.v.
(E) src/error.rs: the enums as Inductives, `#[from]` as the `From` instances.

Outside the subset a unit is reported as `(* translation of .. failed: .. *)`, replaced by a stub of the same type,
and `gen_model2_translated := false`.
"""
import os
import re
import sys

sys.path.insert(0, os.path.dirname(os.path.abspath(__file__)))
import pins  # noqa: E402
import rs2coq  # noqa: E402
from rs2coq import Untranslatable, coq_text  # noqa: E402

# cfg predicates that are resolved: the features of the verified build (rs2coq.FEATURES) and the target
TARGET_ARCH = "x86_64"

# ====================================================================================================== lexer
TOK = re.compile(r'''\s*(?:
   (//[^\n]*|/\*.*?\*/)
 | r(\#*)"(.*?)"\2
 | "((?:[^"\\]|\\.)*)"
 | '((?:[^'\\]|\\.))'
 | '([A-Za-z_]\w*)
 | (\d[\d_]*(?:[iu](?:8|16|32|64|128|size))?)
 | (\$?[A-Za-z_]\w*)
 | (\|\||&&|==|!=|<=|>=|=>|->|::|\.\.=|\.\.|\+=|-=|[-+*/%^!&|<>=.,;:\#$@?(){}\[\]])
)''', re.S | re.X)


def lex(src):
    """-> [(kind, value)]; kinds: str (unescaped), chr, life, int, id, meta ($name), op"""
    out = []
    i = 0
    n = len(src)
    while i < n:
        if src[i:].strip() == "":
            break
        m = TOK.match(src, i)
        if not m:
            raise Untranslatable("cannot tokenise at: %r" % src[i:i + 30])
        i = m.end()
        if m.group(1) is not None:
            continue
        if m.group(3) is not None and m.group(2) is not None:
            out.append(("str", m.group(3)))
        elif m.group(4) is not None:
            out.append(("str", pins.rust_unescape(m.group(4))))
        elif m.group(5) is not None:
            out.append(("chr", pins.rust_unescape(m.group(5))))
        elif m.group(6) is not None:
            out.append(("life", m.group(6)))
        elif m.group(7) is not None:
            out.append(("int", re.sub(r"[iu](?:8|16|32|64|128|size)$", "", m.group(7)).replace("_", "")))
        elif m.group(8) is not None:
            v = m.group(8)
            out.append(("meta", v[1:]) if v.startswith("$") else ("id", v))
        else:
            out.append(("op", m.group(9)))
    return out


OPEN = {"(": ")", "[": "]", "{": "}"}


def to_tts(toks):
    """flat tokens -> token trees: a token, or ("group", open delimiter, [token trees])"""
    def go(i, closer):
        out = []
        while i < len(toks):
            k, v = toks[i]
            if k == "op" and v in OPEN:
                inner, j = go(i + 1, OPEN[v])
                out.append(("group", v, inner))
                i = j
            elif k == "op" and v in (")", "]", "}"):
                if v != closer:
                    raise Untranslatable("unbalanced %r" % v)
                return out, i + 1
            else:
                out.append((k, v))
                i += 1
        if closer is not None:
            raise Untranslatable("missing %r" % closer)
        return out, i
    return go(0, None)[0]


def flatten(tts):
    out = []
    for t in tts:
        if t[0] == "group":
            out.append(("op", t[1]))
            out.extend(flatten(t[2]))
            out.append(("op", OPEN[t[1]]))
        else:
            out.append(t)
    return out


def show(toks):
    return " ".join(('"%s"' % v) if k == "str" else (("$" + v) if k == "meta" else v) for k, v in toks)


# ============================================================================================ macro_rules! engine
class MacroDef:
    """rules: [(matcher token trees, transcriber token trees)]"""

    def __init__(self, name, rules):
        self.name = name
        self.rules = rules


def parse_macro_rules(name, body_tts):
    """body of `macro_rules! name { (matcher) => { transcriber } ; .. }`"""
    rules = []
    i = 0
    while i < len(body_tts):
        if i + 2 >= len(body_tts):
            raise Untranslatable("macro %s!: malformed rule" % name)
        m, arrow, tr = body_tts[i], body_tts[i + 1], body_tts[i + 2]
        if m[0] != "group" or arrow != ("op", "=>") or tr[0] != "group":
            raise Untranslatable("macro %s!: malformed rule" % name)
        rules.append((m[2], tr[2]))
        i += 3
        if i < len(body_tts) and body_tts[i] == ("op", ";"):
            i += 1
    return MacroDef(name, rules)


def parse_matcher(tts):
    """-> [("tok", token) | ("frag", name, kind) | ("group", delim, matcher) | ("rep", matcher, separator | None, op)]"""
    out = []
    i = 0
    while i < len(tts):
        t = tts[i]
        if t == ("op", "$") and i + 1 < len(tts) and tts[i + 1][0] == "group" and tts[i + 1][1] == "(":
            inner = parse_matcher(tts[i + 1][2])
            j = i + 2
            sep = None
            if j < len(tts) and not (tts[j][0] == "op" and tts[j][1] in ("*", "+", "?")):
                sep = tts[j]
                j += 1
            if j >= len(tts) or not (tts[j][0] == "op" and tts[j][1] in ("*", "+", "?")):
                raise Untranslatable("macro matcher: repetition without * + ?")
            out.append(("rep", inner, sep, tts[j][1]))
            i = j + 1
        elif t[0] == "meta" and i + 2 < len(tts) and tts[i + 1] == ("op", ":") and tts[i + 2][0] == "id":
            out.append(("frag", t[1], tts[i + 2][1]))
            i += 3
        elif t[0] == "group":
            out.append(("group", t[1], parse_matcher(t[2])))
            i += 1
        else:
            out.append(("tok", t))
            i += 1
    return out


def expr_extent(tts, i):
    """end index of the `expr` fragment starting at tts[i]: up to the next top-level `,` `;` or `=>`"""
    j = i
    while j < len(tts) and tts[j] not in (("op", ","), ("op", ";"), ("op", "=>")):
        j += 1
    return j


def match_seq(matcher, tts, i, binds):
    """match matcher against tts[i:]; -> the index after the match or None.  binds: name -> fragment | [..] per repetition"""
    for k, m in enumerate(matcher):
        if m[0] == "tok":
            if i >= len(tts) or tts[i] != m[1]:
                return None
            i += 1
        elif m[0] == "frag":
            if i >= len(tts):
                return None
            if m[2] == "ident":
                if tts[i][0] != "id":
                    return None
                binds[m[1]] = [tts[i]]
                i += 1
            elif m[2] == "expr":
                j = expr_extent(tts, i)
                if j == i:
                    return None
                binds[m[1]] = list(tts[i:j])
                i = j
            elif m[2] == "tt":
                binds[m[1]] = [tts[i]]
                i += 1
            else:
                raise Untranslatable("macro fragment specifier :" + m[2])
        elif m[0] == "group":
            if i >= len(tts) or tts[i][0] != "group" or tts[i][1] != m[1]:
                return None
            b2 = {}
            if match_seq(m[2], tts[i][2], 0, b2) != len(tts[i][2]):
                return None
            binds.update(b2)
            i += 1
        else:  # rep
            inner, sep, op = m[1], m[2], m[3]
            rest = matcher[k + 1:]
            reps = []
            while True:
                j = i
                if reps and sep is not None:
                    if j < len(tts) and tts[j] == sep:
                        j += 1
                    else:
                        break
                b2 = {}
                e = match_seq(inner, tts, j, b2)
                if e is None or e == j:
                    break
                reps.append(b2)
                i = e
                if op == "?":
                    break
            if op == "+" and not reps:
                return None
            names = frag_names(inner)
            for x in names:
                binds[x] = ("rep", [r.get(x) for r in reps])
            return match_seq(rest, tts, i, binds)
    return i


def frag_names(matcher):
    out = []
    for m in matcher:
        if m[0] == "frag":
            out.append(m[1])
        elif m[0] in ("group",):
            out.extend(frag_names(m[2]))
        elif m[0] == "rep":
            out.extend(frag_names(m[1]))
    return out


def transcribe(tts, binds):
    out = []
    i = 0
    while i < len(tts):
        t = tts[i]
        if t == ("op", "$") and i + 1 < len(tts) and tts[i + 1][0] == "group" and tts[i + 1][1] == "(":
            inner = tts[i + 1][2]
            j = i + 2
            sep = None
            if j < len(tts) and not (tts[j][0] == "op" and tts[j][1] in ("*", "+", "?")):
                sep = tts[j]
                j += 1
            if j >= len(tts) or not (tts[j][0] == "op" and tts[j][1] in ("*", "+", "?")):
                raise Untranslatable("macro transcriber: repetition without * + ?")
            used = [x for x in metas_of(inner) if isinstance(binds.get(x), tuple) and binds[x][0] == "rep"]
            if not used:
                raise Untranslatable("macro transcriber: a repetition without a repeated variable")
            count = len(binds[used[0]][1])
            if any(len(binds[x][1]) != count for x in used):
                raise Untranslatable("macro transcriber: repeated variables of different lengths")
            for r in range(count):
                b2 = dict(binds)
                for x in used:
                    b2[x] = binds[x][1][r]
                if r and sep is not None:
                    out.append(sep)
                out.extend(transcribe(inner, b2))
            i = j + 1
        elif t[0] == "meta" and t[1] in binds:
            v = binds[t[1]]
            if isinstance(v, tuple) and v and v[0] == "rep":
                raise Untranslatable("macro transcriber: $%s used outside its repetition" % t[1])
            out.extend(v)
            i += 1
        elif t[0] == "group":
            out.append(("group", t[1], transcribe(t[2], binds)))
            i += 1
        else:
            out.append(t)
            i += 1
    return out


def metas_of(tts):
    out = []
    for t in tts:
        if t[0] == "meta":
            out.append(t[1])
        elif t[0] == "group":
            out.extend(metas_of(t[2]))
    return out


def expand_once(mdef, arg_tts):
    for matcher, trans in mdef.rules:
        binds = {}
        if match_seq(parse_matcher(matcher), arg_tts, 0, binds) == len(arg_tts):
            return transcribe(trans, binds)
    raise Untranslatable("macro %s!: no rule matches %s" % (mdef.name, show(flatten(arg_tts))[:80]))


# ===================================================================================================== parser
KEYWORDS = {"if", "else", "match", "for", "while", "loop", "return", "break", "continue", "let", "fn", "impl", "pub", "use",
            "struct", "enum", "trait", "where", "async", "move", "mut", "ref", "in", "as", "mod", "const", "static", "type", "unsafe"}


class RP:
    """AST
    expr  = ("path", [seg]) | ("str", s) | ("int", n) | ("bool", b) | ("chr", c) | ("meta", name)
          | ("macro", name, token trees) | ("vec", [e]) | ("format", fmt, [e])
          | ("call", f, [e]) | ("mcall", recv, name, [e]) | ("field", e, name) | ("index", e, i)
          | ("try", e) | ("await", e) | ("unary", op, e) | ("binary", op, a, b) | ("cast", e, type)
          | ("tuple", [e]) | ("closure", [pattern], e) | ("block", [stmt], e | None)
          | ("if", cond, block, e | None)   cond = ("let", pattern, e) | e
          | ("match", e, [(pattern, guard | None, e)]) | ("return", e | None) | ("break",) | ("continue",)
          | ("for", pattern, e, block) | ("struct", [seg], [(field, e)]) | ("assign", op, lhs, rhs)
    stmt  = ("let", pattern, type | None, e | None, [attr]) | ("expr", e, semicolon?, [attr]) | ("item", item)
    pattern = ("pwild",) | ("pbind", x, mutable) | ("ptuple", [p]) | ("pctor", [seg], [p]) | ("pref", p) | ("plit", e)
    attr  = token trees of the `#[..]`"""

    def __init__(self, toks):
        self.t = toks
        self.i = 0

    def peek(self, k=0):
        return self.t[self.i + k] if self.i + k < len(self.t) else ("eof", "")

    def at(self, v, k=0):
        tk = self.peek(k)
        return tk[0] in ("op", "id") and tk[1] == v

    def eat(self, val=None):
        tk = self.peek()
        if tk[0] == "eof":
            raise Untranslatable("unexpected end of input" + (" (expected %r)" % val if val else ""))
        if val is not None and not (tk[0] in ("op", "id") and tk[1] == val):
            raise Untranslatable("expected %r, found %r" % (val, tk[1]))
        self.i += 1
        return tk

    def ident(self, what="identifier"):
        k, v = self.eat()
        if k != "id" or v in KEYWORDS:
            raise Untranslatable("%s expected, found %r" % (what, v))
        return v

    # ---- attributes
    def attrs(self):
        out = []
        while self.at("#") and (self.at("[", 1) or (self.at("!", 1) and self.at("[", 2))):
            self.eat("#")
            if self.at("!"):
                self.eat()
            out.append(self.group_tts())
        return out

    def group_tts(self):
        """the token trees of the delimited group starting here"""
        k, v = self.peek()
        if k != "op" or v not in OPEN:
            raise Untranslatable("delimiter expected, found %r" % v)
        depth = 0
        start = self.i
        while True:
            k, v = self.eat()
            if k == "op" and v in OPEN:
                depth += 1
            elif k == "op" and v in (")", "]", "}"):
                depth -= 1
                if depth == 0:
                    break
        return to_tts(self.t[start:self.i])[0][2]

    # ---- types: kept as text
    def type_(self, stop=()):
        """tokens of a type, as text: up to a top-level , ; = ) ] } { | `where` or a token of `stop`"""
        out = []
        depth = 0
        while True:
            k, v = self.peek()
            if k == "eof":
                break
            if depth == 0 and k in ("op", "id") and v in stop:
                break
            if k == "op" and depth == 0 and v in (",", ";", "=", ")", "]", "}", "{", "|"):
                break
            if k == "id" and depth == 0 and v == "where":
                break
            if k == "op" and v in ("<", "(", "["):
                depth += 1
            elif k == "op" and v in (">", ")", "]"):
                depth -= 1
            out.append(self.eat())
        return "".join(("'" + v + " ") if k == "life" else (v + " " if v in ("dyn", "mut", "impl") else v) for k, v in out).strip()

    # ---- patterns
    def pattern(self):
        k, v = self.peek()
        if k == "op" and v == "&":
            self.eat()
            if self.at("mut"):
                self.eat()
            return ("pref", self.pattern())
        if k == "op" and v == "(":
            self.eat()
            items = []
            while not self.at(")"):
                items.append(self.pattern())
                if self.at(","):
                    self.eat()
                else:
                    break
            self.eat(")")
            return ("ptuple", items)
        if k in ("str", "int", "chr"):
            self.eat()
            return ("plit", (k, v))
        if k == "id" and v == "_":
            self.eat()
            return ("pwild",)
        if k == "id" and v in ("true", "false"):
            self.eat()
            return ("plit", ("bool", v))
        mutable = False
        while self.at("mut") or self.at("ref"):
            mutable = mutable or self.at("mut")
            self.eat()
        k, v = self.peek()
        if k == "meta":
            self.eat()
            return ("pbind", "$" + v, mutable)
        segs = [self.ident("pattern")]
        while self.at("::"):
            self.eat()
            segs.append(self.ident("pattern"))
        if self.at("("):
            self.eat()
            items = []
            while not self.at(")"):
                items.append(self.pattern())
                if self.at(","):
                    self.eat()
                else:
                    break
            self.eat(")")
            return ("pctor", segs, items)
        if len(segs) > 1 or segs[0] == "None":
            return ("pctor", segs, [])
        return ("pbind", segs[0], mutable)

    # ---- expressions
    BIN = [("||",), ("&&",), ("==", "!=", "<", ">", "<=", ">="), ("|",), ("^",), ("&",), ("+", "-"), ("*", "/", "%")]

    def expr(self, nostruct=False):
        e = self.binary(0, nostruct)
        if self.peek()[0] == "op" and self.peek()[1] in ("=", "+=", "-="):
            op = self.eat()[1]
            return ("assign", op, e, self.expr(nostruct))
        return e

    def binary(self, level, nostruct):
        if level == len(self.BIN):
            return self.cast(nostruct)
        a = self.binary(level + 1, nostruct)
        while self.peek()[0] == "op" and self.peek()[1] in self.BIN[level]:
            # `|` / `||` cannot start a closure here (an operand came before); `&&` / `&` are binary here
            op = self.eat()[1]
            b = self.binary(level + 1, nostruct)
            a = ("binary", op, a, b)
            if level == 2:
                break
        return a

    def cast(self, nostruct):
        e = self.unary(nostruct)
        while self.at("as"):
            self.eat()
            e = ("cast", e, self.type_())
        return e

    def unary(self, nostruct):
        k, v = self.peek()
        if k == "op" and v in ("!", "-", "*"):
            self.eat()
            return ("unary", v, self.unary(nostruct))
        if k == "op" and v in ("&", "&&"):
            self.eat()
            if self.at("mut"):
                self.eat()
                return ("unary", "&mut", self.unary(nostruct))
            e = ("unary", "&", self.unary(nostruct))
            return ("unary", "&", e) if v == "&&" else e
        return self.postfix(nostruct)

    def args(self):
        self.eat("(")
        out = []
        while not self.at(")"):
            out.append(self.expr())
            if self.at(","):
                self.eat()
            else:
                break
        self.eat(")")
        return out

    def postfix(self, nostruct):
        e = self.primary(nostruct)
        while True:
            if self.at("."):
                self.eat()
                k, v = self.peek()
                if k == "id" and v == "await":
                    self.eat()
                    e = ("await", e)
                    continue
                if k == "int":
                    self.eat()
                    e = ("field", e, v)
                    continue
                name = self.ident("method / field name")
                if self.at("::"):
                    self.eat()
                    self.eat("<")
                    self.type_args_skip()
                if self.at("("):
                    e = ("mcall", e, name, self.args())
                else:
                    e = ("field", e, name)
            elif self.at("("):
                e = ("call", e, self.args())
            elif self.at("["):
                self.eat()
                ix = self.expr()
                self.eat("]")
                e = ("index", e, ix)
            elif self.at("?"):
                self.eat()
                e = ("try", e)
            else:
                return e

    def type_args_skip(self):
        """after `::<`: skip to the matching `>`"""
        depth = 1
        while depth:
            k, v = self.eat()
            if k == "op" and v == "<":
                depth += 1
            elif k == "op" and v == ">":
                depth -= 1

    def block(self):
        self.eat("{")
        stmts, final = self.stmts()
        self.eat("}")
        return ("block", stmts, final)

    def closure(self):
        if self.at("move"):
            self.eat()
        params = []
        if self.at("||"):
            self.eat()
        else:
            self.eat("|")
            while not self.at("|"):
                p = self.pattern()
                if self.at(":"):
                    self.eat()
                    self.type_()
                params.append(p)
                if self.at(","):
                    self.eat()
                else:
                    break
            self.eat("|")
        if self.at("->"):
            self.eat()
            self.type_()
            body = self.block()
        else:
            body = self.expr()
        return ("closure", params, body)

    def if_(self):
        self.eat("if")
        if self.at("let"):
            self.eat()
            pat = self.pattern()
            self.eat("=")
            cond = ("let", pat, self.expr(nostruct=True))
        else:
            cond = self.expr(nostruct=True)
        th = self.block()
        el = None
        if self.at("else"):
            self.eat()
            el = self.if_() if self.at("if") else self.block()
        return ("if", cond, th, el)

    def match_(self):
        self.eat("match")
        scrut = self.expr(nostruct=True)
        self.eat("{")
        arms = []
        while not self.at("}"):
            self.attrs()
            if self.at("|"):
                self.eat()
            pats = [self.pattern()]
            while self.at("|"):
                self.eat()
                pats.append(self.pattern())
            guard = None
            if self.at("if"):
                self.eat()
                guard = self.expr()
            self.eat("=>")
            body = self.expr()
            if self.at(","):
                self.eat()
            for p in pats:
                arms.append((p, guard, body))
        self.eat("}")
        return ("match", scrut, arms)

    def primary(self, nostruct):
        k, v = self.peek()
        if k == "str":
            self.eat()
            return ("str", v)
        if k == "int":
            self.eat()
            return ("int", v)
        if k == "chr":
            self.eat()
            return ("chr", v)
        if k == "meta":
            self.eat()
            segs = ["$" + v]
            while self.at("::"):
                self.eat()
                segs.append(self.ident("path segment"))
            return ("path", segs) if len(segs) > 1 else ("meta", v)
        if k == "op" and v == "(":
            self.eat()
            items = []
            trailing = False
            while not self.at(")"):
                items.append(self.expr())
                trailing = False
                if self.at(","):
                    self.eat()
                    trailing = True
                else:
                    break
            self.eat(")")
            if len(items) == 1 and not trailing:
                return items[0]
            return ("tuple", items)
        if k == "op" and v == "{":
            return self.block()
        if k == "op" and v in ("|", "||"):
            return self.closure()
        if k == "op" and v == "[":
            self.eat()
            items = []
            while not self.at("]"):
                items.append(self.expr())
                if self.at(","):
                    self.eat()
                else:
                    break
            self.eat("]")
            return ("array", items)
        if k == "id":
            if v == "move":
                return self.closure()
            if v == "if":
                return self.if_()
            if v == "match":
                return self.match_()
            if v == "return":
                self.eat()
                if self.at(";") or self.at("}") or self.at(","):
                    return ("return", None)
                return ("return", self.expr())
            if v == "break":
                self.eat()
                return ("break",)
            if v == "continue":
                self.eat()
                return ("continue",)
            if v == "for":
                self.eat()
                pat = self.pattern()
                self.eat("in")
                it = self.expr(nostruct=True)
                return ("for", pat, it, self.block())
            if v in ("true", "false"):
                self.eat()
                return ("bool", v)
            if v == "async":
                self.eat()
                if self.at("move"):
                    self.eat()
                return ("async", self.block())
            if v in KEYWORDS:
                raise Untranslatable("unsupported `%s` expression" % v)
            segs = [self.ident()]
            while self.at("::"):
                self.eat()
                if self.at("<"):
                    self.eat()
                    self.type_args_skip()
                    continue
                segs.append(self.ident("path segment"))
            if self.at("!") and not self.at("=", 1) and self.peek(1)[0] == "op" and self.peek(1)[1] in OPEN:
                self.eat("!")
                tts = self.group_tts()
                name = "::".join(segs)
                if name == "vec":
                    sub = RP(flatten(tts))
                    items = []
                    while sub.peek()[0] != "eof":
                        items.append(sub.expr())
                        if sub.at(","):
                            sub.eat()
                        elif sub.peek()[0] != "eof":
                            raise Untranslatable("vec![..] with `;` or stray tokens")
                    return ("vec", items)
                if name == "format":
                    sub = RP(flatten(tts))
                    fk, fv = sub.eat()
                    if fk != "str":
                        raise Untranslatable("format! without a literal format string")
                    fargs = []
                    while sub.at(","):
                        sub.eat()
                        if sub.peek()[0] == "eof":
                            break
                        fargs.append(sub.expr())
                    if sub.peek()[0] != "eof":
                        raise Untranslatable("format!: stray tokens")
                    return ("format", fv, fargs)
                return ("macro", name, tts)
            if self.at("{") and not nostruct and (segs[-1][0].isupper()):
                self.eat("{")
                fields = []
                while not self.at("}"):
                    f = self.ident("field")
                    if self.at(":"):
                        self.eat()
                        fields.append((f, self.expr()))
                    else:
                        fields.append((f, ("path", [f])))
                    if self.at(","):
                        self.eat()
                    else:
                        break
                self.eat("}")
                return ("struct", segs, fields)
            return ("path", segs)
        raise Untranslatable("unexpected token %r in an expression" % v)

    # ---- statements
    def stmts(self):
        """-> ([stmt], final expression | None), up to the closing `}` / the end"""
        out = []
        while not self.at("}") and self.peek()[0] != "eof":
            attrs = self.attrs()
            if self.at(";"):
                self.eat()
                continue
            if self.at("let"):
                self.eat()
                pat = self.pattern()
                ty = None
                if self.at(":"):
                    self.eat()
                    ty = self.type_()
                init = None
                if self.at("="):
                    self.eat()
                    init = self.expr()
                self.eat(";")
                out.append(("let", pat, ty, init, attrs))
                continue
            # an expression with a block in statement position ends at its closing brace
            if self.at("if"):
                e = self.if_()
            elif self.at("match"):
                e = self.match_()
            elif self.at("for"):
                e = self.primary(False)
            elif self.at("{"):
                e = self.block()
            else:
                e = self.expr()
            if self.at(";"):
                self.eat()
                out.append(("expr", e, True, attrs))
            elif self.at("}") or self.peek()[0] == "eof":
                if cfg_of(attrs) is not None:
                    out.append(("expr", e, False, attrs))   # a value under #[cfg]: select_cfg decides
                    return out, None
                return out, e
            elif e[0] in ("if", "match", "for", "block"):
                out.append(("expr", e, False, attrs))
            else:
                raise Untranslatable("`;` expected after an expression statement, found %r" % self.peek()[1])
        return out, None


# ---------------------------------------------------------------------------------------- cfg predicates
def cfg_of(attrs):
    """the predicate of the first #[cfg(..)] among attrs (token trees), parsed; None when there is none"""
    for a in attrs:
        if len(a) == 2 and a[0] == ("id", "cfg") and a[1][0] == "group":
            return cfg_pred(a[1][2])
    return None


def cfg_pred(tts):
    if len(tts) == 3 and tts[0][0] == "id" and tts[1] == ("op", "=") and tts[2][0] == "str":
        return ("kv", tts[0][1], tts[2][1])
    if len(tts) == 2 and tts[0][0] == "id" and tts[0][1] in ("not", "all", "any") and tts[1][0] == "group":
        parts, cur = [], []
        for t in tts[1][2]:
            if t == ("op", ","):
                parts.append(cur)
                cur = []
            else:
                cur.append(t)
        if cur:
            parts.append(cur)
        return (tts[0][1], [cfg_pred(p) for p in parts])
    if len(tts) == 1 and tts[0][0] == "id":
        return ("flag", tts[0][1])
    raise Untranslatable("cfg predicate " + show(flatten(tts)))


def cfg_eval(p):
    if p[0] == "kv":
        if p[1] == "feature":
            if p[2] not in rs2coq.FEATURES:
                raise Untranslatable("cfg(feature = %r): a feature whose setting is not fixed" % p[2])
            return rs2coq.FEATURES[p[2]]
        if p[1] == "target_arch":
            return p[2] == TARGET_ARCH
        raise Untranslatable("cfg(%s = ..)" % p[1])
    if p[0] == "flag":
        if p[1] == "test":
            return False
        raise Untranslatable("cfg(%s)" % p[1])
    if p[0] == "not":
        if len(p[1]) != 1:
            raise Untranslatable("cfg(not(..)) with %d arguments" % len(p[1]))
        return not cfg_eval(p[1][0])
    if p[0] == "all":
        return all(cfg_eval(x) for x in p[1])
    return any(cfg_eval(x) for x in p[1])


def active(attrs):
    p = cfg_of(attrs)
    return True if p is None else cfg_eval(p)


def select_cfg(block):
    """drop the statements whose #[cfg] is off; a kept `{ .. }` statement under #[cfg] that ends the block gives its value"""
    _, stmts, final = block
    out = []
    for st in stmts:
        if not active(st[-1]):
            continue
        out.append(st)
    if final is None and out and out[-1][0] == "expr" and not out[-1][2] and cfg_of(out[-1][3]) is not None \
            and out[-1][1][0] == "block":
        inner = select_cfg(out[-1][1])
        return ("block", out[:-1] + inner[1], inner[2])
    return ("block", out, final)


# ---------------------------------------------------------------------------------------------- items
class Fn:
    """params: [("self", "&" | "&mut" | "")] + [(name, type text)]; the body is parsed on demand"""

    def __init__(self, name, asyn, params, ret, body_tts, attrs):
        self.name, self.asyn, self.params, self.ret, self.body_tts, self.attrs = name, asyn, params, ret, body_tts, attrs

    def body(self):
        if self.body_tts is None:
            raise Untranslatable("%s: a declaration without a body" % self.name)
        p = RP(flatten(self.body_tts))
        stmts, final = p.stmts()
        if p.peek()[0] != "eof":
            raise Untranslatable("%s: trailing tokens in the body" % self.name)
        return ("block", stmts, final)


class Impl:
    def __init__(self, generics, trait, selfty, where, fns, attrs):
        self.generics, self.trait, self.selfty, self.where, self.fns, self.attrs = generics, trait, selfty, where, fns, attrs


def parse_fn(p, attrs):
    """at `[pub] [async] fn`"""
    while p.at("pub"):
        p.eat()
        if p.at("("):
            p.group_tts()
    asyn = False
    if p.at("async"):
        p.eat()
        asyn = True
    p.eat("fn")
    name = p.ident("function name")
    if p.at("<"):
        p.eat()
        p.type_args_skip()
    p.eat("(")
    params = []
    while not p.at(")"):
        p.attrs()
        if p.at("&") and (p.at("self", 1) or (p.at("mut", 1) and p.at("self", 2)) or (p.peek(1)[0] == "life")):
            p.eat()
            if p.peek()[0] == "life":
                p.eat()
            if p.at("mut"):
                p.eat()
                params.append(("self", "&mut"))
            else:
                params.append(("self", "&"))
            p.eat("self")
        elif p.at("self"):
            p.eat()
            params.append(("self", ""))
        elif p.at("mut") and p.at("self", 1):
            p.eat()
            p.eat()
            params.append(("self", ""))
        else:
            if p.at("mut"):
                p.eat()
            x = p.ident("parameter")
            p.eat(":")
            params.append((x, p.type_()))
        if p.at(","):
            p.eat()
        else:
            break
    p.eat(")")
    ret = None
    if p.at("->"):
        p.eat()
        ret = p.type_()
    if p.at("where"):
        while not p.at("{") and not p.at(";"):
            p.eat()
    body = None
    if p.at(";"):
        p.eat()
    else:
        body = p.group_tts()
    return Fn(name, asyn, params, ret, body, attrs)


def parse_items(toks):
    """-> [("use", ..) | ("fn", Fn) | ("impl", Impl) | ("macro_rules", MacroDef) | ("invoke", name, tts, attrs)
           | ("struct", name, fields, attrs) | ("enum", name, variants, attrs) | ("trait", name, [Fn]) | ("mod", name, attrs)]"""
    p = RP(toks)
    out = []
    while p.peek()[0] != "eof":
        attrs = p.attrs()
        if p.peek()[0] == "eof":
            break
        while p.at("pub"):
            p.eat()
            if p.at("("):
                p.group_tts()
        k, v = p.peek()
        if k == "id" and v == "use":
            while not p.at(";"):
                p.eat()
            p.eat(";")
            out.append(("use",))
        elif k == "id" and v == "macro_rules" and p.at("!", 1):
            p.eat()
            p.eat("!")
            name = p.ident("macro name")
            out.append(("macro_rules", parse_macro_rules(name, p.group_tts()), attrs))
            if p.at(";"):
                p.eat()
        elif k == "id" and v in ("fn", "async"):
            out.append(("fn", parse_fn(p, attrs)))
        elif k == "id" and v == "impl":
            out.append(("impl", parse_impl(p, attrs)))
        elif k == "id" and v == "struct":
            p.eat()
            name = p.ident("struct name")
            if p.at("<"):
                p.eat()
                p.type_args_skip()
            if p.at("where"):
                while not p.at("{") and not p.at(";") and not p.at("("):
                    p.eat()
            fields = []
            if p.at("{"):
                sub = RP(flatten(p.group_tts()))
                while sub.peek()[0] != "eof":
                    sub.attrs()
                    while sub.at("pub"):
                        sub.eat()
                        if sub.at("("):
                            sub.group_tts()
                    f = sub.ident("field")
                    sub.eat(":")
                    fields.append((f, sub.type_()))
                    if sub.at(","):
                        sub.eat()
            elif p.at("("):
                sub = RP(flatten(p.group_tts()))
                n = 0
                while sub.peek()[0] != "eof":
                    sub.attrs()
                    while sub.at("pub"):
                        sub.eat()
                    fields.append((str(n), sub.type_()))
                    n += 1
                    if sub.at(","):
                        sub.eat()
                if p.at(";"):
                    p.eat()
            else:
                p.eat(";")
            out.append(("struct", name, fields, attrs))
        elif k == "id" and v == "enum":
            p.eat()
            name = p.ident("enum name")
            sub = RP(flatten(p.group_tts()))
            variants = []
            while sub.peek()[0] != "eof":
                vattrs = sub.attrs()
                vn = sub.ident("variant")
                fields = []
                if sub.at("("):
                    s2 = RP(flatten(sub.group_tts()))
                    while s2.peek()[0] != "eof":
                        fattrs = s2.attrs()
                        fields.append((s2.type_(), fattrs))
                        if s2.at(","):
                            s2.eat()
                elif sub.at("{"):
                    raise Untranslatable("enum %s: variant %s with named fields" % (name, vn))
                variants.append((vn, fields, vattrs))
                if sub.at(","):
                    sub.eat()
            out.append(("enum", name, variants, attrs))
        elif k == "id" and v == "trait":
            p.eat()
            name = p.ident("trait name")
            while not p.at("{"):
                p.eat()
            sub = RP(flatten(p.group_tts()))
            fns = []
            while sub.peek()[0] != "eof":
                fa = sub.attrs()
                fns.append(parse_fn(sub, fa))
            out.append(("trait", name, fns, attrs))
        elif k == "id" and v == "mod":
            p.eat()
            name = p.ident("module name")
            if p.at(";"):
                p.eat()
            else:
                p.group_tts()
            out.append(("mod", name, attrs))
        elif k == "id" and p.at("!", 1):
            name = p.ident()
            p.eat("!")
            tts = p.group_tts()
            if p.at(";"):
                p.eat()
            out.append(("invoke", name, tts, attrs))
        else:
            raise Untranslatable("item starting with %r" % v)
    return out


def parse_impl(p, attrs):
    p.eat("impl")
    generics = ""
    if p.at("<"):
        start = p.i
        p.eat()
        p.type_args_skip()
        generics = show(p.t[start:p.i])
    first = p.type_(stop=("for",))
    # type_ stops at `{`, `where` or an identifier `for` is not an operator: look for it explicitly
    trait, selfty = None, first
    if p.at("for"):
        p.eat()
        trait = first
        selfty = p.type_()
    where = ""
    if p.at("where"):
        start = p.i
        while not p.at("{"):
            p.eat()
        where = show(p.t[start:p.i])
    sub = RP(flatten(p.group_tts()))
    fns = []
    while sub.peek()[0] != "eof":
        fa = sub.attrs()
        fns.append(parse_fn(sub, fa))
    return Impl(generics, trait, selfty, where, fns, attrs)


# ====================================================================================== AST helpers
def subexprs(e):
    """the direct sub-expressions of an expression node (blocks included)"""
    k = e[0]
    if k in ("path", "str", "int", "bool", "chr", "meta", "break", "continue", "macro"):
        return []
    if k in ("vec", "tuple", "array"):
        return list(e[1])
    if k == "format":
        return list(e[2])
    if k == "call":
        return [e[1]] + list(e[2])
    if k == "mcall":
        return [e[1]] + list(e[3])
    if k in ("field", "try", "await", "cast", "async"):
        return [e[1]]
    if k == "unary":
        return [e[2]]
    if k == "index":
        return [e[1], e[2]]
    if k == "binary":
        return [e[2], e[3]]
    if k == "assign":
        return [e[2], e[3]]
    if k == "closure":
        return [e[2]]
    if k == "block":
        out = []
        for st in e[1]:
            if st[0] == "let":
                if st[3] is not None:
                    out.append(st[3])
            elif st[0] == "expr":
                out.append(st[1])
        if e[2] is not None:
            out.append(e[2])
        return out
    if k == "if":
        c = e[1]
        out = [c[2]] if c[0] == "let" else [c]
        out.append(e[2])
        if e[3] is not None:
            out.append(e[3])
        return out
    if k == "match":
        out = [e[1]]
        for _p, g, b in e[2]:
            if g is not None:
                out.append(g)
            out.append(b)
        return out
    if k == "return":
        return [e[1]] if e[1] is not None else []
    if k == "for":
        return [e[2], e[3]]
    if k == "struct":
        return [x[1] for x in e[2]]
    raise Untranslatable("expression node " + k)


def walk(e):
    yield e
    for c in subexprs(e):
        for x in walk(c):
            yield x


def pattern_binds(p):
    k = p[0]
    if k == "pbind":
        return [p[1]]
    if k == "ptuple":
        return [x for q in p[1] for x in pattern_binds(q)]
    if k == "pctor":
        return [x for q in p[2] for x in pattern_binds(q)]
    if k == "pref":
        return pattern_binds(p[1])
    return []


def bound_names(e):
    """every name bound by a pattern anywhere inside e (let, closure, for, if let, match)"""
    out = []
    for n in walk(e):
        k = n[0]
        if k == "block":
            for st in n[1]:
                if st[0] == "let":
                    out.extend(pattern_binds(st[1]))
        elif k == "closure":
            for p in n[1]:
                out.extend(pattern_binds(p))
        elif k == "for":
            out.extend(pattern_binds(n[1]))
        elif k == "if" and n[1][0] == "let":
            out.extend(pattern_binds(n[1][1]))
        elif k == "match":
            for p, _g, _b in n[2]:
                out.extend(pattern_binds(p))
    return out


def strip_ref(e):
    while e[0] == "unary" and e[1] in ("&", "&mut", "*"):
        e = e[2]
    return e


def count_path(e, name):
    return sum(1 for n in walk(e) if n == ("path", [name]))


def some_pat(p):
    """Some(x) -> x"""
    if p[0] == "pctor" and p[1] == ["Some"] and len(p[2]) == 1 and p[2][0][0] == "pbind":
        return p[2][0][1]
    return None


def cmt(s):
    return str(s).replace("(*", "( *").replace("*)", "* )")


# ============================================================================== (A) the policy store
MODEL_FILE = "src/model/default_model.rs"
IDENT_METHODS = ("iter", "into_iter", "cloned", "copied", "collect", "clone", "to_owned", "to_vec", "as_slice", "as_ref", "into")
IDENT_PATHS = ("String::from", "Clone::clone", "ToOwned::to_owned", "Vec::clone", "ToString::to_string", "String::clone",
               "Vec::from", "Vec::to_owned")
# paths of functions that may be passed where a closure is expected (EmitR): the identities and the conversions
FN_PATHS = IDENT_PATHS + ("Into::into", "Dynamic::from")

RUST_TY = {"&str": "text", "String": "text", "&String": "text", "usize": "nat", "bool": "bool", "Vec<String>": "rule", "&Vec<String>": "rule",
           "&[String]": "rule", "Vec<Vec<String>>": "rules", "&[Vec<String>]": "rules", "(bool,Vec<Vec<String>>)": ("tuple", ("bool", "rules"))}
COQ_TY = {"text": "text", "nat": "nat", "bool": "bool", "rule": "list text", "rules": "list rule", "model": "model", "amap": "amap",
          "ast": "assertion"}


def coq_ty(t):
    if isinstance(t, tuple) and t[0] == "tuple":
        return "(%s)" % " * ".join(coq_ty_atom(x) for x in t[1])
    if isinstance(t, tuple) and t[0] == "opt":
        return "option %s" % coq_ty_atom(t[1])
    return COQ_TY[t]


def coq_ty_atom(t):
    s = coq_ty(t)
    return s if " " not in s or s.startswith("(") else "(%s)" % s


def tyname(t):
    if isinstance(t, tuple) and t[0] == "opt":
        return "Option<%s>" % tyname(t[1])
    if isinstance(t, tuple) and t[0] == "tuple":
        return "(%s)" % ", ".join(tyname(x) for x in t[1])
    return {"text": "a string", "rules": "a rule list", "rule": "a rule", "ast": "an Assertion", "amap": "an AssertionMap",
            "model": "the model map", "nil": "an empty vector", "self": "self"}.get(t, str(t))


def is_identity(e, var):
    """is e the value of variable var up to clones / re-collections"""
    e = strip_ref(e)
    if e == ("path", [var]):
        return True
    if e[0] == "mcall" and e[2] in IDENT_METHODS and not e[3]:
        return is_identity(e[1], var)
    if e[0] == "mcall" and e[2] == "map" and len(e[3]) == 1:
        return is_identity(e[1], var) and is_identity_fn(e[3][0])
    if e[0] == "call" and e[1][0] == "path" and "::".join(e[1][1]) in IDENT_PATHS and len(e[2]) == 1:
        return is_identity(e[2][0], var)
    if e[0] == "block" and not e[1] and e[2] is not None:
        return is_identity(e[2], var)
    return False


def is_identity_fn(f):
    if f[0] == "path":
        return "::".join(f[1]) in IDENT_PATHS
    if f[0] == "closure" and len(f[1]) == 1 and f[1][0][0] in ("pbind", "pref"):
        names = pattern_binds(f[1][0])
        return len(names) == 1 and is_identity(f[2], names[0])
    return False


class EmitG:
    """the lookup skeleton of a store function, as a term of type `flow unit R` (Gen/RustVec.v).
       env: Rust name -> (type, Coq term).  Types: text nat bool rule rules model amap ast ("opt", t) nil self.
       An expression is (type, term, partial); a partial term has type `option T`, None = the panic."""

    def __init__(self, mutself, ret, allow_get_policy):
        self.mutself = mutself
        self.ret = ret
        self.allow_get_policy = allow_get_policy
        self.n = 0

    def fresh(self, p="o"):
        self.n += 1
        return "%s_%d" % (p, self.n)

    def binds(self, parts, build):
        names, wrap = [], []
        for term, partial in parts:
            if partial:
                x = self.fresh()
                wrap.append((x, term))
                names.append(x)
            else:
                names.append(term)
        body = build(names)
        if not wrap:
            return body, False
        out = "(Some %s)" % body
        for x, term in reversed(wrap):
            out = "(match %s with Some %s => %s | None => None end)" % (term, x, out)
        return out, True

    def coerce(self, t, a, want):
        """the term a of type t where `want` is expected"""
        if t == "nil" and want in ("rules", "rule"):
            return "([] : %s)" % coq_ty(want)
        if t == want:
            return a
        if isinstance(t, tuple) and isinstance(want, tuple) and t[0] == want[0] == "opt":
            if t[1] == "nil" and want[1] in ("rules", "rule"):
                return "(%s : option %s)" % (a, coq_ty_atom(want[1]))
            if t[1] == "?":
                return "(%s : %s)" % (a, coq_ty(want))
        raise Untranslatable("%s where %s is expected" % (tyname(t), tyname(want)))

    def key(self, e, env):
        t, a, p = self.ex(e, env)
        if t != "text" or p:
            raise Untranslatable("a lookup key that is %s" % tyname(t))
        return a

    def closure1(self, f, targ, env):
        """|p| body  applied to a value of type targ -> (Coq binder, type, term, partial)"""
        if f[0] != "closure" or len(f[1]) != 1:
            raise Untranslatable("a closure with one parameter is expected")
        names = pattern_binds(f[1][0])
        if len(names) != 1 or f[1][0][0] not in ("pbind", "pref"):
            raise Untranslatable("closure parameter pattern")
        env2 = dict(env)
        env2[names[0]] = (targ, "v_" + names[0])
        t, a, p = self.ex(f[2], env2)
        return "v_" + names[0], t, a, p

    def ex(self, e, env):
        k = e[0]
        if k == "path":
            if len(e[1]) == 1:
                x = e[1][0]
                if x == "self":
                    return "self", "", False
                if x in env:
                    return env[x][0], env[x][1], False
                if x == "None":
                    return ("opt", "?"), "None", False
            raise Untranslatable("identifier " + "::".join(e[1]))
        if k == "str":
            return "text", coq_text(e[1]), False
        if k == "bool":
            return "bool", e[1], False
        if k == "unary" and e[1] in ("&", "&mut", "*"):
            return self.ex(e[2], env)
        if k == "unary" and e[1] == "!":
            t, a, p = self.ex(e[2], env)
            if t != "bool":
                raise Untranslatable("! on " + tyname(t))
            term, partial = self.binds([(a, p)], lambda xs: "(negb %s)" % xs[0])
            return "bool", term, partial
        if k == "vec":
            if e[1]:
                raise Untranslatable("vec![..] with elements")
            return "nil", "[]", False
        if k == "block" and not e[1] and e[2] is not None:
            return self.ex(e[2], env)
        if k == "field":
            t, a, p = self.ex(e[1], env)
            if t == "self" and e[2] == "model":
                return "model", "st_model", False
            if t == "ast" and e[2] == "policy":
                term, partial = self.binds([(a, p)], lambda xs: "(a_policy %s)" % xs[0])
                return "rules", term, partial
            raise Untranslatable("field .%s of %s" % (e[2], tyname(t)))
        if k == "call" and e[1][0] == "path":
            name = "::".join(e[1][1])
            if name in ("Vec::new", "Vec::default", "Default::default") and not e[2]:
                return "nil", "[]", False
            if name == "Some" and len(e[2]) == 1:
                t, a, p = self.ex(e[2][0], env)
                term, partial = self.binds([(a, p)], lambda xs: "(Some %s)" % xs[0])
                return ("opt", t), term, partial
            if name in IDENT_PATHS and len(e[2]) == 1:
                return self.ex(e[2][0], env)
            raise Untranslatable("call of " + name)
        if k == "mcall":
            return self.mcall(e, env)
        if k in ("if", "match"):
            return self.pure_branch(e, env)
        raise Untranslatable("expression " + k)

    def mcall(self, e, env):
        recv, name, args = e[1], e[2], e[3]
        t, a, p = self.ex(recv, env)
        if t == "self":
            if name == "get_policy" and len(args) == 2:
                if not self.allow_get_policy:
                    raise Untranslatable("self.get_policy(..) inside get_policy")
                k1, k2 = self.key(args[0], env), self.key(args[1], env)
                return "rules", "(gen_m_get_policy st_model %s %s)" % (k1, k2), True
            if name in ("get_model", "get_mut_model") and not args:
                if name == "get_mut_model" and not self.mutself:
                    raise Untranslatable("get_mut_model through &self")
                return "model", "st_model", False
            raise Untranslatable("self.%s(..)" % name)
        if t in ("model", "amap") and name in ("get", "get_mut") and len(args) == 1:
            if name == "get_mut" and not self.mutself:
                raise Untranslatable("get_mut through &self")
            kk = self.key(args[0], env)
            fn = {"model": "rs_smap_", "amap": "rs_amap_"}[t] + name
            term, partial = self.binds([(a, p)], lambda xs: "(%s %s %s)" % (fn, xs[0], kk))
            return ("opt", "amap" if t == "model" else "ast"), term, partial
        if isinstance(t, tuple) and t[0] == "opt":
            inner = t[1]
            if p:
                raise Untranslatable("Option method on an expression that can panic")
            if name == "and_then" and len(args) == 1:
                b, tb, body, pb = self.closure1(args[0], inner, env)
                if pb or not (isinstance(tb, tuple) and tb[0] == "opt"):
                    raise Untranslatable("and_then with a closure that does not give an Option")
                return tb, "(rs_and_then %s (fun %s => %s))" % (a, b, body), False
            if name == "map" and len(args) == 1:
                b, tb, body, pb = self.closure1(args[0], inner, env)
                if pb:
                    raise Untranslatable("map with a closure that can panic")
                return ("opt", tb), "(rs_opt_map (fun %s => %s) %s)" % (b, body, a), False
            if name in ("unwrap", "expect"):
                return inner, a, True
            if name in ("cloned", "copied", "as_ref", "as_mut", "clone") and not args:
                return t, a, False
            if name in ("is_some", "is_none") and not args:
                return "bool", ("(rs_is_some %s)" if name == "is_some" else "(negb (rs_is_some %s))") % a, False
            if name in ("unwrap_or_default", "unwrap_or", "unwrap_or_else"):
                if name == "unwrap_or_default" and not args:
                    d = ("nil", "[]", False)
                elif name == "unwrap_or" and len(args) == 1:
                    d = self.ex(args[0], env)
                elif name == "unwrap_or_else" and len(args) == 1 and args[0][0] == "closure" and not args[0][1]:
                    d = self.ex(args[0][2], env)
                elif name == "unwrap_or_else" and len(args) == 1 and args[0] in (("path", ["Vec", "new"]), ("path", ["Vec", "default"]),
                                                                             ("path", ["Default", "default"])):
                    d = ("nil", "[]", False)
                else:
                    raise Untranslatable(".%s with these arguments" % name)
                if d[2]:
                    raise Untranslatable("a default value that can panic")
                if inner == "nil":
                    inner = d[0]
                dv = self.coerce(d[0], d[1], inner)
                return inner, "(rs_unwrap_or %s %s)" % (a, dv), False
            raise Untranslatable("Option method .%s" % name)
        if t in ("rules", "rule", "nil"):
            if name in IDENT_METHODS and not args:
                return t, a, p
            if name == "map" and len(args) == 1 and is_identity_fn(args[0]):
                return t, a, p
            raise Untranslatable("method .%s on %s" % (name, tyname(t)))
        raise Untranslatable("method .%s on %s" % (name, tyname(t)))

    # ---- a branching expression without control flow, as a value
    def pure_branch(self, e, env):
        def val(b, en):
            if b[0] == "block":
                if b[1]:
                    raise Untranslatable("a block with statements as a value")
                if b[2] is None:
                    raise Untranslatable("a block without a value")
                return self.ex(b[2], en)
            return self.ex(b, en)
        if e[0] == "if":
            cond, th, el = e[1], e[2], e[3]
            if el is None:
                raise Untranslatable("if without else as a value")
            if cond[0] == "let":
                x = some_pat(cond[1])
                if x is None:
                    raise Untranslatable("if let with a pattern that is not Some(x)")
                ts, s, ps = self.ex(cond[2], env)
                arms = [("Some", x, th), ("None", None, el)]
            else:
                tc, c, pc = self.ex(cond, env)
                if tc != "bool" or pc:
                    raise Untranslatable("condition")
                a = val(th, env)
                b = val(el, env)
                return self.join2("(if %s then %%s else %%s)" % c, a, b)
        else:
            ts, s, ps = self.ex(e[1], env)
            arms = []
            for pat, guard, body in e[2]:
                if guard is not None:
                    raise Untranslatable("match guard")
                x = some_pat(pat)
                if x is not None:
                    arms.append(("Some", x, body))
                elif pat == ("pctor", ["None"], []) or pat == ("pwild",):
                    arms.append(("None", None, body))
                else:
                    raise Untranslatable("match pattern")
            if [a[0] for a in arms] not in (["Some", "None"], ["None", "Some"]):
                raise Untranslatable("match that is not on Some / None")
            arms.sort(key=lambda a: a[0] != "Some")
        if not (isinstance(ts, tuple) and ts[0] == "opt") or ps:
            raise Untranslatable("if let / match on %s" % tyname(ts))
        env2 = dict(env)
        env2[arms[0][1]] = (ts[1], "v_" + arms[0][1])
        a = val(arms[0][2], env2)
        b = val(arms[1][2], env)
        return self.join2("(match %s with Some v_%s => %%s | None => %%s end)" % (s, arms[0][1]), a, b)

    def join2(self, fmt, a, b):
        ta, tb = a[0], b[0]
        t = tb if ta == "nil" or ta == ("opt", "?") else ta
        xa = self.coerce(ta, a[1], t) if not a[2] else a[1]
        xb = self.coerce(tb, b[1], t) if not b[2] else b[1]
        if a[2] or b[2]:
            xa = xa if a[2] else "(Some %s)" % xa
            xb = xb if b[2] else "(Some %s)" % xb
            return t, fmt % (xa, xb), True
        return t, fmt % (xa, xb), False

    # ---- statements, continuation-passing: terms of type flow unit R
    def ret_term(self, e, env):
        t, a, p = self.ex(e, env)
        if p:
            x = self.fresh()
            return "(match %s with Some %s => LReturn %s | None => LPanic end)" % (a, x, self.coerce(t, x, self.ret))
        return "(LReturn %s)" % self.coerce(t, a, self.ret)

    def tail(self, e, env):
        """the function returns the value of e"""
        k = e[0]
        if k == "return":
            if e[1] is None:
                raise Untranslatable("return without a value")
            return self.tail(e[1], env)
        if k == "block":
            return self.seq(e[1], e[2], env, None)
        if k in ("if", "match"):
            return self.branch(e, env, lambda b, en: self.tail(b, en), None)
        return self.ret_term(e, env)

    def branch(self, e, env, on_block, k_missing):
        """if / if let / match on an Option; on_block(block or expression, env) gives the term of a branch;
           k_missing() the term when there is no else"""
        if e[0] == "if":
            cond, th, el = e[1], e[2], e[3]
            if el is None and k_missing is None:
                raise Untranslatable("if without else where a value is needed")
            no = (lambda en: on_block(el, en)) if el is not None else (lambda en: k_missing())
            if cond[0] != "let":
                tc, c, pc = self.ex(cond, env)
                if tc != "bool":
                    raise Untranslatable("condition of type " + tyname(tc))
                if pc:
                    return "(match %s with Some true => %s | Some false => %s | None => LPanic end)" % (c, on_block(th, env), no(env))
                return "(if %s\n then %s\n else %s)" % (c, on_block(th, env), no(env))
            x = some_pat(cond[1])
            if x is None:
                raise Untranslatable("if let with a pattern that is not Some(x)")
            ts, s, ps = self.ex(cond[2], env)
            yes = lambda en: on_block(th, en)      # noqa: E731
        else:
            ts, s, ps = self.ex(e[1], env)
            some, none = None, None
            for pat, guard, body in e[2]:
                if guard is not None:
                    raise Untranslatable("match guard")
                y = some_pat(pat)
                if y is not None and some is None:
                    some = (y, body)
                elif (pat == ("pctor", ["None"], []) or pat == ("pwild",)) and none is None:
                    none = body
                else:
                    raise Untranslatable("match that is not on Some(x) / None")
            if some is None or none is None:
                raise Untranslatable("match that is not on Some(x) / None")
            x = some[0]
            yes = lambda en: on_block(some[1], en)   # noqa: E731
            no = lambda en: on_block(none, en)       # noqa: E731
        if not (isinstance(ts, tuple) and ts[0] == "opt") or ts[1] in ("?", "nil"):
            raise Untranslatable("if let / match on %s" % tyname(ts))
        env2 = dict(env)
        env2[x] = (ts[1], "v_" + x)
        if ps:
            return "(match %s with\n | Some (Some v_%s) => %s\n | Some None => %s\n | None => LPanic end)" % (s, x, yes(env2), no(env))
        return "(match %s with\n | Some v_%s => %s\n | None => %s end)" % (s, x, yes(env2), no(env))

    def seq(self, stmts, final, env, k):
        """stmts then final (a value: returned) or, when final is None, k() (None: the end of the function)"""
        if not stmts:
            if final is not None:
                if k is not None:
                    # the value of an inner block in statement position: only unit-valued control flow is accepted
                    return self.stmt_expr(final, env, k)
                return self.tail(final, env)
            if k is None:
                raise Untranslatable("control reaches the end of the function without a value")
            return k()
        st, rest = stmts[0], stmts[1:]
        cont = lambda en=env: self.seq(rest, final, en, k)    # noqa: E731
        if st[0] == "let":
            pat, _ty, init = st[1], st[2], st[3]
            if st[4] and cfg_of(st[4]) is not None:
                raise Untranslatable("let under #[cfg]")
            if pat[0] != "pbind" or init is None:
                raise Untranslatable("let with a pattern / without a value")
            t, a, p = self.ex(init, env)
            if t in ("self", "nil"):
                raise Untranslatable("let of " + tyname(t))
            env2 = dict(env)
            env2[pat[1]] = (t, "v_" + pat[1])
            if p:
                return "(match %s with Some v_%s => %s | None => LPanic end)" % (a, pat[1], cont(env2))
            return "(let v_%s := %s in\n %s)" % (pat[1], a, cont(env2))
        e = st[1]
        if cfg_of(st[3]) is not None:
            raise Untranslatable("a statement under #[cfg]")
        return self.stmt_expr(e, env, lambda: cont(env))

    def stmt_expr(self, e, env, k):
        """an expression in statement position (its value, if any, is unit), then k()"""
        if e[0] == "return":
            if e[1] is None:
                raise Untranslatable("return without a value")
            return self.tail(e[1], env)
        if e[0] in ("if", "match"):
            def on_block(b, en):
                if b[0] == "block":
                    return self.seq(b[1], b[2], en, k)
                return self.stmt_expr(b, en, k)
            return self.branch(e, env, on_block, k)
        if e[0] == "block":
            return self.seq(e[1], e[2], env, k)
        raise Untranslatable("expression statement " + e[0])

    def function(self, body, env):
        return self.seq(body[1], body[2], env, None)


# name in the source, Coq name, Coq types of the parameters after the two keys, return type, &mut self, vector function of parts 3 / 8
STORE_FUNCS = (
    ("add_policy", "gen_m_add_policy", ("rule",), "bool", True, "gen_add_policy"),
    ("add_policies", "gen_m_add_policies", ("rules",), "bool", True, "gen_add_policies"),
    ("get_policy", "gen_m_get_policy", (), "rules", False, None),
    ("get_filtered_policy", "gen_m_get_filtered_policy", ("nat", "rule"), "rules", False, "gen_get_filtered"),
    ("has_policy", "gen_m_has_policy", ("rule",), "bool", False, "gen_has_policy"),
    ("get_values_for_field_in_policy", "gen_m_get_values_for_field_in_policy", ("nat",), "rule", False, "gen_values_for_field"),
    ("remove_policy", "gen_m_remove_policy", ("rule",), "bool", True, "gen_remove_policy"),
    ("remove_policies", "gen_m_remove_policies", ("rules",), "bool", True, "gen_remove_policies"),
    ("remove_filtered_policy", "gen_m_remove_filtered_policy", ("nat", "rule"), ("tuple", ("bool", "rules")), True, "gen_remove_filtered"),
)


def store_result_ty(ret, mutself):
    return "option (model * %s)" % coq_ty_atom(ret) if mutself else "option %s" % coq_ty_atom(ret)


def store_signature(fn, ptypes, ret, mutself):
    """-> [(name, type)] of the parameters (keys first); checks receiver, types and return type against the interface"""
    if not fn.params or fn.params[0][0] != "self" or fn.params[0][1] != ("&mut" if mutself else "&"):
        raise Untranslatable("%s: receiver is not %sself" % (fn.name, "&mut " if mutself else "&"))
    names = []
    for x, ty in fn.params[1:]:
        t = RUST_TY.get(re.sub(r"\s+", "", ty))
        if t is None:
            raise Untranslatable("%s: parameter %s: %s" % (fn.name, x, ty))
        names.append((x, t))
    if tuple(t for _, t in names) != ("text", "text") + tuple(ptypes):
        raise Untranslatable("%s: parameter types (%s)" % (fn.name, ", ".join(ty for _, ty in fn.params[1:])))
    rt = RUST_TY.get(re.sub(r"\s+", "", fn.ret or ""))
    if rt != ret:
        raise Untranslatable("%s: return type %s" % (fn.name, fn.ret))
    if len(set(x for x, _ in names)) != len(names):
        raise Untranslatable("%s: repeated parameter name" % fn.name)
    return names


class Site:
    """one lookup of the addressed assertion.  kind: "nested" | "chain" | "getpol"; k1, k2: the key expressions;
       outer, inner: the lookup expressions (nested), chain: the and_then expression; x, y: the bound names"""

    def __init__(self, kind, k1, k2, **kw):
        self.kind, self.k1, self.k2 = kind, k1, k2
        self.__dict__.update(kw)


def is_model_get(e):
    """self.model.get[_mut](K) / self.get_model().get(K) / self.get_mut_model().get_mut(K)"""
    if e[0] != "mcall" or e[2] not in ("get", "get_mut") or len(e[3]) != 1:
        return False
    r = strip_ref(e[1])
    return r == ("field", ("path", ["self"]), "model") or \
        (r[0] == "mcall" and r[1] == ("path", ["self"]) and r[2] in ("get_model", "get_mut_model") and not r[3])


def chain_site(e):
    """self.model.get[_mut](K1).and_then(|m| m.get[_mut](K2)) -> (K1, K2) or None"""
    if e[0] == "mcall" and e[2] == "and_then" and len(e[3]) == 1 and is_model_get(e[1]):
        f = e[3][0]
        if f[0] == "closure" and len(f[1]) == 1 and f[1][0][0] == "pbind":
            b = strip_ref(f[2])
            if b[0] == "block" and not b[1] and b[2] is not None:
                b = strip_ref(b[2])
            if b[0] == "mcall" and b[2] in ("get", "get_mut") and len(b[3]) == 1 and strip_ref(b[1]) == ("path", [f[1][0][1]]):
                return e[1][3][0], b[3][0]
    return None


def find_sites(fname, body):
    """the lookup sites of a store function, with the checks described in the module docstring"""
    sites = []
    selfs_in_sites = 0

    def visit(e):
        nonlocal selfs_in_sites
        if e[0] == "mcall" and e[1] == ("path", ["self"]) and e[2] == "get_policy" and len(e[3]) == 2:
            sites.append(Site("getpol", e[3][0], e[3][1], expr=e))
            selfs_in_sites += 1
            for a in e[3]:
                visit(a)
            return
        if e[0] == "if" and e[1][0] == "let":
            scrut = e[1][2]
            cs = chain_site(strip_ref(scrut))
            if cs is not None:
                y = some_pat(e[1][1])
                if y is None:
                    raise Untranslatable("%s: the lookup is matched against a pattern that is not Some(x)" % fname)
                if e[3] is not None:
                    raise Untranslatable("%s: a lookup with an else branch (parts 3 / 8 have no mode for it)" % fname)
                sites.append(Site("chain", cs[0], cs[1], chain=strip_ref(scrut), y=y))
                selfs_in_sites += 1
                visit(e[2])
                return
            if is_model_get(strip_ref(scrut)):
                x = some_pat(e[1][1])
                if x is None:
                    raise Untranslatable("%s: the lookup is matched against a pattern that is not Some(x)" % fname)
                if e[3] is not None:
                    raise Untranslatable("%s: a lookup with an else branch (parts 3 / 8 have no mode for it)" % fname)
                selfs_in_sites += 1
                inner_found = []

                def inner(n):
                    if n[0] == "if" and n[1][0] == "let":
                        s2 = strip_ref(n[1][2])
                        if s2[0] == "mcall" and s2[2] in ("get", "get_mut") and len(s2[3]) == 1 and strip_ref(s2[1]) == ("path", [x]):
                            y = some_pat(n[1][1])
                            if y is None:
                                raise Untranslatable("%s: the lookup is matched against a pattern that is not Some(x)" % fname)
                            if n[3] is not None:
                                raise Untranslatable("%s: a lookup with an else branch (parts 3 / 8 have no mode for it)" % fname)
                            inner_found.append(Site("nested", strip_ref(scrut)[3][0], s2[3][0], outer=strip_ref(scrut), inner=s2, x=x, y=y))
                            visit(n[2])
                            return
                    if n[0] in ("closure",) and x in [b for p in n[1] for b in pattern_binds(p)]:
                        raise Untranslatable("%s: %s is rebound" % (fname, x))
                    visit_children(n, inner)
                inner(e[2])
                if count_path(e[2], x) != len(inner_found):
                    raise Untranslatable("%s: the borrowed section %s is used for something else than the lookup of the policy type"
                                         % (fname, x))
                if x in bound_names(e[2]):
                    raise Untranslatable("%s: %s is rebound" % (fname, x))
                if not inner_found:
                    raise Untranslatable("%s: a lookup of the section without a lookup of the policy type" % fname)
                sites.extend(inner_found)
                return
        visit_children(e, visit)

    def visit_children(e, f):
        for c in subexprs(e):
            f(c)
    visit(body)
    total_self = count_path(body, "self")
    if total_self != selfs_in_sites:
        raise Untranslatable("%s: self is used for something else than the lookups of the addressed assertion" % fname)
    return sites


def stable_key(fname, k, params, rebound):
    k = strip_ref(k)
    if k[0] == "str":
        return k
    if k[0] == "path" and len(k[1]) == 1 and params.get(k[1][0]) == "text":
        if k[1][0] in rebound:
            raise Untranslatable("%s: the key %s is rebound in the body" % (fname, k[1][0]))
        return k
    raise Untranslatable("%s: a lookup key that is neither a string parameter nor a literal" % fname)


def translate_store_fn(fn, gen, ptypes, ret, mutself, vec):
    names = store_signature(fn, ptypes, ret, mutself)
    body = fn.body()
    for n in walk(body):
        if n[0] == "macro":
            raise Untranslatable("%s: macro %s!" % (fn.name, n[1]))
        if n[0] == "block" and any(cfg_of(st[-1]) is not None for st in n[1]):
            raise Untranslatable("%s: a statement under #[cfg]" % fn.name)
    env = {x: (t, "v_" + x) for x, t in names}
    binders = "(st_model : model) " + " ".join("(v_%s : %s)" % (x, coq_ty(t)) for x, t in names)
    head = "Definition %s %s : %s :=\n" % (gen, binders, store_result_ty(ret, mutself))
    if vec is None:
        # translated completely
        em = EmitG(mutself, ret, False)
        return head + " rs_fn %s.\n" % em.function(body, env)
    sites = find_sites(fn.name, body)
    if not sites:
        raise Untranslatable("%s: no lookup of the addressed assertion" % fn.name)
    rebound = set(bound_names(body))
    params = dict(names)
    keys = set(repr((stable_key(fn.name, s.k1, params, rebound), stable_key(fn.name, s.k2, params, rebound))) for s in sites)
    if len(keys) != 1:
        raise Untranslatable("%s: the lookups do not all address the same assertion" % fn.name)
    kinds = set("getpol" if s.kind == "getpol" else "borrow" for s in sites)
    if len(kinds) != 1:
        raise Untranslatable("%s: self.get_policy(..) and a direct lookup in the same function" % fn.name)
    argl = ["v_" + x for x, _ in names[2:]]
    em = EmitG(mutself, ret, True)
    s0 = sites[0]
    k1, k2 = em.key(s0.k1, env), em.key(s0.k2, env)
    call_absent = " ".join([vec + "_absent"] + argl)
    absent = "(option_map (fun r_ => (st_model, r_)) (%s))" % call_absent if mutself else "(%s)" % call_absent
    if s0.kind == "getpol":
        if mutself:
            raise Untranslatable("%s: a &mut self function built on self.get_policy" % fn.name)
        t, a, p = em.ex(s0.expr, env)
        return head + " (match %s with\n | Some st_policy => %s\n | None => None end).\n" % (a, " ".join([vec] + argl + ["st_policy"]))
    call_found = " ".join([vec] + argl + ["(a_policy v_%s)" % s0.y])
    if s0.kind == "nested":
        t1, a1, p1 = em.ex(s0.outer, env)
        env2 = dict(env)
        env2[s0.x] = ("amap", "v_" + s0.x)
        t2, a2, p2 = em.ex(s0.inner, env2)
        if mutself and not (s0.outer[2] == "get_mut" and s0.inner[2] == "get_mut"):
            raise Untranslatable("%s: a &mut self function that borrows the assertion through get" % fn.name)
        if mutself:
            # the end of the two `&mut` borrows: the assertion back into the section, the section back into the map
            found = ("(match %s with\n   | Some (st_policy, r_) =>\n     (let v_%s := rs_ast_set_policy v_%s st_policy in\n"
                     "      let v_%s := rs_amap_set v_%s %s v_%s in\n      let st_model := rs_model_set st_model %s v_%s in\n"
                     "      Some (st_model, r_))\n   | None => None end)"
                     % (call_found, s0.y, s0.y, s0.x, s0.x, k2, s0.y, k1, s0.x))
        else:
            found = "(%s)" % call_found
        return head + (" (match %s with\n | Some v_%s =>\n  (match %s with\n  | Some v_%s => %s\n  | None => %s end)\n | None => %s end).\n"
                       % (a1, s0.x, a2, s0.y, found, absent, absent))
    # and_then chain
    t, a, p = em.ex(s0.chain, env)
    if mutself:
        gets = [n[2] for n in walk(s0.chain) if n[0] == "mcall" and n[2] in ("get", "get_mut")]
        if gets != ["get_mut", "get_mut"]:
            raise Untranslatable("%s: a &mut self function that borrows the assertion through get" % fn.name)
        found = ("(match %s with\n   | Some (st_policy, r_) =>\n     (let v_%s := rs_ast_set_policy v_%s st_policy in\n"
                 "      let st_model := (match rs_smap_get_mut st_model %s with\n"
                 "                       | Some sec_ => rs_model_set st_model %s (rs_amap_set sec_ %s v_%s)\n"
                 "                       | None => st_model end) in\n      Some (st_model, r_))\n   | None => None end)"
                 % (call_found, s0.y, s0.y, k1, k1, k2, s0.y))
    else:
        found = "(%s)" % call_found
    return head + " (match %s with\n | Some v_%s => %s\n | None => %s end).\n" % (a, s0.y, found, absent)


def store_stub(gen, ptypes, ret, mutself):
    binders = "(_ : model) (_ _ : text) " + " ".join("(_ : %s)" % coq_ty(t) for t in ptypes)
    return "Definition %s %s : %s := None.\n" % (gen, binders.strip(), store_result_ty(ret, mutself))


def find_impl(items, trait, selfty):
    for it in items:
        if it[0] == "impl" and it[1].trait == trait and (selfty is None or it[1].selfty == selfty):
            return it[1]
    return None


def fail_comment(what, ex):
    msg = str(ex) if isinstance(ex, Untranslatable) else "%s: %s" % (type(ex).__name__, ex)
    return "(* translation of %s failed: %s *)" % (what, cmt(msg))


def generate_store(out):
    ok = True
    try:
        items = parse_items(lex(pins.read(MODEL_FILE) or ""))
        imp = find_impl(items, "Model", "DefaultModel")
        if imp is None:
            raise Untranslatable("impl Model for DefaultModel not found in " + MODEL_FILE)
    except Exception as ex:   # noqa
        imp = None
        ok = False
        out.append(fail_comment(MODEL_FILE, ex))
    # the two accessors (used by the lookup macros and allowed in the lookups)
    for name, mutself in (("get_model", False), ("get_mut_model", True)):
        try:
            fns = [f for f in (imp.fns if imp else []) if f.name == name]
            if len(fns) != 1:
                raise Untranslatable("%s: not found" % name)
            fn = fns[0]
            if fn.params != [("self", "&mut" if mutself else "&")]:
                raise Untranslatable("%s: parameters" % name)
            b = fn.body()
            if b[1] or b[2] is None or strip_ref(b[2]) != ("field", ("path", ["self"]), "model"):
                raise Untranslatable("%s: the body is not a reference to self.model" % name)
            out.append("Definition gen_dm_%s (st_model : model) : model := st_model.\n" % name)
        except Exception as ex:   # noqa
            ok = False
            out.append(fail_comment(name, ex))
            out.append("Definition gen_dm_%s (st_model : model) : model := [].\n" % name)
    for name, gen, ptypes, ret, mutself, vec in STORE_FUNCS:
        try:
            fns = [f for f in (imp.fns if imp else []) if f.name == name and active(f.attrs)]
            if len(fns) != 1:
                raise Untranslatable("%s: %d definitions" % (name, len(fns)))
            out.append(translate_store_fn(fns[0], gen, ptypes, ret, mutself, vec))
        except Exception as ex:   # noqa
            ok = False
            out.append(fail_comment("%s (%s)" % (name, gen), ex))
            out.append(store_stub(gen, ptypes, ret, mutself))
    return ok


# ================================================================ a small emitter for Result-valued straight-line code
def rtyname(t):
    if isinstance(t, tuple):
        if t[0] == "res":
            return "Result<%s>" % rtyname(t[1])
        if t[0] == "opt":
            return "Option<%s>" % rtyname(t[1])
        if t[0] == "list":
            return "Vec<%s>" % rtyname(t[1])
        if t[0] == "tuple":
            return "(%s)" % ", ".join(rtyname(x) for x in t[1])
        if t[0] == "fn":
            return "a function"
    return str(t)


class EmitR:
    """macros.rs / convert.rs: code whose control flow is `?`, `if let Some(..)`, `return`.
       mode "res": the function returns Result<R>;  "macro": the value v of the body stands for ROk v and `?` for RErr;
       "val": a plain value, no `?`.   env: name -> (type, Coq term, mutable).
       Types: text nat bool unit M A T S D hasher amap ast model enf dynmodel ("opt", t) ("res", t, err) ("list", t)
       ("tuple", [t]) ("fn", arg, res) ("err", X).   err: "Error" (the crate's) or the name of a foreign error type."""

    def __init__(self, mode, calls, methods, from_of):
        self.mode = mode
        self.calls = calls        # "A::b" -> f(emitter, [(type, term)]) -> (type, term)
        self.methods = methods    # f(emitter, recv (type, term), name, args: [(type, term) | ("closure", ast)], env) -> (type, term) | None
        self.from_of = from_of    # foreign error type -> Coq function into gen_Error
        self.n = 0

    def fresh(self, p="q"):
        self.n += 1
        return "%s_%d" % (p, self.n)

    def conv_err(self, err, term):
        if err == "Error":
            return term
        if err in self.from_of:
            return "(%s %s)" % (self.from_of[err], term)
        raise Untranslatable("`?` on an error of type %s, for which the crate's Error has no From" % err)

    def cps_list(self, es, env, k, acc=None):
        acc = acc or []
        if not es:
            return k(acc)
        e = es[0]
        if e[0] == "closure" or (e[0] == "path" and len(e[1]) > 1 and "::".join(e[1]) in FN_PATHS):
            return self.cps_list(es[1:], env, k, acc + [("closure", e)])
        return self.cps(e, env, lambda t, a: self.cps_list(es[1:], env, k, acc + [(t, a)]))

    def cps(self, e, env, k):
        kind = e[0]
        if kind == "try":
            if self.mode == "val":
                raise Untranslatable("`?` in a function that does not return a Result")

            def after(t, a):
                if not (isinstance(t, tuple) and t[0] == "res"):
                    raise Untranslatable("`?` on %s" % rtyname(t))
                q = self.fresh()
                return "(match %s with\n | ROk %s => %s\n | RErr e_ => RErr %s end)" % (a, q, k(t[1], q), self.conv_err(t[2], "e_"))
            return self.cps(e[1], env, after)
        if kind == "await":
            return self.cps(e[1], env, k)
        if kind == "unary" and e[1] in ("&", "&mut", "*"):
            return self.cps(e[2], env, k)
        if kind == "cast":
            ty = re.sub(r"\s+", "", e[2])
            if ty not in ("u64", "usize", "u32", "u128"):
                raise Untranslatable("cast to " + ty)
            return self.cps(e[1], env, lambda t, a: k(t, a) if t == "nat" else self.bad("cast of %s" % rtyname(t)))
        if kind == "path":
            name = "::".join(e[1])
            if len(e[1]) == 1 and e[1][0] in env:
                t, a, _m = env[e[1][0]]
                return k(t, a)
            if name in self.calls and self.calls[name][0] == 0:
                t, a = self.calls[name][1](self, [])
                return k(t, a)
            raise Untranslatable("identifier " + name)
        if kind == "meta":
            if "$" + e[1] in env:
                t, a, _m = env["$" + e[1]]
                return k(t, a)
            raise Untranslatable("macro variable $" + e[1])
        if kind == "str":
            return k("text", coq_text(e[1]))
        if kind == "int":
            return k("nat", e[1])
        if kind == "bool":
            return k("bool", e[1])
        if kind == "block" and not e[1] and e[2] is not None:
            return self.cps(e[2], env, k)
        if kind == "vec":
            def build(vals):
                ts = [t for t, _ in vals]
                if vals and any(t != ts[0] for t in ts):
                    raise Untranslatable("vec![..] of values of different types")
                return k(("list", ts[0] if ts else "?"), "[%s]" % "; ".join(a for _, a in vals))
            return self.cps_list(e[1], env, build)
        if kind == "tuple":
            return self.cps_list(e[1], env, lambda vals: k(("tuple", [t for t, _ in vals]),
                                                           "tt" if not vals else "(%s)" % ", ".join(a for _, a in vals)))
        if kind == "format":
            parts = e[1].split("{}")
            if len(parts) != 2 or len(e[2]) != 1 or "{" in parts[0] + parts[1] or "}" in parts[0] + parts[1]:
                raise Untranslatable("format string %r (exactly one {} is supported)" % e[1])

            def build(vals):
                if vals[0][0] != "text":
                    raise Untranslatable("format! of %s" % rtyname(vals[0][0]))
                return k("text", "(rs_format1 %s %s %s)" % (coq_text(parts[0]), coq_text(parts[1]), vals[0][1]))
            return self.cps_list(e[2], env, build)
        if kind == "call":
            f = e[1]
            if f[0] == "path":
                name = "::".join(f[1])
                if len(f[1]) == 1 and f[1][0] in env or f[1][0].startswith("$") and len(f[1]) == 1:
                    pass
                else:
                    def build(vals):
                        if name == "Ok" and len(vals) == 1:
                            return k(("res", vals[0][0], "Error"), "(ROk %s)" % vals[0][1])
                        if name == "Some" and len(vals) == 1:
                            return k(("opt", vals[0][0]), "(Some %s)" % vals[0][1])
                        if name in ("Box::new", "Arc::new") and len(vals) == 1:
                            return k(vals[0][0], vals[0][1])
                        key = name[len("$crate::"):] if name.startswith("$crate::") else name
                        key = key[len("crate::"):] if key.startswith("crate::") else key
                        if key in self.calls and self.calls[key][0] == len(vals):
                            t, a = self.calls[key][1](self, vals)
                            return k(t, a)
                        raise Untranslatable("call of %s with %d arguments" % (name, len(vals)))
                    return self.cps_list(e[2], env, build)
            # a call of a value (a macro parameter that is a constructor / function)

            def callee(tf, af):
                if not (isinstance(tf, tuple) and tf[0] == "fn"):
                    raise Untranslatable("call of %s" % rtyname(tf))

                def build(vals):
                    if len(vals) != 1 or vals[0][0] != tf[1]:
                        raise Untranslatable("call of a function parameter with %s" % ", ".join(rtyname(t) for t, _ in vals))
                    return k(tf[2], "(%s %s)" % (af, vals[0][1]))
                return self.cps_list(e[2], env, build)
            return self.cps(f, env, callee)
        if kind == "mcall":
            def recv(tr, ar):
                def build(vals):
                    r = self.methods(self, (tr, ar), e[2], vals, env)
                    if r is None:
                        raise Untranslatable("method .%s on %s" % (e[2], rtyname(tr)))
                    return k(r[0], r[1])
                return self.cps_list(e[3], env, build)
            return self.cps(e[1], env, recv)
        if kind in ("if", "match", "return", "block"):
            raise Untranslatable("`%s` inside an expression" % kind)
        raise Untranslatable("expression " + kind)

    def bad(self, msg):
        raise Untranslatable(msg)

    def closure_term(self, f, targ, env):
        """a closure (or a path of an identity function) applied to a value of type targ: (Coq fun, result type)"""
        if f[0] == "path":
            name = "::".join(f[1])
            if name in ("Into::into", "Dynamic::from"):
                if targ != "S":
                    raise Untranslatable("%s on %s" % (name, rtyname(targ)))
                return "cv_into", "D"
            return "(fun x_ => x_)", targ
        if len(f[1]) > 1:
            raise Untranslatable("closure with %d parameters" % len(f[1]))
        sub = EmitR("val", self.calls, self.methods, self.from_of)
        sub.n = self.n + 100
        env2 = dict(env)
        if f[1]:
            names = pattern_binds(f[1][0])
            if len(names) != 1:
                raise Untranslatable("closure parameter pattern")
            env2[names[0]] = (targ, "v_" + names[0], False)
            binder = "v_" + names[0]
        else:
            binder = "_"
        box = {}

        def fin(t, a):
            box["t"] = t
            return a
        body = f[2]
        if body[0] == "block":
            if body[1] or body[2] is None:
                raise Untranslatable("closure with statements")
            body = body[2]
        term = sub.cps(body, env2, fin)
        return "(fun %s => %s)" % (binder, term), box["t"]

    # ---- statements and results
    def finish(self, t, a):
        if self.mode == "res":
            if not (isinstance(t, tuple) and t[0] == "res" and t[2] == "Error"):
                raise Untranslatable("the function ends with %s, not with a Result" % rtyname(t))
            self.result_ty = t[1] if getattr(self, "result_ty", "?") in ("?", t[1]) else self.bad("branches of different types")
            return a
        self.result_ty = t if getattr(self, "result_ty", "?") in ("?", t) else self.bad("branches of different types")
        return "(ROk %s)" % a if self.mode == "macro" else a

    def tail(self, e, env):
        k = e[0]
        if k == "return":
            if e[1] is None:
                raise Untranslatable("return without a value")
            return self.tail(e[1], env)
        if k == "block":
            return self.seq(e[1], e[2], env)
        if k == "if":
            cond, th, el = e[1], e[2], e[3]
            if el is None:
                raise Untranslatable("if without else as the value of the function")
            if cond[0] == "let":
                x = some_pat(cond[1])
                if x is None:
                    raise Untranslatable("if let with a pattern that is not Some(x)")

                def after(t, a):
                    if not (isinstance(t, tuple) and t[0] == "opt"):
                        raise Untranslatable("if let Some(..) on %s" % rtyname(t))
                    env2 = dict(env)
                    env2[x] = (t[1], "v_" + x, False)
                    return "(match %s with\n | Some v_%s => %s\n | None => %s end)" % (a, x, self.tail(th, env2), self.tail(el, env))
                return self.cps(cond[2], env, after)

            def afterc(t, a):
                if t != "bool":
                    raise Untranslatable("condition of type " + rtyname(t))
                return "(if %s then %s else %s)" % (a, self.tail(th, env), self.tail(el, env))
            return self.cps(cond, env, afterc)
        if k == "match":
            some, none = None, None
            for pat, guard, body in e[2]:
                y = some_pat(pat)
                if guard is None and y is not None and some is None:
                    some = (y, body)
                elif guard is None and pat in (("pctor", ["None"], []), ("pwild",)) and none is None:
                    none = body
                else:
                    raise Untranslatable("match that is not on Some(x) / None")
            if some is None or none is None:
                raise Untranslatable("match that is not on Some(x) / None")

            def afterm(t, a):
                if not (isinstance(t, tuple) and t[0] == "opt"):
                    raise Untranslatable("match on %s" % rtyname(t))
                env2 = dict(env)
                env2[some[0]] = (t[1], "v_" + some[0], False)
                return "(match %s with\n | Some v_%s => %s\n | None => %s end)" % (a, some[0], self.tail(some[1], env2), self.tail(none, env))
            return self.cps(e[1], env, afterm)
        return self.cps(e, env, self.finish)

    def seq(self, stmts, final, env):
        if not stmts:
            if final is None:
                if self.mode == "val":
                    return self.finish("unit", "tt")
                raise Untranslatable("control reaches the end without a value")
            return self.tail(final, env)
        st, rest = stmts[0], stmts[1:]
        if st[0] == "let":
            pat, init = st[1], st[3]
            if init is None:
                raise Untranslatable("let without a value")

            def after(t, a):
                env2 = dict(env)
                if pat[0] == "pbind":
                    env2[pat[1]] = (t, "v_" + pat[1], pat[2])
                    return "(let v_%s := %s in\n %s)" % (pat[1], a, self.seq(rest, final, env2))
                if pat[0] == "ptuple" and all(q[0] == "pbind" for q in pat[1]):
                    n = len(pat[1])
                    ts = t[1] if isinstance(t, tuple) and t[0] == "tuple" else None
                    if ts is None or len(ts) != n:
                        raise Untranslatable("a tuple pattern of %d names on %s" % (n, rtyname(t)))
                    for q, tq in zip(pat[1], ts):
                        env2[q[1]] = (tq, "v_" + q[1], q[2])
                    if n == 0:
                        return "(let _ := %s in\n %s)" % (a, self.seq(rest, final, env2))
                    if n == 1:
                        return "(let v_%s := %s in\n %s)" % (pat[1][0][1], a, self.seq(rest, final, env2))
                    return "(let '(%s) := %s in\n %s)" % (", ".join("v_" + q[1] for q in pat[1]), a, self.seq(rest, final, env2))
                raise Untranslatable("let pattern")
            return self.cps(init, env, after)
        e = st[1]
        if e[0] == "return":
            return self.tail(e, env)
        if e[0] == "mcall" and e[2] == "hash" and len(e[3]) == 1:
            h = strip_ref(e[3][0])
            if h[0] != "path" or len(h[1]) != 1 or h[1][0] not in env or env[h[1][0]][0] != "hasher" or not env[h[1][0]][2]:
                raise Untranslatable(".hash(..) into something that is not a mutable hasher")
            hv = h[1][0]

            def after(t, a):
                if t == "S":
                    op = "rs_hash_one"
                elif t == ("list", "S"):
                    op = "rs_hash_vec"
                else:
                    raise Untranslatable(".hash of %s" % rtyname(t))
                return "(let v_%s := %s %s v_%s in\n %s)" % (hv, op, a, hv, self.seq(rest, final, env))
            return self.cps(e[1], env, after)
        if e[0] == "mcall" and e[2] == "reverse" and not e[3] and e[1][0] == "path" and len(e[1][1]) == 1 and e[1][1][0] in env:
            x = e[1][1][0]
            t, a, mutable = env[x]
            if not (isinstance(t, tuple) and t[0] == "list") or not mutable:
                raise Untranslatable(".reverse() on something that is not a mutable vector")
            return "(let v_%s := rev v_%s in\n %s)" % (x, x, self.seq(rest, final, env))
        raise Untranslatable("statement " + e[0])


# ============================================================================== (E) src/error.rs
ERROR_FILE = "src/error.rs"
EXT_TYPES = {"String": "text", "usize": "nat", "IoError": "ext_io_error", "Box<EvalAltResult>": "ext_eval_error",
             "ParseError": "ext_parse_error", "Box<dyn StdError+Send+Sync>": "ext_boxed_error"}


def sane(ty):
    return re.sub(r"[^A-Za-z0-9]", "", ty.replace("dyn ", ""))


def has_attr(attrs, name):
    return any(a and a[0] == ("id", name) for a in attrs)


def generate_errors(out):
    """-> (ok, {type text -> From function}, class table)"""
    from_of = {}
    try:
        items = parse_items(lex(pins.read(ERROR_FILE) or ""))
        decls = [it for it in items if it[0] in ("enum", "struct")]
        if not any(it[0] == "enum" and it[1] == "Error" for it in decls):
            raise Untranslatable("enum Error not found in " + ERROR_FILE)
        own = {it[1]: "gen_" + it[1] for it in decls}
        lines = []

        def payload(ty):
            ty = re.sub(r"\s+", " ", ty).strip()
            key = ty.replace(" ", "") if not ty.startswith("Box<dyn") else ty.replace(" + ", "+").replace("dyn ", "dyn ")
            key = re.sub(r"\s*\+\s*", "+", ty)
            if key in own:
                return own[key]
            if key in EXT_TYPES:
                return EXT_TYPES[key]
            raise Untranslatable("payload type " + ty)
        for it in decls:
            if it[0] == "struct":
                name, fields = it[1], it[2]
                lines.append("Inductive gen_%s : Type := G%s %s." % (name, name, " ".join("(a%d : %s)" % (i, payload(f[1])) for i, f in enumerate(fields))))
                continue
            name, variants = it[1], it[2]
            ctors = []
            for vn, fields, _va in variants:
                args = " ".join("(a%d : %s)" % (i, payload(f[0])) for i, f in enumerate(fields))
                ctors.append("| G%s_%s %s" % (name, vn, args) if args else "| G%s_%s" % (name, vn))
            lines.append("Inductive gen_%s : Type :=\n%s." % (name, "\n".join(ctors)))
        lines.append("")
        errs = [it for it in decls if it[0] == "enum" and it[1] == "Error"][0]
        classes = []
        for vn, fields, _va in errs[2]:
            if len(fields) == 1 and has_attr(fields[0][1], "from"):
                ty = re.sub(r"\s*\+\s*", "+", re.sub(r"\s+", " ", fields[0][0]).strip())
                fn = "gen_Error_from_" + sane(ty)
                lines.append("(* impl From<%s> for Error  (#[from] on Error::%s) *)" % (ty, vn))
                lines.append("Definition %s (e : %s) : gen_Error := GError_%s e." % (fn, payload(fields[0][0]), vn))
                from_of[ty] = fn
            classes.append(vn)
        lines.append("")
        lines.append("(* the variant of an error, as the harness reports it (err_class of harness/src/eng.rs restated as errc_of_variant) *)")
        lines.append("Definition gen_error_variant (e : gen_Error) : text :=\n match e with\n%s\n end." % "\n".join(
            " | GError_%s%s => T \"%s\"" % (vn, " _" * len(fields), vn) for vn, fields, _va in errs[2]))
        lines.append("Definition gen_error_class (e : gen_Error) : option errc := errc_of_variant (gen_error_variant e).")
        lines.append("Definition gen_error_variants : list text := [%s]." % "; ".join('T "%s"' % vn for vn in classes))
        out.extend(lines)
        out.append("")
        return True, from_of
    except Exception as ex:   # noqa
        out.append(fail_comment(ERROR_FILE, ex))
        out.append("Inductive gen_ModelError : Type := GModelError_stub (a0 : text).")
        out.append("Inductive gen_Error : Type := GError_stub.")
        out.append("Definition gen_Error_from_ModelError (e : gen_ModelError) : gen_Error := GError_stub.")
        out.append("Definition gen_Error_from_BoxEvalAltResult (e : ext_eval_error) : gen_Error := GError_stub.")
        out.append("Definition gen_error_variant (e : gen_Error) : text := [].")
        out.append("Definition gen_error_class (e : gen_Error) : option errc := None.")
        out.append("Definition gen_error_variants : list text := [].\n")
        return False, {"ModelError": "gen_Error_from_ModelError", "Box<EvalAltResult>": "gen_Error_from_BoxEvalAltResult"}


# ============================================================================== (B) src/macros.rs
MACRO_FILE = "src/macros.rs"
# macros that another part expands and translates: name -> (part, how it is checked here)
MACROS_ELSEWHERE = {"register_g_function": "part 15 (tools/rs2coq_enf2.py expands it inside Enforcer::register_g_functions: "
                    "Gen/Enforcer2Gen.v gen_enf_register_g_functions, PinChecks/PcEnforcer2Gen.v)"}


def macro_methods(em, recv, name, vals, env):
    t, a = recv
    if t == "enf" and name == "get_model" and not vals:
        return "dynmodel", a       # CoreApi::get_model(&self) -> &dyn Model
    if t == "dynmodel" and name == "get_model" and not vals:
        return "model", a          # Model::get_model(&self) -> &HashMap<..>  (gen_dm_get_model: the identity)
    if t in ("model", "amap") and name == "get" and len(vals) == 1 and vals[0][0] == "text":
        fn = "rs_smap_get" if t == "model" else "rs_amap_get"
        return ("opt", "amap" if t == "model" else "ast"), "(%s %s %s)" % (fn, a, vals[0][1])
    if isinstance(t, tuple) and t[0] == "opt" and name == "ok_or_else" and len(vals) == 1 and vals[0][0] == "closure":
        f = vals[0][1]
        if f[0] != "closure" or f[1]:
            raise Untranslatable("ok_or_else with something that is not a closure without parameters")
        term, tr = em.closure_term(f, "unit", env)
        if not (isinstance(tr, tuple) and tr[0] == "err"):
            raise Untranslatable("ok_or_else with a closure that gives %s" % rtyname(tr))
        return ("res", t[1], tr[1]), "(rs_ok_or_else %s %s)" % (a, term)
    if isinstance(t, tuple) and t[0] == "opt" and name == "ok_or" and len(vals) == 1 and isinstance(vals[0][0], tuple) and vals[0][0][0] == "err":
        return ("res", t[1], vals[0][0][1]), "(rs_ok_or_else %s (fun _ => %s))" % (a, vals[0][1])
    if t == "text" and name in ("to_owned", "to_string", "into", "clone", "as_str", "as_ref") and not vals:
        return t, a
    return None


def error_from(em, vals):
    t, a = vals[0]
    if not (isinstance(t, tuple) and t[0] == "err" and t[1] == "X"):
        raise Untranslatable("Error::from of %s" % rtyname(t))
    return ("err", "Error"), "(from_X %s)" % a


MACRO_CALLS = {"error::Error::from": (1, error_from), "Error::from": (1, error_from)}


def infer_macro_params(expr, params):
    """the type of every macro parameter, from how it is used"""
    tys = {}

    def put(x, t):
        if x in tys and tys[x] != t:
            raise Untranslatable("macro parameter $%s is used as %s and as %s" % (x, rtyname(tys[x]), rtyname(t)))
        tys[x] = t
    for n in walk(expr):
        if n[0] == "mcall" and n[2] in ("get", "get_mut") and len(n[3]) == 1 and strip_ref(n[3][0])[0] == "meta":
            put(strip_ref(n[3][0])[1], "text")
        if n[0] == "mcall" and n[2] == "get_model" and n[1][0] == "meta":
            put(n[1][1], "enf")
        if n[0] == "call" and n[1][0] == "meta":
            put(n[1][1], ("fn", "text", ("err", "X")))
        if n[0] == "format":
            for a in n[2]:
                if strip_ref(a)[0] == "meta":
                    put(strip_ref(a)[1], "text")
    for x in params:
        if x not in tys:
            tys[x] = "text"       # never used: an expression that is dropped (every call site passes a string here)
    return tys


def translate_lookup_macro(md):
    if len(md.rules) != 1:
        raise Untranslatable("macro %s!: %d rules" % (md.name, len(md.rules)))
    matcher, trans = md.rules[0]
    pm = parse_matcher(matcher)
    params = []
    for i, m in enumerate(pm):
        if i % 2 == 1:
            if m != ("tok", ("op", ",")):
                raise Untranslatable("macro %s!: matcher" % md.name)
        elif m[0] == "frag" and m[2] in ("ident", "expr"):
            params.append(m[1])
        else:
            raise Untranslatable("macro %s!: matcher" % md.name)
    p = RP(flatten(trans))
    stmts, final = p.stmts()
    if p.peek()[0] != "eof":
        raise Untranslatable("macro %s!: trailing tokens" % md.name)
    body = ("block", stmts, final)
    while body[0] == "block" and not body[1] and body[2] is not None and body[2][0] == "block":
        body = body[2]
    tys = infer_macro_params(body, params)
    this = [x for x in params if tys[x] == "enf"]
    if len(this) != 1:
        raise Untranslatable("macro %s!: %d enforcer parameters" % (md.name, len(this)))
    env = {}
    binders = []
    for x in params:
        t = tys[x]
        if t == "enf":
            env["$" + x] = ("enf", "st_model", False)
            binders.append("(st_model : model)")
        elif t == "text":
            env["$" + x] = ("text", "m_" + x, False)
            binders.append("(m_%s : text)" % x)
        else:
            env["$" + x] = (t, "m_" + x, False)
            binders.append("(m_%s : text -> X)" % x)
    em = EmitR("macro", MACRO_CALLS, macro_methods, {})
    term = em.tail(body, env)
    if em.result_ty != "ast":
        raise Untranslatable("macro %s!: its value is %s, not an Assertion" % (md.name, rtyname(em.result_ty)))
    return ("Definition gen_%s {X : Type} (from_X : X -> gen_Error) %s : rs_result assertion gen_Error :=\n %s.\n"
            % (md.name, " ".join(binders), term)), params, tys


def macro_is_cfg_empty(md):
    """the transcriber is nothing but statements under a #[cfg] that is off"""
    if len(md.rules) != 1:
        return False
    p = RP(flatten(md.rules[0][1]))
    stmts, final = p.stmts()
    body = ("block", stmts, final)
    while body[0] == "block" and not body[1] and body[2] is not None and body[2][0] == "block":
        body = body[2]
    if body[2] is not None or not body[1]:
        return False
    return all(cfg_of(st[-1]) is not None and not active(st[-1]) for st in body[1])


# the interface PcModel2Gen.v is written against: macro -> (kinds of its parameters, Coq binders of the stub)
MACRO_IFACE = {"get_or_err": ("M T F T", "(_ : model) (_ : text) (m_err : text -> X) (_ : text)"),
               "get_or_err_with_context": ("M T T F T", "(_ : model) (_ _ : text) (m_err : text -> X) (_ : text)")}


def generate_macros(out):
    ok = True
    try:
        items = parse_items(lex(pins.read(MACRO_FILE) or ""))
    except Exception as ex:   # noqa
        items = []
        ok = False
        out.append(fail_comment(MACRO_FILE, ex))
    done = set()
    inventory = []
    for it in items:
        if it[0] != "macro_rules":
            if it[0] != "use":
                ok = False
                out.append("(* %s: an item that is not a macro_rules! (%s) *)" % (MACRO_FILE, it[0]))
            continue
        md = it[1]
        try:
            if md.name in MACROS_ELSEWHERE:
                import rs2coq_enf2
                rs2coq_enf2.read_macro(md.name)       # raises when part 15 cannot read it
                out.append("(* macro %s!: %s *)" % (md.name, cmt(MACROS_ELSEWHERE[md.name])))
                inventory.append((md.name, "elsewhere"))
                continue
            if macro_is_cfg_empty(md):
                out.append("(* macro %s!: every statement of its transcriber is under a #[cfg] that is off: it expands to nothing *)" % md.name)
                inventory.append((md.name, "empty"))
                continue
            txt, params, tys = translate_lookup_macro(md)
            want = MACRO_IFACE.get(md.name)
            if want is None:
                raise Untranslatable("macro %s!: a lookup macro that the obligations do not know" % md.name)
            got = " ".join({"enf": "M", "text": "T"}.get(tys[x], "F") for x in params)
            if got != want[0]:
                raise Untranslatable("macro %s!: parameters (%s)" % (md.name, ", ".join("$" + x for x in params)))
            out.append(txt)
            done.add(md.name)
            inventory.append((md.name, "here"))
        except Exception as ex:   # noqa
            ok = False
            out.append(fail_comment("macro %s!" % md.name, ex))
            inventory.append((md.name, "failed"))
    for name, (_kinds, binders) in MACRO_IFACE.items():
        if name not in done:
            if ok:
                ok = False
                out.append("(* macro %s! not found in %s *)" % (name, MACRO_FILE))
            out.append("Definition gen_%s {X : Type} (from_X : X -> gen_Error) %s : rs_result assertion gen_Error := RErr (from_X (m_err [])).\n"
                       % (name, binders))
    out.append("(* every macro_rules! of %s and where it is translated *)" % MACRO_FILE)
    out.append("Definition gen_macros_inventory : list (text * text) := [%s].\n" % "; ".join('(T "%s", T "%s")' % x for x in inventory))
    return ok


# ============================================================================== (C) src/convert.rs
CONVERT_FILE = "src/convert.rs"


def expand_items(items, depth=0):
    """items with every invocation of a macro_rules! of the same file expanded (recursively)"""
    defs = {it[1].name: it[1] for it in items if it[0] == "macro_rules"}
    out = []
    for it in items:
        if it[0] == "invoke" and it[1] in defs:
            if depth > 64:
                raise Untranslatable("macro expansion deeper than 64")
            if not active(it[3]):
                continue
            toks = flatten(expand_once(defs[it[1]], it[2]))
            sub = parse_items(toks)
            sub = [("macro_rules", d, []) for d in defs.values()] + sub
            out.extend(x for x in expand_items(sub, depth + 1) if x[0] != "macro_rules")
        elif it[0] == "invoke":
            raise Untranslatable("invocation of an unknown macro %s!" % it[1])
        else:
            out.append(it)
    return out


def conv_methods(em, recv, name, vals, env):
    t, a = recv
    if t == "T" and name in ("try_into_model", "try_into_adapter") and not vals:
        return ("res", em.target, "Error"), "(cv_inner %s)" % a
    if isinstance(t, tuple) and t[0] == "list":
        if name in ("into_iter", "iter", "collect", "to_vec", "clone", "to_owned", "cloned") and not vals:
            return t, a
        if name == "map" and len(vals) == 1 and vals[0][0] == "closure":
            term, tr = em.closure_term(vals[0][1], t[1], env)
            return ("list", tr), "(map %s %s)" % (term, a)
    if isinstance(t, tuple) and t[0] == "list" and name == "rev" and not vals:
        return t, "(rev %s)" % a
    if t == "S" and name == "into" and not vals:
        return "D", "(cv_into %s)" % a
    if t == "S" and name in ("clone", "to_owned") and not vals:
        return t, a
    if t == "hasher" and name == "finish" and not vals:
        return "hash", "(rs_hasher_finish %s)" % a
    return None


CONV_CALLS = {
    "DefaultModel::from_file": (1, lambda em, v: (("res", "M", "Error"), "(cv_from_file %s)" % v[0][1]) if v[0][0] == "text" else em.bad("from_file of " + rtyname(v[0][0]))),
    "DefaultModel::from_str": (1, lambda em, v: (("res", "M", "Error"), "(cv_from_str %s)" % v[0][1]) if v[0][0] == "text" else em.bad("from_str of " + rtyname(v[0][0]))),
    "DefaultModel::default": (0, lambda em, v: ("M", "cv_default_model")),
    "FileAdapter::new": (1, lambda em, v: ("A", "(cv_file_adapter_new %s)" % v[0][1]) if v[0][0] == "text" else em.bad("FileAdapter::new of " + rtyname(v[0][0]))),
    "NullAdapter": (0, lambda em, v: ("A", "cv_null_adapter")),
    "to_dynamic": (1, lambda em, v: (("res", "D", "Box<EvalAltResult>"), "(cv_to_dynamic %s)" % v[0][1]) if v[0][0] == "S" else em.bad("to_dynamic of " + rtyname(v[0][0]))),
    "DefaultHasher::new": (0, lambda em, v: ("hasher", "rs_hasher_new")),
}


def tuple_arity(selfty):
    """(A,B,) -> 2;  () -> 0;  None when selfty is not a tuple of identifiers"""
    s = re.sub(r"\s+", "", selfty)
    if not (s.startswith("(") and s.endswith(")")):
        return None
    inner = s[1:-1]
    if inner == "":
        return 0
    parts = [x for x in inner.split(",")]
    if parts and parts[-1] == "":
        parts = parts[:-1]
    if not all(re.match(r"^[A-Za-z_]\w*$", x) for x in parts):
        return None
    return len(parts)


def coq_rty(t):
    if t == "M" or t == "A" or t == "S" or t == "D" or t == "T":
        return t
    if t == "text":
        return "text"
    if t == "unit":
        return "unit"
    if t == "hash":
        return "list (hpart S)"
    if isinstance(t, tuple) and t[0] == "list":
        return "list %s" % coq_rty(t[1])
    if isinstance(t, tuple) and t[0] == "opt":
        return "option %s" % coq_rty(t[1])
    if isinstance(t, tuple) and t[0] == "tuple":
        if not t[1]:
            return "unit"
        return "(%s)" % " * ".join(coq_rty(x) for x in t[1])
    raise Untranslatable("type " + rtyname(t))


MAX_TUPLE = 32


def generate_convert(out, from_of):
    ok = True
    found = {}      # Coq name -> definition text

    def emit(gen, selft, fn, mode, target, want_ret):
        em = EmitR(mode, CONV_CALLS, conv_methods, from_of)
        em.target = target
        if fn.params != [("self", "")] and fn.params != [("self", "&")]:
            raise Untranslatable("%s: parameters" % gen)
        body = select_cfg(fn.body())
        term = em.seq(body[1], body[2], {"self": (selft, "v_self", False)})
        if em.result_ty != want_ret and not (em.result_ty == ("list", "?") and isinstance(want_ret, tuple) and want_ret[0] == "list"):
            raise Untranslatable("%s: gives %s" % (gen, rtyname(em.result_ty)))
        rty = "rs_result %s gen_Error" % (coq_rty(want_ret) if " " not in coq_rty(want_ret) else "(%s)" % coq_rty(want_ret)) \
            if mode == "res" else coq_rty(want_ret)
        found[gen] = "Definition %s (v_self : %s) : %s :=\n %s.\n" % (gen, coq_rty(selft), rty, term)

    try:
        items = expand_items(parse_items(lex(pins.read(CONVERT_FILE) or "")))
    except Exception as ex:   # noqa
        items = []
        ok = False
        out.append(fail_comment(CONVERT_FILE, ex))
    arities = []
    problems = []
    for it in items:
        if it[0] in ("use", "trait", "macro_rules", "mod"):
            continue
        if it[0] != "impl":
            ok = False
            problems.append("(* %s: an item that is not an impl (%s) *)" % (CONVERT_FILE, it[0]))
            continue
        imp = it[1]
        if not active(imp.attrs):
            continue
        st = re.sub(r"\s+", "", imp.selfty)
        for fn in imp.fns:
            what = "%s for %s :: %s" % (imp.trait, imp.selfty, fn.name)
            try:
                if not active(fn.attrs):
                    continue
                if imp.trait in ("TryIntoModel", "TryIntoAdapter"):
                    tgt = "M" if imp.trait == "TryIntoModel" else "A"
                    stem = "gen_try_into_model" if tgt == "M" else "gen_try_into_adapter"
                    if fn.name != stem[4:]:
                        raise Untranslatable("unexpected method")
                    if st == "&'staticstr":
                        emit(stem + "_str", "text", fn, "res", tgt, tgt)
                    elif st == "Option<T>":
                        if not re.search(r"\bT\s*:\s*" + imp.trait, imp.where + " " + imp.generics):
                            raise Untranslatable("Option<T> without T: " + imp.trait)
                        emit(stem + "_option", ("opt", "T"), fn, "res", tgt, tgt)
                    elif st == "()":
                        emit(stem + "_unit", "unit", fn, "res", tgt, tgt)
                    elif st == "T":
                        bound = "Model" if tgt == "M" else "Adapter"
                        if not re.search(r"\bT\s*:\s*" + bound, imp.where + " " + imp.generics):
                            raise Untranslatable("a blanket impl for T without T: " + bound)
                        emit(stem + "_built", tgt, fn, "res", tgt, tgt)
                    else:
                        raise Untranslatable("an impl for a type the obligations do not know")
                elif imp.trait == "EnforceArgs":
                    n = tuple_arity(st)
                    if st == "Vec<T>":
                        selft, stem = ("list", "S"), "gen_vec"
                    elif n is not None:
                        selft, stem = ("tuple", ["S"] * n), "gen_tuple%d" % n
                        if n > MAX_TUPLE:
                            raise Untranslatable("a tuple of %d values" % n)
                    else:
                        raise Untranslatable("an impl for a type the obligations do not know")
                    if fn.name == "try_into_vec":
                        emit(stem + "_try_into_vec", selft, fn, "res", None, ("list", "D"))
                        if n is not None:
                            arities.append(n)
                    elif fn.name == "cache_key":
                        emit(stem + "_cache_key", selft, fn, "val", None, "hash")
                    else:
                        raise Untranslatable("unexpected method")
                else:
                    raise Untranslatable("an impl of a trait the obligations do not know")
            except Exception as ex:   # noqa
                ok = False
                problems.append(fail_comment(what, ex))
    out.append("Section Convert.")
    out.append("(* M = Box<dyn Model>, A = Box<dyn Adapter> (Box::new: the identity), T = the convertible type inside Option<T>,")
    out.append("   S = a request value (Serialize + Hash / Into<Dynamic> + Hash), D = rhai::Dynamic *)")
    out.append("Variables (M A T S D : Type).")
    out.append("Variable cv_from_file : text -> rs_result M gen_Error.      (* DefaultModel::from_file(path).await (part 12) *)")
    out.append("Variable cv_from_str : text -> rs_result M gen_Error.       (* DefaultModel::from_str(text).await (part 12) *)")
    out.append("Variable cv_default_model : M.                              (* DefaultModel::default() *)")
    out.append("Variable cv_file_adapter_new : text -> A.                   (* FileAdapter::new(path) (part 17) *)")
    out.append("Variable cv_null_adapter : A.                               (* NullAdapter *)")
    out.append("Variable cv_into : S -> D.                                  (* Into<Dynamic>::into *)")
    out.append("Variable cv_to_dynamic : S -> rs_result D ext_eval_error.   (* rhai::serde::to_dynamic *)")
    out.append("")
    out.extend(problems)
    iface = [("gen_try_into_model_str", "text", "rs_result M gen_Error", "RErr (gen_Error_from_BoxEvalAltResult ExtEvalError)"),
             ("gen_try_into_model_built", "M", "rs_result M gen_Error", "RErr (gen_Error_from_BoxEvalAltResult ExtEvalError)"),
             ("gen_try_into_adapter_str", "text", "rs_result A gen_Error", "RErr (gen_Error_from_BoxEvalAltResult ExtEvalError)"),
             ("gen_try_into_adapter_unit", "unit", "rs_result A gen_Error", "RErr (gen_Error_from_BoxEvalAltResult ExtEvalError)"),
             ("gen_try_into_adapter_built", "A", "rs_result A gen_Error", "RErr (gen_Error_from_BoxEvalAltResult ExtEvalError)"),
             ("gen_vec_try_into_vec", "list S", "rs_result (list D) gen_Error", "RErr (gen_Error_from_BoxEvalAltResult ExtEvalError)"),
             ("gen_vec_cache_key", "list S", "list (hpart S)", "[]")]
    for gen, selft, rty, stub in iface:
        if gen in found:
            out.append(found.pop(gen))
        else:
            if ok:
                ok = False
            out.append("(* %s: no such impl found *)" % gen)
            out.append("Definition %s (_ : %s) : %s := %s.\n" % (gen, selft, rty, stub))
    out.append("Section Inner.")
    out.append("Variable cv_inner : T -> rs_result M gen_Error.            (* <T as TryIntoModel>::try_into_model(..).await *)")
    if "gen_try_into_model_option" in found:
        out.append(found.pop("gen_try_into_model_option"))
    else:
        ok = False
        out.append("(* gen_try_into_model_option: no such impl found *)")
        out.append("Definition gen_try_into_model_option (_ : option T) : rs_result M gen_Error := RErr (gen_Error_from_BoxEvalAltResult ExtEvalError).\n")
    out.append("End Inner.")
    out.append("Section InnerA.")
    out.append("Variable cv_inner : T -> rs_result A gen_Error.            (* <T as TryIntoAdapter>::try_into_adapter(..).await *)")
    if "gen_try_into_adapter_option" in found:
        out.append(found.pop("gen_try_into_adapter_option"))
    else:
        ok = False
        out.append("(* gen_try_into_adapter_option: no such impl found *)")
        out.append("Definition gen_try_into_adapter_option (_ : option T) : rs_result A gen_Error := RErr (gen_Error_from_BoxEvalAltResult ExtEvalError).\n")
    out.append("End InnerA.")
    # the tuples: one pair of functions per arity for which the macro expansion has an impl
    ns = sorted(set(arities))
    for n in ns:
        for suffix in ("try_into_vec", "cache_key"):
            gen = "gen_tuple%d_%s" % (n, suffix)
            if gen in found:
                out.append(found.pop(gen))
            else:
                ok = False
                out.append("(* %s: no such impl found *)" % gen)
                selft = coq_rty(("tuple", ["S"] * n))
                if suffix == "try_into_vec":
                    out.append("Definition %s (_ : %s) : rs_result (list D) gen_Error := RErr (gen_Error_from_BoxEvalAltResult ExtEvalError).\n" % (gen, selft))
                else:
                    out.append("Definition %s (_ : %s) : list (hpart S) := [].\n" % (gen, selft))
    for gen in sorted(found):
        ok = False
        out.append("(* %s: an impl that the obligations do not know *)" % gen)
    if len(arities) != len(ns):
        ok = False
        out.append("(* two impls of EnforceArgs for tuples of the same arity *)")
    # (x1, .., xn).try_into_vec() / .cache_key() by the number of values; None = no impl of EnforceArgs for such a tuple
    for suffix, rty in (("try_into_vec", "rs_result (list D) gen_Error"), ("cache_key", "list (hpart S)")):
        lines = ["Definition gen_tuple_%s (vals : list S) : option (%s) :=\n match vals with" % (suffix, rty)]
        for n in ns:
            xs = ["x%d" % i for i in range(1, n + 1)]
            arg = "tt" if n == 0 else xs[0] if n == 1 else "(%s)" % ", ".join(xs)
            lines.append(" | [%s] => Some (gen_tuple%d_%s %s)" % ("; ".join(xs), n, suffix, arg))
        lines.append(" | _ => None\n end.\n")
        out.append("\n".join(lines))
    out.append("Definition gen_tuple_arities : list nat := [%s]." % "; ".join(str(n) for n in ns))
    out.append("End Convert.\n")
    return ok


# ============================================================================== (D) src/cache/default_cache.rs
CACHE_FILE = "src/cache/default_cache.rs"
# method of mini_moka::sync::Cache -> (restatement in Gen/MokaRt.v, number of arguments, type of the value)
MOKA_OPS = {"get": ("rs_moka_get keqb", 1, ("opt", "V")), "contains_key": ("rs_moka_contains_key keqb", 1, "bool"),
            "insert": ("rs_moka_insert keqb", 2, "unit"), "invalidate_all": ("rs_moka_invalidate_all", 0, "unit")}


class EmitD:
    """the methods of DefaultCache: expressions over `self.cache.<op>(..)`, the cache being the state st_cache"""

    def __init__(self, field):
        self.field = field
        self.n = 0

    def ex(self, e, env, k):
        """k(type, term) -> term of the whole; moka operations rebind st_cache"""
        kind = e[0]
        if kind == "unary" and e[1] in ("&", "&mut", "*"):
            return self.ex(e[2], env, k)
        if kind == "unary" and e[1] == "!":
            return self.ex(e[2], env, lambda t, a: k("bool", "(negb %s)" % a) if t == "bool" else self.bad("! on " + rtyname(t)))
        if kind == "bool":
            return k("bool", e[1])
        if kind == "path" and len(e[1]) == 1 and e[1][0] in env:
            return k(*env[e[1][0]])
        if kind == "block" and not e[1] and e[2] is not None:
            return self.ex(e[2], env, k)
        if kind == "mcall":
            recv = strip_ref(e[1])
            if recv == ("field", ("path", ["self"]), self.field):
                if e[2] not in MOKA_OPS or len(e[3]) != MOKA_OPS[e[2]][1]:
                    raise Untranslatable("self.%s.%s with %d arguments" % (self.field, e[2], len(e[3])))
                fn, _n, rt = MOKA_OPS[e[2]]
                want = ["K", "V"][:len(e[3])]

                def build(vals):
                    for (t, _a), w in zip(vals, want):
                        if t != w:
                            raise Untranslatable("%s with an argument that is %s" % (e[2], rtyname(t)))
                    call = " ".join([fn, "st_cache"] + [a for _, a in vals])
                    if rt == "unit":
                        return "(let st_cache := %s in\n %s)" % (call, k("unit", "tt"))
                    self.n += 1
                    q = "q_%d" % self.n
                    return "(let '(st_cache, %s) := %s in\n %s)" % (q, call, k(rt, q))
                return self.args(e[3], env, build)

            def after(t, a):
                if isinstance(t, tuple) and t[0] == "opt" and e[2] in ("is_some", "is_none") and not e[3]:
                    return k("bool", ("(rs_is_some %s)" if e[2] == "is_some" else "(negb (rs_is_some %s))") % a)
                if t in ("K", "V") and e[2] in ("clone", "to_owned") and not e[3]:
                    return k(t, a)
                if isinstance(t, tuple) and t[0] == "opt" and e[2] in ("cloned", "clone") and not e[3]:
                    return k(t, a)
                raise Untranslatable("method .%s on %s" % (e[2], rtyname(t)))
            return self.ex(e[1], env, after)
        raise Untranslatable("expression " + kind)

    def bad(self, msg):
        raise Untranslatable(msg)

    def args(self, es, env, k, acc=None):
        acc = acc or []
        if not es:
            return k(acc)
        return self.ex(es[0], env, lambda t, a: self.args(es[1:], env, k, acc + [(t, a)]))

    def body(self, blk, env, ret):
        stmts, final = blk[1], blk[2]

        def seq(sts):
            if not sts:
                if final is None:
                    if ret != "unit":
                        raise Untranslatable("no value")
                    return "st_cache"
                return self.ex(final, env, lambda t, a: ("(st_cache, %s)" % a) if t == ret and ret != "unit" else
                               ("st_cache" if t == ret else self.bad("gives %s" % rtyname(t))))
            st = sts[0]
            if st[0] != "expr" or cfg_of(st[3]) is not None:
                raise Untranslatable("statement")
            return self.ex(st[1], env, lambda t, a: seq(sts[1:]))
        return seq(stmts)


def generate_cache(out):
    ok = True
    iface = [("get", "gen_cache_get", [("k", "&K", "K")], "Option<V>", ("opt", "V"), "moka K V * option V", "(st_cache, None)"),
             ("has", "gen_cache_has", [("k", "&K", "K")], "bool", "bool", "moka K V * bool", "(st_cache, false)"),
             ("set", "gen_cache_set", [("k", "K", "K"), ("v", "V", "V")], None, "unit", "moka K V", "st_cache"),
             ("clear", "gen_cache_clear", [], None, "unit", "moka K V", "st_cache")]
    out.append("(* DefaultCache<K, V>: its one field is the mini-moka cache (Gen/MokaRt.v), the state st_cache of every method;")
    out.append("   keqb = the equality of K (Eq + Hash) *)\n")
    field = None
    imp_new, imp_cache = None, None
    try:
        items = parse_items(lex(pins.read(CACHE_FILE) or ""))
        structs = [it for it in items if it[0] == "struct" and it[1] == "DefaultCache"]
        if len(structs) != 1 or len(structs[0][2]) != 1 or not re.match(r"^MokaCache<K,\s*V>$", structs[0][2][0][1]):
            raise Untranslatable("struct DefaultCache is not one field of type MokaCache<K, V>")
        field = structs[0][2][0][0]
        for it in items:
            if it[0] == "impl" and it[1].selfty.replace(" ", "") == "DefaultCache<K,V>" and active(it[1].attrs):
                if it[1].trait is None:
                    imp_new = it[1]
                elif it[1].trait.replace(" ", "") == "Cache<K,V>":
                    imp_cache = it[1]
    except Exception as ex:   # noqa
        ok = False
        out.append(fail_comment(CACHE_FILE, ex))
    # new
    try:
        fns = [f for f in (imp_new.fns if imp_new else []) if f.name == "new"]
        if len(fns) != 1 or fns[0].params != [("cap", "usize")]:
            raise Untranslatable("DefaultCache::new(cap: usize) not found")
        b = fns[0].body()
        if b[1] or b[2] is None or b[2][0] != "struct" or b[2][1] != ["DefaultCache"] or [f for f, _ in b[2][2]] != [field]:
            raise Untranslatable("new: the body is not a DefaultCache { %s: .. } literal" % field)
        init = b[2][2][0][1]
        if init[0] != "call" or init[1] != ("path", ["MokaCache", "new"]) or len(init[2]) != 1:
            raise Untranslatable("new: the cache is not built by MokaCache::new(..)")
        arg = init[2][0]
        while arg[0] == "cast" and re.sub(r"\s+", "", arg[2]) in ("u64", "usize"):
            arg = arg[1]
        if arg != ("path", ["cap"]):
            raise Untranslatable("new: the capacity is not `cap`")
        out.append("Definition gen_cache_new (K V : Type) (sched : list (K -> bool)) (v_cap : nat) : moka K V := rs_moka_new sched v_cap.\n")
    except Exception as ex:   # noqa
        ok = False
        out.append(fail_comment("DefaultCache::new", ex))
        out.append("Definition gen_cache_new (K V : Type) (sched : list (K -> bool)) (v_cap : nat) : moka K V := rs_moka_new sched 0.\n")
    for name, gen, params, rret, ret, coqret, stub in iface:
        binders = "(K V : Type) (keqb : K -> K -> bool) (st_cache : moka K V) " + " ".join("(v_%s : %s)" % (x, t) for x, _rt, t in params)
        try:
            fns = [f for f in (imp_cache.fns if imp_cache else []) if f.name == name and active(f.attrs)]
            if len(fns) != 1:
                raise Untranslatable("%d definitions" % len(fns))
            fn = fns[0]
            if fn.params != [("self", "&")] + [(x, rt) for x, rt, _t in params] or (fn.ret or None) != rret:
                raise Untranslatable("signature")
            env = {x: (t, "v_" + x) for x, _rt, t in params}
            term = EmitD(field).body(fn.body(), env, ret)
            out.append("Definition %s %s : %s :=\n %s.\n" % (gen, binders.strip(), coqret, term))
        except Exception as ex:   # noqa
            ok = False
            out.append(fail_comment("DefaultCache::%s" % name, ex))
            out.append("Definition %s %s : %s := %s.\n" % (gen, binders.strip(), coqret, stub))
    out.append("")
    return ok


# ============================================================================== the generated file
def generate():
    out = ["(* GENERATED on every run by tools/rs2coq_model2.py (rs2coq part 18) from /repo/src/model/default_model.rs (the nine",
           "   policy-store methods of impl Model for DefaultModel, get_model / get_mut_model), /repo/src/macros.rs, /repo/src/convert.rs,",
           "   /repo/src/cache/default_cache.rs and /repo/src/error.rs - do not edit.",
           "   st_model = self.model (the map section -> key -> assertion); a store function returns option: None = the panic of the",
           "   source (an index out of range inside the loops of parts 3 / 8); a `&mut self` function returns the new map with its value. *)",
           "From CV Require Import Model.Base Model.Enforce Model.Engine.",
           "From CV Require Import Gen.RustStr Gen.RustVec Gen.RustIter Gen.Petgraph Gen.IniRt Gen.LinksPrims Gen.StoreGen Gen.LinksGen.",
           "From CV Require Import Gen.Model2Rt Gen.MokaRt.", ""]
    oks = []
    out.append("(* ------------------------------------------------------------------ (E) src/error.rs *)")
    ok_e, from_of = generate_errors(out)
    oks.append(ok_e)
    out.append("(* ------------------------------------------------------------------ (A) src/model/default_model.rs *)")
    oks.append(generate_store(out))
    out.append("(* ------------------------------------------------------------------ (B) src/macros.rs *)")
    oks.append(generate_macros(out))
    out.append("(* ------------------------------------------------------------------ (C) src/convert.rs *)")
    oks.append(generate_convert(out, from_of))
    out.append("(* ------------------------------------------------------------------ (D) src/cache/default_cache.rs *)")
    oks.append(generate_cache(out))
    ok = all(oks)
    out.append("Definition gen_model2_translated : bool := %s." % ("true" if ok else "false"))
    return "\n".join(out) + "\n", ok


def main(dst_dir=None):
    dst_dir = dst_dir or "/verif/coq/Gen"
    txt, ok = generate()
    rs2coq.write_if_changed(os.path.join(dst_dir, "Model2Gen.v"), txt, ok)


if __name__ == "__main__":
    main(sys.argv[1] if len(sys.argv) > 1 else None)
