#!/usr/bin/env python3
"""rs2coq, part 15: what was still only hash-pinned in src/enforcer.rs, plus
src/emitter.rs -> coq/Gen/Enforcer2Gen.v, programs over the Rust-level enforcer
state `renf` of coq/Gen/Enforcer2Rt.v (one field per field of `struct Enforcer`;
`abs : renf -> estate` is the state of Model/Engine.v it stands for).
coq/PinChecks/PcEnforcer2Gen.v proves every generated function equal to the
model's function / step, for all states and arguments.

Translated (features incremental, watcher, cached, runtime-tokio ON; logging, explain OFF):
  src/emitter.rs   notify_logger_and_watcher (T := Enforcer), clear_cache (T := CachedEnforcer)
  src/enforcer.rs  impl EventEmitter<Event> for Enforcer: on, off, emit
                   EnforceContext::new
                   Enforcer::register_g_functions (register_g_function! of src/macros.rs is EXPANDED:
                   its definition is read, its variables substituted, the result parsed)
                   impl CoreApi for Enforcer: build_incremental_role_links, enforce,
                   enforce_with_context, enforce_mut, new_raw, new

Everything is READ from the text on every run: a lexer, a recursive-descent
parser (items are located by name, their signature and body parsed) and a typed,
continuation-passing emitter.  Subset:
  statements  let [mut] pat = e;   e;   place = e;   return e;   for pat in e { .. }
              if / else if / else,  if let pat = e { .. } else { .. },  match e { pat => e, .. }
              #[cfg(..)] on a statement, a block, a field of a struct literal (resolved for FEATURES;
              what is compiled out is counted in a comment), #[allow(..)] / #[inline] ignored
              name!(..) for a macro_rules! macro of src/macros.rs with `$x:ident` parameters
  patterns    x, _, (p, ..), &p, Some(p), None, Ok(p), Err(p), ref / ref mut / mut binders
  expressions literals, paths, calls, methods, fields, `?`, .await, & &mut * !, == != && ||,
              struct literals (Self { f: e, f, .. }), closures (only as the role-link closure given
              to register_fn), format!("..{}..", e), vec![..], blocks
Values are typed (see KINDS); an operation is translated only if the table of the
receiver's type knows it.  Anything else raises Untranslatable: the function gets
a stub, `gen_enforcer2_translated := false`, and the reason is in a comment.

The Gallina variable `x` (`c` for the cached enforcer of clear_cache) is always
the current state of the object (`self`, or the local / parameter that holds
the enforcer).  A function leaves through `exit`: (x, outcome) for a `&mut self`
/ constructor returning Result, the outcome alone for `&self`.  Joins go through
InternalPrims.flow (Next / Exit), loops through RustVec.rs_for (LNext / LReturn)
or Enforcer2Rt.rs_for_each when the body cannot leave.
"""
import os
import re
import sys

HERE = os.path.dirname(os.path.abspath(__file__))
sys.path.insert(0, HERE)
import pins  # noqa: E402
import rs2coq as R  # noqa: E402

Untranslatable = R.Untranslatable
FEATURES = dict(R.FEATURES)
FEATURES.update({"runtime-tokio": True, "runtime-async-std": False, "glob": False, "ip": False})
EFILE = "src/enforcer.rs"
MFILE = "src/emitter.rs"
MACROS = "src/macros.rs"
CFILE = "src/cached_enforcer.rs"

# ---------------------------------------------------------------- lexer
TOK = re.compile(r"""\s*(?:(//[^\n]*)|(/\*.*?\*/)|r(\#*)"(.*?)"\3|("(?:[^"\\]|\\.)*")|('(?:[^'\\\n]|\\.)')|('[A-Za-z_]\w*)"""
                 r"""|(\d+)|(\$[A-Za-z_]\w*)|([A-Za-z_]\w*!?)|(::|->|=>|==|!=|&&|\|\||<=|>=|\.\.|[#{}()\[\];=!&.,<>?|*:+\-/@])|(\S))""",
                 re.S)


def lex(src):
    out = []
    i = 0
    while i < len(src):
        if src[i:].strip() == "":
            break
        m = TOK.match(src, i)
        if not m:
            raise Untranslatable("cannot tokenise at: %r" % src[i:i + 30])
        i = m.end()
        if m.group(1) is not None or m.group(2) is not None:
            continue
        if m.group(4) is not None:
            out.append(("str", m.group(4)))
        elif m.group(5) is not None:
            out.append(("str", pins.rust_unescape(m.group(5)[1:-1])))
        elif m.group(6) is not None:
            out.append(("char", pins.rust_unescape(m.group(6)[1:-1])))
        elif m.group(7) is not None:
            out.append(("life", m.group(7)))
        elif m.group(8) is not None:
            out.append(("int", m.group(8)))
        elif m.group(9) is not None:
            out.append(("mvar", m.group(9)))
        elif m.group(10) is not None:
            v = m.group(10)
            # `x!=y` is not a macro call
            if v.endswith("!") and src[i:i + 1] == "=":
                out.append(("id", v[:-1]))
                i -= 1
            else:
                out.append(("id", v))
        elif m.group(11) is not None:
            out.append(("op", m.group(11)))
        else:
            raise Untranslatable("unexpected character %r" % m.group(12))
    return out


KEYWORDS = ("let", "return", "else", "match", "while", "for", "loop", "mut", "fn", "async", "move", "ref", "in",
            "as", "if", "break", "continue", "impl", "pub", "use", "struct", "enum", "where", "dyn", "unsafe")


# ---------------------------------------------------------------- macros of src/macros.rs
def read_macro(name):
    """-> ([parameter names], [tokens of the transcriber]) of `macro_rules! name` with ONE rule whose
       parameters are `$x:ident` separated by commas"""
    src = pins.read(MACROS)
    m = re.search(r"macro_rules!\s*%s\s*\{" % re.escape(name), src or "")
    if not m:
        raise Untranslatable("macro %s!: no macro_rules! definition in %s" % (name, MACROS))
    body = pins.balanced(src, m.end() - 1)
    if body is None:
        raise Untranslatable("macro %s!: unbalanced definition" % name)
    toks = lex(body[1:-1])
    # ( $a:ident, $b:ident ) => { ... } [;]
    i = 0

    def eat(val):
        nonlocal i
        if i >= len(toks) or toks[i][1] != val:
            raise Untranslatable("macro %s!: expected %r in its definition" % (name, val))
        i += 1
    eat("(")
    params = []
    while toks[i] != ("op", ")"):
        if toks[i][0] != "mvar":
            raise Untranslatable("macro %s!: parameter pattern %r" % (name, toks[i][1]))
        p = toks[i][1]
        i += 1
        eat(":")
        if toks[i] != ("id", "ident"):
            raise Untranslatable("macro %s!: fragment specifier %s (only ident)" % (name, toks[i][1]))
        i += 1
        params.append(p)
        if toks[i] == ("op", ","):
            i += 1
    eat(")")
    eat("=>")
    if toks[i][1] not in ("{", "(", "["):
        raise Untranslatable("macro %s!: transcriber delimiter" % name)
    opener = toks[i][1]
    closer = {"{": "}", "(": ")", "[": "]"}[opener]
    depth, j = 0, i
    while j < len(toks):
        if toks[j] == ("op", opener):
            depth += 1
        elif toks[j] == ("op", closer):
            depth -= 1
            if depth == 0:
                break
        j += 1
    if depth != 0:
        raise Untranslatable("macro %s!: unbalanced transcriber" % name)
    trans = toks[i + 1:j]
    rest = toks[j + 1:]
    if rest and rest != [("op", ";")]:
        raise Untranslatable("macro %s!: more than one rule" % name)
    return params, trans


def expand_macro(name, arg_toks):
    params, trans = read_macro(name)
    args, cur = [], []
    for t in arg_toks:
        if t == ("op", ","):
            args.append(cur)
            cur = []
        else:
            cur.append(t)
    if cur:
        args.append(cur)
    if len(args) != len(params):
        raise Untranslatable("macro %s!: %d argument(s) for %d parameter(s)" % (name, len(args), len(params)))
    sub = {}
    for p, a in zip(params, args):
        if len(a) != 1 or a[0][0] != "id" or a[0][1] in KEYWORDS and a[0][1] != "self":
            raise Untranslatable("macro %s!: argument for %s is not an identifier" % (name, p))
        sub[p] = a[0]
    out = []
    for t in trans:
        if t[0] == "mvar":
            if t[1] not in sub:
                raise Untranslatable("macro %s!: unknown variable %s" % (name, t[1]))
            out.append(sub[t[1]])
        else:
            out.append(t)
    return out


# ---------------------------------------------------------------- parser
class Parser:
    def __init__(self, toks, features, dropped=None):
        self.t = toks
        self.i = 0
        self.features = features
        self.dropped = dropped if dropped is not None else []   # cfg attributes that compiled something out

    def peek(self, k=0):
        return self.t[self.i + k] if self.i + k < len(self.t) else ("eof", "")

    def at(self, val, k=0):
        tk = self.peek(k)
        return tk[0] in ("op", "id") and tk[1] == val

    def eat(self, val=None):
        tk = self.peek()
        if tk[0] == "eof":
            raise Untranslatable("unexpected end of the body" + (" (expected %r)" % val if val else ""))
        if val is not None and not (tk[0] in ("op", "id") and tk[1] == val):
            raise Untranslatable("expected %r, found %r" % (val, tk[1]))
        self.i += 1
        return tk

    def ident(self, what):
        kind, x = self.eat()
        if kind != "id" or x.endswith("!") or (x in KEYWORDS and x != "self"):
            raise Untranslatable("%s %r" % (what, x))
        return x

    # ---- attributes
    def attrs(self):
        """the attributes in front of a statement / field -> keep?"""
        keep = True
        while self.at("#"):
            start = self.i
            self.eat("#")
            self.eat("[")
            name = self.ident("attribute")
            if name == "cfg":
                self.eat("(")
                v = self.pred()
                if self.at(","):
                    self.eat()
                self.eat(")")
                self.eat("]")
                if not v:
                    self.dropped.append(" ".join(t[1] if t[0] != "str" else '"%s"' % t[1] for t in self.t[start:self.i]))
                keep = keep and v
            elif name in ("allow", "inline", "warn", "deny", "doc", "must_use"):
                depth = 1
                while depth:
                    tk = self.eat()
                    if tk == ("op", "["):
                        depth += 1
                    elif tk == ("op", "]"):
                        depth -= 1
            else:
                raise Untranslatable("attribute #[%s..]" % name)
        return keep

    def pred(self):
        kind, v = self.eat()
        if (kind, v) == ("id", "feature"):
            self.eat("=")
            k2, lit = self.eat()
            if k2 != "str":
                raise Untranslatable("cfg(feature = %s)" % lit)
            if lit not in self.features:
                raise Untranslatable("cfg on the unknown feature %r" % lit)
            return self.features[lit]
        if (kind, v) == ("id", "target_arch"):
            self.eat("=")
            k2, lit = self.eat()
            if lit != "wasm32":
                raise Untranslatable("cfg(target_arch = %r)" % lit)
            return False      # not wasm32
        if kind == "id" and v in ("any", "all", "not"):
            self.eat("(")
            vals = []
            while not self.at(")"):
                vals.append(self.pred())
                if self.at(","):
                    self.eat()
            self.eat(")")
            if v == "not":
                if len(vals) != 1:
                    raise Untranslatable("cfg(not(..)) with %d operands" % len(vals))
                return not vals[0]
            return any(vals) if v == "any" else all(vals)
        raise Untranslatable("cfg predicate %r" % v)

    # ---- types (skipped)
    def skip_type(self, stops):
        """skip a type up to (not including) a token of `stops` at depth 0"""
        depth = 0
        n = 0
        while True:
            tk = self.peek()
            if tk[0] == "eof":
                raise Untranslatable("unterminated type")
            if depth == 0 and tk[0] == "op" and tk[1] in stops:
                break
            if tk[0] == "op" and tk[1] in ("<", "(", "["):
                depth += 1
            elif tk[0] == "op" and tk[1] in (">", ")", "]"):
                depth -= 1
                if depth < 0:
                    break
            elif tk == ("op", "->"):
                pass
            self.eat()
            n += 1
        if n == 0:
            raise Untranslatable("empty type")

    # ---- patterns
    def pattern(self):
        if self.at("&"):
            self.eat()
            if self.at("mut"):
                self.eat()
            return ("pref", self.pattern())
        if self.at("("):
            self.eat()
            ps = []
            while not self.at(")"):
                ps.append(self.pattern())
                if self.at(","):
                    self.eat()
                elif not self.at(")"):
                    raise Untranslatable("tuple pattern near %r" % self.peek()[1])
            self.eat(")")
            return ps[0] if len(ps) == 1 else ("ptuple", ps)
        byref = False
        if self.at("ref"):
            self.eat()
            byref = True
        mut = False
        if self.at("mut"):
            self.eat()
            mut = True
        x = self.ident("pattern")
        if x == "_":
            return ("pwild",)
        segs = [x]
        while self.at("::"):
            self.eat()
            segs.append(self.ident("pattern path"))
        name = "::".join(segs)
        if self.at("("):
            self.eat()
            ps = []
            while not self.at(")"):
                ps.append(self.pattern())
                if self.at(","):
                    self.eat()
            self.eat(")")
            return ("pctor", name, ps)
        if len(segs) > 1 or name in ("None",):
            return ("pctor", name, [])
        return ("pv", name, mut, byref)

    # ---- expressions
    def expr(self, nostruct=False):
        e = self.and_(nostruct)
        while self.at("||"):
            self.eat()
            e = ("bin", "||", e, self.and_(nostruct))
        return e

    def and_(self, nostruct):
        e = self.cmp(nostruct)
        while self.at("&&"):
            self.eat()
            e = ("bin", "&&", e, self.cmp(nostruct))
        return e

    def cmp(self, nostruct):
        a = self.unary(nostruct)
        if self.peek()[0] == "op" and self.peek()[1] in ("==", "!=", "<", ">", "<=", ">="):
            op = self.eat()[1]
            return ("bin", op, a, self.unary(nostruct))
        return a

    def unary(self, nostruct):
        if self.at("!"):
            self.eat()
            return ("not", self.unary(nostruct))
        if self.at("&") or self.at("&&"):
            n = 2 if self.at("&&") else 1
            self.eat()
            mut = False
            if self.at("mut"):
                self.eat()
                mut = True
            e = ("ref", self.unary(nostruct), mut)
            return ("ref", e, False) if n == 2 else e
        if self.at("*"):
            self.eat()
            return ("deref", self.unary(nostruct))
        if self.at("move") or self.at("|") or self.at("||"):
            return self.closure()
        return self.postfix(nostruct)

    def closure(self):
        move = False
        if self.at("move"):
            self.eat()
            move = True
        params = []
        if self.at("||"):
            self.eat()
        else:
            self.eat("|")
            while not self.at("|"):
                p = self.pattern()
                if p[0] != "pv":
                    raise Untranslatable("closure parameter pattern")
                ty = None
                if self.at(":"):
                    self.eat()
                    a = self.i
                    self.skip_type((",", "|"))
                    ty = "".join(t[1] for t in self.t[a:self.i])
                params.append((p[1], ty))
                if self.at(","):
                    self.eat()
            self.eat("|")
        body = self.expr()
        return ("closure", params, body, move)

    def args(self, closer=")"):
        out = []
        while not self.at(closer):
            out.append(self.expr())
            if self.at(","):
                self.eat()
            elif not self.at(closer):
                raise Untranslatable("argument list near %r" % self.peek()[1])
        self.eat(closer)
        return out

    def postfix(self, nostruct):
        e = self.primary(nostruct)
        while True:
            if self.at("."):
                self.eat()
                kind, name = self.eat()
                if kind == "int":
                    e = ("tupidx", e, int(name))
                    continue
                if kind != "id" or name.endswith("!") or (name in KEYWORDS and name != "await"):
                    raise Untranslatable("method or field name %r" % name)
                if name == "await":
                    e = ("await", e)
                elif self.at("::"):
                    raise Untranslatable("turbofish on .%s" % name)
                elif self.at("("):
                    self.eat()
                    e = ("mcall", e, name, self.args())
                else:
                    e = ("field", e, name)
            elif self.at("?"):
                self.eat()
                e = ("try", e)
            elif self.at("(") and e[0] in ("var",):
                self.eat()
                e = ("call", e, self.args())
            else:
                return e

    def macro_tokens(self):
        opener = self.eat()[1]
        closer = {"(": ")", "[": "]", "{": "}"}.get(opener)
        if closer is None:
            raise Untranslatable("macro delimiter %r" % opener)
        depth, out = 1, []
        while True:
            tk = self.eat()
            if tk[0] == "op" and tk[1] in ("(", "[", "{"):
                depth += 1
            elif tk[0] == "op" and tk[1] in (")", "]", "}"):
                depth -= 1
                if depth == 0:
                    return out
            out.append(tk)

    def macro(self, name):
        toks = self.macro_tokens()
        sub = Parser(toks, self.features, self.dropped)
        if name == "format!":
            k, fmt = sub.eat()
            if k != "str":
                raise Untranslatable("format! without a literal format string")
            args = []
            while sub.at(","):
                sub.eat()
                if sub.peek()[0] == "eof":
                    break
                args.append(sub.expr())
            if sub.peek()[0] != "eof":
                raise Untranslatable("format! arguments")
            return ("format", fmt, args)
        if name == "vec!":
            return ("vec", sub.args_eof())
        if name in ("assert!", "debug_assert!", "panic!", "println!", "write!", "unreachable!", "todo!"):
            raise Untranslatable("macro %s" % name)
        body = expand_macro(name[:-1], toks)
        p2 = Parser(body, self.features, self.dropped)
        e = p2.expr()
        if p2.peek()[0] != "eof":
            raise Untranslatable("macro %s: the expansion is not one expression" % name)
        return ("macroexp", name, e)

    def args_eof(self):
        out = []
        while self.peek()[0] != "eof":
            out.append(self.expr())
            if self.at(","):
                self.eat()
            elif self.peek()[0] != "eof":
                raise Untranslatable("macro arguments near %r" % self.peek()[1])
        return out

    def primary(self, nostruct):
        kind, v = self.peek()
        if kind == "str":
            self.eat()
            return ("str", v)
        if kind == "char":
            self.eat()
            return ("char", v)
        if kind == "int":
            self.eat()
            return ("int", int(v))
        if kind == "op" and v == "(":
            self.eat()
            es, trailing = [], False
            while not self.at(")"):
                es.append(self.expr())
                trailing = False
                if self.at(","):
                    self.eat()
                    trailing = True
                elif not self.at(")"):
                    raise Untranslatable("parenthesised expression near %r" % self.peek()[1])
            self.eat(")")
            if len(es) == 1 and not trailing:
                return es[0]
            return ("tuple", es)
        if kind == "op" and v == "{":
            return ("block", self.block())
        if kind == "id":
            if v == "if":
                return self.if_()
            if v == "match":
                return self.match_()
            if v.endswith("!"):
                self.eat()
                return self.macro(v)
            if v in ("true", "false"):
                self.eat()
                return ("bool", v)
            if v in KEYWORDS and v != "self":
                raise Untranslatable("unsupported %r in an expression" % v)
            self.eat()
            segs = [v]
            while self.at("::"):
                self.eat()
                if self.at("<"):
                    raise Untranslatable("generic arguments in a path")
                segs.append(self.ident("path segment"))
            name = "::".join(segs)
            if self.at("{") and not nostruct and (name == "Self" or name[0].isupper()):
                return self.struct_lit(name)
            if self.at("(") and (len(segs) > 1 or name in ("Ok", "Err", "Some")):
                self.eat()
                return ("path", name, self.args())
            if len(segs) > 1 or name in ("None",) or (name[0].isupper() and name != "Self"):
                return ("path", name, None)
            return ("var", name)
        raise Untranslatable("unexpected token %r" % (v or "end of body"))

    def struct_lit(self, name):
        self.eat("{")
        fields = []
        while not self.at("}"):
            keep = self.attrs()
            f = self.ident("field name")
            if self.at(":"):
                self.eat()
                e = self.expr()
            else:
                e = ("var", f)
            if keep:
                fields.append((f, e))
            if self.at(","):
                self.eat()
            elif self.at(".."):
                raise Untranslatable("struct update syntax")
            elif not self.at("}"):
                raise Untranslatable("struct literal near %r" % self.peek()[1])
        self.eat("}")
        return ("struct", name, fields)

    def if_(self):
        self.eat("if")
        if self.at("let"):
            self.eat()
            pat = self.pattern()
            self.eat("=")
            e = self.expr(nostruct=True)
            th = self.block()
            return ("iflet", pat, e, th, self.else_())
        c = self.expr(nostruct=True)
        th = self.block()
        return ("if", c, th, self.else_())

    def else_(self):
        if not self.at("else"):
            return None
        self.eat()
        if self.at("if"):
            return ([], self.if_())
        return self.block()

    def match_(self):
        self.eat("match")
        e = self.expr(nostruct=True)
        self.eat("{")
        arms = []
        while not self.at("}"):
            keep = self.attrs()
            pat = self.pattern()
            if self.at("|"):
                raise Untranslatable("or-pattern in a match arm")
            if self.at("if"):
                raise Untranslatable("guard in a match arm")
            self.eat("=>")
            body = self.expr()
            if self.at(","):
                self.eat()
            if keep:
                arms.append((pat, body))
        self.eat("}")
        return ("match", e, arms)

    # ---- statements
    def block(self):
        self.eat("{")
        b = self.seq()
        self.eat("}")
        return b

    def seq(self):
        stmts, final = [], None
        while not self.at("}") and self.peek()[0] != "eof":
            if final is not None:
                raise Untranslatable("statement after the value of a block")
            keep = self.attrs()
            if not keep:
                self.skip_stmt()      # compiled out: not parsed (it may be outside the subset)
                continue
            st, is_final = self.stmt()
            if is_final:
                final = st
            else:
                stmts.append(st)
        return (stmts, final)

    def skip_stmt(self):
        """skip one statement / block without parsing it"""
        blocky = self.peek()[1] in ("{", "if", "match", "for", "while", "loop", "unsafe")
        depth = 0
        while True:
            tk = self.peek()
            if tk[0] == "eof":
                return
            if tk[0] == "op" and tk[1] in ("(", "[", "{"):
                depth += 1
            elif tk[0] == "op" and tk[1] in (")", "]", "}"):
                if depth == 0:
                    return            # the end of the enclosing block
                depth -= 1
                if depth == 0 and tk[1] == "}" and blocky:
                    self.eat()
                    if self.at("else"):
                        continue
                    if self.at(";"):
                        self.eat()
                    return
            elif tk == ("op", ";") and depth == 0:
                self.eat()
                return
            self.eat()

    def stmt(self):
        """-> (node, is it the value of the block)"""
        if self.at(";"):
            self.eat()
            return ("expr", ("tuple", [])), False
        if self.at("let"):
            self.eat()
            pat = self.pattern()
            if self.at(":"):
                self.eat()
                self.skip_type(("=", ";"))
            self.eat("=")
            e = self.expr()
            self.eat(";")
            return ("let", pat, e), False
        if self.at("return"):
            self.eat()
            e = None if self.at(";") or self.at("}") else self.expr()
            if self.at(";"):
                self.eat()
            return ("ret", e), False
        if self.at("for"):
            self.eat()
            pat = self.pattern()
            self.eat("in")
            e = self.expr(nostruct=True)
            body = self.block()
            return ("for", pat, e, body), False
        if self.at("while") or self.at("loop") or self.at("break") or self.at("continue"):
            raise Untranslatable("%s statement" % self.peek()[1])
        e = self.expr()
        if self.at("="):
            self.eat()
            rhs = self.expr()
            self.eat(";")
            return ("assign", e, rhs), False
        if self.at(";"):
            self.eat()
            return ("expr", e), False
        if e[0] in ("if", "iflet", "match", "block", "macroexp") and not self.at("}") and self.peek()[0] != "eof":
            return ("expr", e), False
        return e, True


def parse_block(text, dropped):
    p = Parser(lex(text.strip()[1:-1]), FEATURES, dropped)
    blk = p.seq()
    if p.peek()[0] != "eof":
        raise Untranslatable("trailing tokens after the body")
    return blk


# ---------------------------------------------------------------- items
def split_top(s, sep=","):
    out, depth, cur = [], 0, ""
    i = 0
    while i < len(s):
        ch = s[i]
        if ch in "<([{":
            depth += 1
        elif ch in ")]}":
            depth -= 1
        elif ch == ">" and not (i > 0 and s[i - 1] == "-"):
            depth -= 1
        if ch == sep and depth == 0:
            out.append(cur)
            cur = ""
        else:
            cur += ch
        i += 1
    if cur.strip():
        out.append(cur)
    return [x.strip() for x in out if x.strip()]


def skip_balanced(src, i, opener, closer):
    """src[i] == opener -> index after the matching closer (`->` does not close `<`)"""
    depth = 0
    j = i
    while j < len(src):
        c = src[j]
        if c == opener:
            depth += 1
        elif c == closer and not (closer == ">" and src[j - 1] == "-"):
            depth -= 1
            if depth == 0:
                return j + 1
        j += 1
    raise Untranslatable("unbalanced %s%s in a signature" % (opener, closer))


def region_of(src, header_re):
    """the text of the `impl .. { }` block whose header matches (None = whole file) -> (text, found)"""
    if header_re is None:
        cut = src.find("#[cfg(test)]")
        return (src if cut < 0 else src[:cut])
    m = re.search(header_re, src)
    if not m:
        raise Untranslatable("`%s` not found" % header_re.replace(r"\s+", " ").replace("\\b", "").replace("\\", ""))
    i = src.find("{", m.end())
    body = pins.balanced(src, i)
    if body is None:
        raise Untranslatable("unbalanced impl block")
    return body


def find_fn(region, name):
    """-> dict(asyn, generics, recv, params, ret, body) of the DEFINITION of fn `name` in the region whose
       cfg attributes hold for FEATURES"""
    hdr = r"((?:#\[[^\]]*\]\s*)*)(?:pub(?:\([^)]*\))?\s+)?(async\s+)?fn\s+%s\b" % re.escape(name)
    for m in re.finditer(hdr, region):
        keep = True
        for attr in re.findall(r"#\[[^\]]*\]", m.group(1)):
            if re.match(r"#\[\s*cfg\b", attr):
                p = Parser(lex(attr), FEATURES)
                keep = p.attrs() and keep
        j = m.end()
        while region[j].isspace():
            j += 1
        generics = {}
        if region[j] == "<":
            k = skip_balanced(region, j, "<", ">")
            for g in split_top(region[j + 1:k - 1]):
                gm = re.match(r"(\w+)\s*:\s*(.+)$", g, re.S)
                if gm:
                    generics[gm.group(1)] = [re.sub(r"\s+", "", b) for b in split_top(gm.group(2), "+")]
                elif re.match(r"'\w+$", g):
                    pass
                elif re.match(r"\w+$", g):
                    generics[g] = []
                else:
                    raise Untranslatable("%s: generic parameter %r" % (name, g))
            j = k
            while region[j].isspace():
                j += 1
        if region[j] != "(":
            continue
        k = skip_balanced(region, j, "(", ")")
        plist = split_top(region[j + 1:k - 1])
        j = k
        brace = region.find("{", j)
        semi = region.find(";", j)
        if brace < 0 or (0 <= semi < brace):
            continue          # a declaration (trait method without body)
        tail = region[j:brace]
        ret = ""
        rm = re.match(r"\s*->\s*(.+?)\s*(?:\bwhere\b.*)?$", tail, re.S)
        if rm:
            ret = re.sub(r"\s+", "", rm.group(1))
        wm = re.search(r"\bwhere\b(.*)$", tail, re.S)
        if wm:
            for g in split_top(wm.group(1)):
                gm = re.match(r"(\w+)\s*:\s*(.+)$", g, re.S)
                if gm and gm.group(1) in generics:
                    generics[gm.group(1)] += [re.sub(r"\s+", "", b) for b in split_top(gm.group(2), "+")]
        body = pins.balanced(region, brace)
        if body is None:
            raise Untranslatable("%s: body not found" % name)
        if not keep:
            raise Untranslatable("%s: compiled out by its cfg attributes" % name)
        recv = None
        params = []
        for idx, prm in enumerate(plist):
            flat = re.sub(r"\s+", "", prm)
            if idx == 0 and flat in ("&mutself", "&self", "self", "mutself"):
                recv = flat
                continue
            pm = re.match(r"(?:mut\s+)?(\w+)\s*:\s*(.+)$", prm, re.S)
            if not pm:
                raise Untranslatable("%s: parameter %r" % (name, prm))
            params.append((pm.group(1), re.sub(r"\s+", "", pm.group(2))))
        return {"asyn": bool(m.group(2)), "generics": generics, "recv": recv, "params": params, "ret": ret, "body": body}
    raise Untranslatable("%s: definition not found" % name)


# ---------------------------------------------------------------- values
class V:
    """a typed value: kind (see below), Gallina term, extra information
       kinds: bool text nat char unit evkind evdata callback errc modeldef modelmap amap assertion adapter
              fmap opfun effector rmval handle engine events cbvec watcher values ctx module cache obj
              ("option", K) ("pair", K1, K2) ("list", K) ("tuple", [V..]) ("res", K) lerr
              ("convsrc", K) ("conv", K) ("efn", n) ("matches", c) ("entry", place, key) hm_new none"""

    def __init__(self, kind, term, **extra):
        self.kind = kind
        self.term = term
        self.extra = extra


def kname(k):
    if isinstance(k, str):
        return k
    if k[0] == "tuple":
        return "(" + ", ".join(kname(v.kind) for v in k[1]) + ")"
    return "%s<%s>" % (k[0], ", ".join(kname(x) if not isinstance(x, (int, type(None))) else str(x) for x in k[1:]))


COQ_TY = {"bool": "bool", "text": "text", "nat": "nat", "evkind": "evkind", "evdata": "evdata", "callback": "callback",
          "modeldef": "modeldef", "adapter": "adapter", "values": "list value", "ctx": "cgctx"}

# Rust parameter type -> kind
PARAM_KINDS = {"Event": "evkind", "EventData": "evdata", "fn(&mutSelf,EventData)": "callback", "&str": "text",
               "EnforceContext": "ctx", "bool": "bool"}
BOUND_KINDS = {"TryIntoModel": "modeldef", "TryIntoAdapter": "adapter", "EnforceArgs": "values"}
CONVERSIONS = {"try_into_model": ("modeldef", True), "try_into_adapter": ("adapter", True), "try_into_vec": ("values", False)}
ERR_CLASS = {"ModelError": "EModel", "PolicyError": "EPolicy", "RbacError": "ERbac", "RequestError": "ERequest",
             "AdapterError": "EAdapter"}
EVENT_KINDS = {"Event::PolicyChange": "KPolicyChange", "Event::ClearCache": "KClearCache"}
IDENTITY_METHODS = ("clone", "to_owned", "to_string", "into", "iter", "into_iter", "iter_mut", "as_str", "to_vec",
                    "as_ref", "as_mut", "read", "write", "borrow", "borrow_mut")
IDENTITY_CTORS = ("Box::new", "Arc::new", "RwLock::new", "String::from")

# struct Enforcer / struct EnforceContext: Rust field -> (record field, kind, setter)
RENF_FIELDS = [("model", "r_model", "modeldef", None), ("adapter", "r_adapter", "adapter", None),
               ("fm", "r_fm", "fmap", "rset_fm"), ("eft", "r_eft", "effector", None), ("rm", "r_rm", "rmval", None),
               ("enabled", "r_enabled", "bool", None), ("auto_save", "r_auto_save", "bool", None),
               ("auto_build_role_links", "r_auto_build", "bool", None),
               ("auto_notify_watcher", "r_auto_notify", "bool", None),
               ("watcher", "r_watcher", ("option", "watcher"), "rset_watcher"),
               ("events", "r_events", "events", "rset_events"), ("engine", "r_engine", "engine", "rset_engine")]
CTX_FIELDS = [("r_type", "x_r", "text", None), ("p_type", "x_p", "text", None), ("e_type", "x_e", "text", None),
              ("m_type", "x_m", "text", None)]
CSTATE_FIELDS = [("cache", "c_cache", "cache", None)]
STRUCTS = {"Enforcer": RENF_FIELDS, "EnforceContext": CTX_FIELDS, "CachedEnforcer": CSTATE_FIELDS}
OBJ_VAR = {"Enforcer": "x", "CachedEnforcer": "c"}
OBJ_TY = {"Enforcer": "renf", "CachedEnforcer": "cstate"}

# fn items that are used as values of type fn(&mut Enforcer, EventData)
CALLBACK_CTORS = {"notify_logger_and_watcher": "CbNotify"}


def unify(v, want, what):
    """a value where the kind `want` is expected (None / HashMap::new() / Vec::new() take the expected type)"""
    if v.kind == want:
        return v.term
    if v.kind == "none" and isinstance(want, tuple) and want[0] == "option":
        return "None"
    if v.kind == "hm_new" and want in ("events",):
        return "hm_new"
    if v.kind == "vec_new" and (want == "cbvec" or (isinstance(want, tuple) and want[0] == "list")):
        return "rs_vec_new"
    raise Untranslatable("%s: a %s where a %s is expected" % (what, kname(v.kind), kname(want)))


class Exits(Exception):
    pass


# ---------------------------------------------------------------- emission
class Em:
    def __init__(self, tr, spec, sig):
        self.tr = tr                    # the Translator (siblings already translated, accessors)
        self.spec = spec
        self.fmode = sig["fmode"]       # state | state_res | res | value
        self.retkind = sig["retkind"]   # unit | bool | obj | ctx
        self.selfty = spec["selfty"]    # the struct `Self` names in this item
        self.objty = None               # the struct whose value the state variable holds (None: no object yet)
        self.n = 0
        self.ctx = ["fn"]
        self.writes = set()
        self.exits = False
        self.needs_ptab = False
        self.mut = set()

    # ---- small helpers
    @property
    def sv(self):
        if self.objty is None:
            raise Untranslatable("the enforcer does not exist yet at this point")
        return OBJ_VAR[self.objty]

    def fresh(self, base):
        self.n += 1
        return "%s_%d" % (base, self.n)

    def probe(self, f):
        """run an emission only to learn what it writes and whether it may leave the function"""
        saved = (self.n, self.writes, self.exits, self.objty, set(self.mut), self.needs_ptab, list(self.ctx))
        self.writes, self.exits = set(), False
        try:
            f()
            return set(self.writes), self.exits
        finally:
            self.n, self.writes, self.exits, self.objty, self.mut, self.needs_ptab, self.ctx = saved

    def exit(self, o):
        """leave the function with the outcome o"""
        self.exits = True
        c = self.ctx[-1]
        if self.fmode == "state_res":
            pair = "(%s, %s)" % (self.sv, o)
            return {"fn": pair, "join": "(%s, Exit %s)" % (self.sv, o), "loop": "LReturn %s" % pair}[c]
        if self.fmode == "res":
            return {"fn": o, "join": "(Exit %s)" % o, "loop": "(LReturn %s)" % o}[c]
        raise Untranslatable("a function without a Result leaves early")

    def leave_with(self, r):
        """hand on what an inner loop returned (r : the return type of the function)"""
        self.exits = True
        c = self.ctx[-1]
        if self.fmode == "state_res":
            return {"fn": r, "join": "(fst %s, Exit (snd %s))" % (r, r), "loop": "LReturn %s" % r}[c]
        if self.fmode == "res":
            return {"fn": r, "join": "(Exit %s)" % r, "loop": "(LReturn %s)" % r}[c]
        raise Untranslatable("a function without a Result leaves early")

    # ---- places
    def place_of(self, e, env):
        """-> ("local", name) | ("field", rust field) | ("borrow", name) | None"""
        while e[0] in ("ref", "deref"):
            e = e[1]
        if e[0] == "var" and e[1] in env:
            v = env[e[1]]
            if v.kind == "obj":
                return None
            if "origin" in v.extra:
                return ("borrow", e[1])
            return ("local", e[1])
        if e[0] == "field" and self.is_obj(e[1], env):
            return ("field", e[2])
        if e[0] == "mcall" and self.is_obj(e[1], env) and not e[3]:
            f = self.tr.accessor(self.objty, e[2])
            if f is not None and f[1] == "plain":
                return ("field", f[0])
        return None

    def is_obj(self, e, env):
        while e[0] in ("ref", "deref"):
            e = e[1]
        return e[0] == "var" and e[1] in env and env[e[1]].kind == "obj"

    def field_info(self, f):
        for rf, cf, kind, setter in STRUCTS[self.objty]:
            if rf == f:
                return cf, kind, setter
        raise Untranslatable("field .%s of %s" % (f, self.objty))

    def read_place(self, pl, env):
        if pl[0] in ("local", "borrow"):
            return env[pl[1]]
        cf, kind, _ = self.field_info(pl[1])
        return V(kind, "(%s %s)" % (cf, self.sv))

    def write_place(self, pl, new, env, k):
        """assign the term `new` to the place, then continue with k(env)"""
        if pl[0] == "local":
            name = pl[1]
            if name not in self.mut:
                raise Untranslatable("%s is modified but not declared `let mut`" % name)
            self.writes.add(name)
            return "let %s := %s in\n%s" % (env[name].term, new, k(env))
        if pl[0] == "borrow":
            v = env[pl[1]]
            self.writes.add(pl[1])
            origin, back = v.extra["origin"], v.extra["back"]
            return "let %s := %s in\n%s" % (v.term, new, self.write_place(origin, back(self, v.term), env, k))
        cf, kind, setter = self.field_info(pl[1])
        if kind == "cache":
            raise Untranslatable("assignment to the cache")
        if setter is None:
            raise Untranslatable("assignment to the field %s" % pl[1])
        self.writes.add(self.sv)
        return "let %s := %s %s (%s) in\n%s" % (self.sv, setter, self.sv, new, k(env))

    # ---- expressions
    def pure(self, e, env, what):
        box = []

        def k(v):
            box.append(v)
            return "<pure>"
        n0, w0, x0 = self.n, set(self.writes), self.exits
        t = self.ev(e, env, k)
        if t != "<pure>" or len(box) != 1 or self.writes != w0:
            raise Untranslatable("%s has an effect" % what)
        return box[0]

    def pure_list(self, es, env, what):
        return [self.pure(a, env, what) for a in es]

    def ev(self, e, env, k):
        kind = e[0]
        if kind == "str":
            return k(V("text", R.coq_text(e[1])))
        if kind == "char":
            return k(V("char", R.coq_char(e[1])))
        if kind == "int":
            return k(V("nat", str(e[1])))
        if kind == "bool":
            return k(V("bool", e[1]))
        if kind == "tuple":
            if not e[1]:
                return k(V("unit", "tt"))
            vs = self.pure_list(e[1], env, "component of a tuple")
            return k(V(("tuple", vs), "(%s)" % ", ".join(v.term for v in vs)))
        if kind == "var":
            if e[1] in env:
                return k(env[e[1]])
            if e[1] in CALLBACK_CTORS and self.tr.is_callback_item(e[1]):
                return k(V("callback", CALLBACK_CTORS[e[1]]))
            raise Untranslatable("identifier " + e[1])
        if kind in ("ref", "deref"):
            return self.ev(e[1], env, k)
        if kind == "not":
            def knot(v):
                if v.kind != "bool":
                    raise Untranslatable("! on a " + kname(v.kind))
                return k(V("bool", "(negb %s)" % v.term))
            return self.ev(e[1], env, knot)
        if kind == "bin":
            return self.ev_bin(e, env, k)
        if kind == "field":
            return self.ev_field(e, env, k)
        if kind == "tupidx":
            def kt(v):
                if not (isinstance(v.kind, tuple) and v.kind[0] == "tuple") or e[2] >= len(v.kind[1]):
                    raise Untranslatable(".%d on a %s" % (e[2], kname(v.kind)))
                return k(v.kind[1][e[2]])
            return self.ev(e[1], env, kt)
        if kind == "path":
            return self.ev_path(e, env, k)
        if kind == "struct":
            return self.ev_struct(e, env, k)
        if kind == "format":
            return self.ev_format(e, env, k)
        if kind == "vec":
            vs = self.pure_list(e[1], env, "element of vec!")
            if not vs:
                return k(V("vec_new", "rs_vec_new"))
            if all(v.kind == "callback" for v in vs):
                return k(V("cbvec", "[%s]" % "; ".join(v.term for v in vs)))
            raise Untranslatable("vec! of %s" % kname(vs[0].kind))
        if kind == "closure":
            return self.ev_closure(e, env, k)
        if kind == "await":
            if e[1][0] not in ("mcall", "path"):
                raise Untranslatable(".await on something that is not a call")
            return self.ev_call(e[1], True, env, k)
        if kind in ("mcall", "call"):
            return self.ev_call(e, False, env, k)
        if kind == "try":
            return self.ev(e[1], env, lambda v: self.consume_try(v, env, k))
        if kind == "block":
            stmts, final = e[1]
            if final is None:
                raise Untranslatable("block expression without a value")
            return self.run(stmts, dict(env), lambda env2: self.ev(final, env2, k))
        if kind == "macroexp":
            return self.ev(e[2], env, k)
        if kind == "if":
            return self.ev_if_value(e, env, k)
        raise Untranslatable("expression " + kind)

    def ev_if_value(self, e, env, k):
        c = self.pure(e[1], env, "condition")
        if c.kind != "bool" or e[3] is None:
            raise Untranslatable("if expression")

        def val(blk):
            if blk[0] or blk[1] is None:
                raise Untranslatable("if expression whose branch has statements")
            return self.pure(blk[1], env, "branch of an if expression")
        a, b = val(e[2]), val(e[3])
        if a.kind != b.kind or not isinstance(a.kind, str):
            raise Untranslatable("if expression of %s / %s" % (kname(a.kind), kname(b.kind)))
        return k(V(a.kind, "(if %s then %s else %s)" % (c.term, a.term, b.term)))

    def ev_bin(self, e, env, k):
        op = e[1]
        a = self.pure(e[2], env, "operand of " + op)
        b = self.pure(e[3], env, "operand of " + op)
        if op in ("&&", "||"):
            if a.kind != "bool" or b.kind != "bool":
                raise Untranslatable("%s on %s, %s" % (op, kname(a.kind), kname(b.kind)))
            return k(V("bool", "(%s %s %s)" % (a.term, op, b.term)))
        if a.kind != b.kind:
            raise Untranslatable("comparison of %s with %s" % (kname(a.kind), kname(b.kind)))
        eqs = {"text": "rs_eq", "nat": "Nat.eqb", "bool": "Bool.eqb", "evkind": "evkind_eqb"}
        if op in ("==", "!="):
            if a.kind not in eqs:
                raise Untranslatable("== on " + kname(a.kind))
            c = "(%s %s %s)" % (eqs[a.kind], a.term, b.term)
            return k(V("bool", c if op == "==" else "(negb %s)" % c))
        if a.kind == "nat":
            t = {"<": "(Nat.ltb %s %s)", "<=": "(Nat.leb %s %s)", ">": "(Nat.ltb %s %s)", ">=": "(Nat.leb %s %s)"}[op]
            x, y = (a.term, b.term) if op in ("<", "<=") else (b.term, a.term)
            return k(V("bool", t % (x, y)))
        raise Untranslatable("%s on %s" % (op, kname(a.kind)))

    def ev_field(self, e, env, k):
        if self.is_obj(e[1], env):
            return k(self.read_place(("field", e[2]), env))

        def kf(v):
            f = e[2]
            if v.kind == "assertion" and f in ("value", "key"):
                if f == "value":
                    return k(V("text", "(a_value %s)" % v.term))
                raise Untranslatable("assertion.key (the model keeps the key in the map only)")
            if v.kind == "ctx":
                for rf, cf, kind, _ in CTX_FIELDS:
                    if rf == f:
                        return k(V(kind, "(%s %s)" % (cf, v.term)))
            if v.kind == "tuple" or (isinstance(v.kind, tuple) and v.kind[0] == "tuple"):
                raise Untranslatable("field of a tuple")
            raise Untranslatable("field .%s of a %s" % (f, kname(v.kind)))
        return self.ev(e[1], env, kf)

    def ev_path(self, e, env, k):
        name, args = e[1], e[2]
        if name in EVENT_KINDS and args is None:
            return k(V("evkind", EVENT_KINDS[name]))
        if name == "None" and args is None:
            return k(V("none", "None"))
        if name == "DefaultEffector" and args is None:
            return k(V("effector", "default_effector"))
        if name == "CASBIN_PACKAGE" and args is None:
            return k(V("package", "casbin_package"))
        if name in ("Vec::new", "Vec::default") and args is None:
            return k(V("vec_new_fn", "rs_vec_new"))       # the fn item, as the argument of or_insert_with
        if args is None:
            raise Untranslatable("path " + name)
        if name in IDENTITY_CTORS and len(args) == 1:
            return self.ev(args[0], env, k)
        if name == "Some" and len(args) == 1:
            v = self.pure(args[0], env, "operand of Some")
            return k(V(("option", v.kind), "(Some %s)" % v.term, **v.extra))
        if name == "Ok" and len(args) == 1:
            v = self.pure(args[0], env, "operand of Ok")
            if v.kind in ("unit", "obj"):
                return k(V(("res", v.kind), "(Ok true)"))     # Ok(()) / Ok(e): the model's steps answer Ok true
            if v.kind == "bool":
                return k(V(("res", "bool"), "(Ok %s)" % v.term))
            raise Untranslatable("Ok of a " + kname(v.kind))
        if name == "Err" and len(args) == 1:
            v = self.pure(args[0], env, "operand of Err")
            if v.kind != "errc":
                raise Untranslatable("Err of a " + kname(v.kind))
            return k(V(("res", None), "(Err %s)" % v.term))
        segs = name.split("::")
        if len(segs) == 2 and segs[0] in ERR_CLASS:
            self.pure_list(args, env, "payload of an error")      # the payload is not modelled, but must be in the subset
            return k(V("errc", ERR_CLASS[segs[0]]))
        if name == "Arc::clone" and len(args) == 1:
            pl = self.place_of(args[0], env)
            if pl == ("field", "rm") and self.objty == "Enforcer":
                return k(V("handle", "rm_handle_cur", cur=True))          # the enforcer's current manager
            v = self.pure(args[0], env, "operand of Arc::clone")
            return k(v)
        if name == "FunctionMap::default" and not args:
            return k(V("fmap", "fm_default"))
        if name == "DefaultRoleManager::new" and len(args) == 1:
            v = self.pure(args[0], env, "hierarchy bound")
            if v.kind != "nat":
                raise Untranslatable("DefaultRoleManager::new(%s)" % kname(v.kind))
            return k(V("rmval", "(rm_new %s)" % v.term))
        if name == "Engine::new_raw" and not args:
            return k(V("engine", "eng_new_raw"))
        if name in ("HashMap::new", "HashMap::default") and not args:
            return k(V("hm_new", "hm_new"))
        if name in ("Vec::new", "Vec::default") and not args:
            return k(V("vec_new", "rs_vec_new"))
        if name == "EnforceContext::new" or (name == "Self::new" and self.selfty == "EnforceContext"):
            return self.call_sibling(("EnforceContext", "new"), None, args, False, env, k)
        if name == "Self::register_function" and self.selfty == "Enforcer" and len(args) == 3:
            # fn register_function(engine: &mut Engine, key: &str, f: OperatorFunction): Enforcer2Rt.eng_register_function,
            # accepted once its body has been read
            why = self.tr.check_register_function()
            if why is not None:
                raise Untranslatable("Enforcer::register_function is not the plain dispatch on the arity: " + why)
            pl = self.place_of(args[0], env)
            if pl is None or args[0][0] != "ref" or not args[0][2]:
                raise Untranslatable("Self::register_function: the engine is not passed as `&mut <place>`")
            cur = self.read_place(pl, env)
            key = self.pure(args[1], env, "function name")
            f = self.pure(args[2], env, "function")
            if cur.kind != "engine" or key.kind != "text" or f.kind != "opfun":
                raise Untranslatable("Self::register_function(%s, %s, %s)" % (kname(cur.kind), kname(key.kind), kname(f.kind)))
            return self.write_place(pl, "eng_register_function %s %s %s" % (cur.term, key.term, f.term), env,
                                    lambda env2: k(V("unit", "tt")))
        if segs[0] == "Self" and len(segs) == 2:
            return self.call_sibling((self.selfty, segs[1]), None, args, False, env, k)
        raise Untranslatable("call of " + name)

    def ev_struct(self, e, env, k):
        name = self.selfty if e[1] == "Self" else e[1]
        if name not in ("Enforcer", "EnforceContext"):
            raise Untranslatable("struct literal " + e[1])
        table = STRUCTS[name]
        given = {}
        for f, ex in e[2]:
            if f in given:
                raise Untranslatable("field %s given twice" % f)
            given[f] = self.pure(ex, env, "field " + f)
        parts = []
        for rf, cf, kind, _ in table:
            if rf not in given:
                raise Untranslatable("%s { .. } without the field %s" % (e[1], rf))
            parts.append("%s := %s" % (cf, unify(given.pop(rf), kind, "field " + rf)))
        if given:
            raise Untranslatable("%s { .. } with the unknown field %s" % (e[1], sorted(given)[0]))
        term = "{| %s |}" % ";\n".join(parts)
        return k(V("newobj" if name == "Enforcer" else "ctx", term))

    def ev_format(self, e, env, k):
        fmt, args = e[1], e[2]
        pieces = fmt.split("{}")
        if "{" in "".join(pieces).replace("{{", "").replace("}}", "") or len(pieces) != len(args) + 1:
            raise Untranslatable("format! string %r" % fmt)
        vs = self.pure_list(args, env, "argument of format!")
        if any(v.kind != "text" for v in vs):
            raise Untranslatable("format! of a non-string")
        pieces = [p.replace("{{", "{").replace("}}", "}") for p in pieces]
        if len(vs) == 1:
            return k(V("text", "(rs_format1 %s %s %s)" % (R.coq_text(pieces[0]), R.coq_text(pieces[1]), vs[0].term)))
        term = R.coq_text(pieces[0])
        for v, p in zip(vs, pieces[1:]):
            term += " ++ %s ++ %s" % (v.term, R.coq_text(p))
        return k(V("text", "(%s)" % term))

    def ev_closure(self, e, env, k):
        """the only closures of the subset: the role-link closures given to Engine::register_fn"""
        params, body = e[1], e[2]
        while body[0] == "block" and not body[1][0] and body[1][1] is not None:
            body = body[1][1]
        names = [p for p, _ in params]
        if any(ty != "ImmutableString" for _, ty in params) or len(set(names)) != len(names):
            raise Untranslatable("closure whose parameters are not ImmutableStrings")

        def is_ref(a, x):
            return a == ("ref", ("var", x), False) or a == ("var", x)
        ok = body[0] == "mcall" and body[2] == "has_link" and len(body[3]) == 3 and body[1][0] == "mcall" \
            and body[1][2] == "read" and not body[1][3] and body[1][1][0] == "var" and body[1][1][1] in env \
            and body[1][1][1] not in names
        if ok:
            h = env[body[1][1][1]]
            a1, a2, a3 = body[3]
            if h.kind == "handle" and len(names) == 2 and is_ref(a1, names[0]) and is_ref(a2, names[1]) \
                    and a3 == ("path", "None", None):
                return k(V(("efn", 2), "(FnLink %s)" % h.term))
            if h.kind == "handle" and len(names) == 3 and is_ref(a1, names[0]) and is_ref(a2, names[1]) \
                    and a3[0] == "path" and a3[1] == "Some" and a3[2] is not None and len(a3[2]) == 1 \
                    and is_ref(a3[2][0], names[2]):
                return k(V(("efn", 3), "(FnLink %s)" % h.term))
        raise Untranslatable("closure outside the subset (only |a, b| rm.read().has_link(&a, &b, None) and "
                             "|a, b, d| rm.read().has_link(&a, &b, Some(&d)) are known to the engine model)")

    # ---- `?`
    def consume_try(self, v, env, k):
        if isinstance(v.kind, tuple) and v.kind[0] == "conv":
            return k(V(v.kind[1], v.term))          # conversions are outside the model: the operation carries the converted value
        if v.kind == "lerr":
            e = self.fresh("e")
            ok = k(V("unit", "tt"))
            return "match %s with\n| LOk =>\n%s\n| LErr %s => %s\nend" % (v.term, ok, e, self.exit("(Err %s)" % e))
        if isinstance(v.kind, tuple) and v.kind[0] == "res":
            return self.match_res(v, env, lambda pv, env2: k(pv), None)
        raise Untranslatable("`?` on a " + kname(v.kind))

    def match_res(self, v, env, k_ok, k_err):
        """match an outcome: k_ok(payload value, env), k_err(error value, env) (None: leave with the error)"""
        p, e = self.fresh("r"), self.fresh("e")
        payload = v.kind[1]
        if payload in ("unit", "obj", None):
            pat, pv = "Ok _", V("unit" if payload != "obj" else "obj", "tt" if payload != "obj" else OBJ_VAR["Enforcer"])
        elif "payload" in v.extra:
            pat, pv = "Ok %s" % p, v.extra["payload"](p)
        else:
            pat, pv = "Ok %s" % p, V(payload, p)
        ok = k_ok(pv, env)
        er = self.exit("(Err %s)" % e) if k_err is None else k_err(V("errc", e), env)
        return "match %s with\n| %s =>\n%s\n| Err %s =>\n%s\n| Panic => %s\nend" % (v.term, pat, ok, e, er, self.exit("Panic"))

    # ---- calls
    def ev_recv(self, recv, env, k):
        """k(value, place | None, env)"""
        pl = self.place_of(recv, env)
        if pl is not None:
            return k(self.read_place(pl, env), pl, env)

        def kv(v):
            if "origin" in v.extra:                      # a `&mut` into a place that was never given a name
                name = "#" + v.term
                env2 = dict(env)
                env2[name] = v
                return k(v, ("borrow", name), env2)
            return k(v, None, env)
        return self.ev(recv, env, kv)

    def need_await(self, what, is_async, awaited):
        if is_async and not awaited:
            raise Untranslatable("%s without .await" % what)
        if awaited and not is_async:
            raise Untranslatable(".await on %s" % what)

    def ev_call(self, e, awaited, env, k):
        if e[0] == "path":
            segs = e[1].split("::")
            if e[2] is not None and len(segs) == 2 and segs[0] == "Self" and segs[1] != "register_function":
                return self.call_sibling((self.selfty, segs[1]), None, e[2], awaited, env, k)
            if awaited:
                raise Untranslatable(".await on " + e[1])
            return self.ev_path(e, env, k)
        if e[0] == "call":
            if awaited:
                raise Untranslatable(".await on a call through a variable")
            f = self.pure(e[1], env, "called value")
            if f.kind != "callback":
                raise Untranslatable("call of a value of type " + kname(f.kind))
            if len(e[2]) != 2 or not self.is_obj(e[2][0], env) or self.objty != "Enforcer":
                raise Untranslatable("a callback is called with (the enforcer, the event data)")
            d = self.pure(e[2][1], env, "event data")
            if d.kind != "evdata":
                raise Untranslatable("callback called with a " + kname(d.kind))
            disp = self.tr.callback_dispatcher()
            self.writes.add(self.sv)
            return "let %s := %s %s %s %s in\n%s" % (self.sv, disp, f.term, self.sv, d.term, k(V("unit", "tt")))
        recv, name, args = e[1], e[2], e[3]
        if self.is_obj(recv, env):
            return self.obj_call(name, args, awaited, env, k)
        return self.ev_recv(recv, env, lambda v, pl, env2: self.method(v, pl, name, args, awaited, env2, k))

    def obj_call(self, name, args, awaited, env, k):
        acc = self.tr.accessor(self.objty, name) if not args else None
        if acc is not None:
            self.need_await(name, False, awaited)
            fv = self.read_place(("field", acc[0]), env)
            if acc[1] == "plain":
                return k(fv)
            return k(V(fv.kind, fv.term, optplace=("field", acc[0])))
        if (self.objty, name) in self.tr.sigs or (self.objty, name) in self.tr.pending:
            return self.call_sibling((self.objty, name), True, args, awaited, env, k)
        if self.objty == "Enforcer" and name == "load_policy" and not args:
            # part 7 (Gen/EnforcerGen.v), on the model's state: Enforcer2Rt.x_core_call
            self.need_await("load_policy", True, awaited)
            r = self.fresh("r")
            self.writes.add(self.sv)
            return "let (%s, %s) := x_core_call %s EnforcerGen.gen_load_policy in\n%s" % (
                self.sv, r, self.sv, k(V(("res", "unit"), r)))
        if self.objty == "Enforcer" and name in ("private_enforce", "private_enforce_with_context"):
            # part 10 (Gen/EnforceGen.v): Result<(bool, Option<Vec<usize>>)>, the indices (feature explain off) are ()
            self.need_await(name, False, awaited)
            vs = self.pure_list(args, env, "argument of " + name)
            want = ["values"] if name == "private_enforce" else ["ctx", "values"]
            if [v.kind for v in vs] != want:
                raise Untranslatable("%s(%s)" % (name, ", ".join(kname(v.kind) for v in vs)))
            self.needs_ptab = True
            x = self.sv
            st = "(r_enabled %s) (d_model (r_model %s)) (d_mexprs (r_model %s)) (abs_fs %s)" % (x, x, x, x)
            if name == "private_enforce":
                term = "(EnforceGen.gen_private_enforce ptab %s %s)" % (st, vs[0].term)
            else:
                c = vs[0].term
                term = "(EnforceGen.gen_private_enforce_with_context ptab %s (x_r %s) (x_p %s) (x_e %s) (x_m %s) %s)" % (
                    st, c, c, c, c, vs[1].term)
            return k(V(("res", "pe"), term,
                       payload=lambda p: V(("tuple", [V("bool", p), V("unit", "tt")]), "(%s, tt)" % p)))
        raise Untranslatable("method .%s(..) of the enforcer" % name)

    def call_sibling(self, key, on_obj, args, awaited, env, k):
        sig = self.tr.sigs.get(key)
        if sig is None:
            raise Untranslatable("call of %s::%s, which is not translated before this function" % key)
        what = "%s::%s" % key
        self.need_await(what, sig["asyn"], awaited)
        if len(args) != len(sig["params"]):
            raise Untranslatable("%s with %d argument(s)" % (what, len(args)))
        terms = []
        for a, (pn, pk) in zip(args, sig["params"]):
            v = self.pure(a, env, "argument of " + what)
            want = pk[1] if isinstance(pk, tuple) and pk[0] == "convsrc" else pk
            if v.kind == pk:
                terms.append(v.term)
            else:
                terms.append(unify(v, want, "argument %s of %s" % (pn, what)))
        pt = ["ptab"] if sig["ptab"] else []
        if sig["ptab"]:
            self.needs_ptab = True
        g = "gen_" + sig["gen"]
        if sig["recv"]:
            if not on_obj or self.objty != sig["objty"]:
                raise Untranslatable("%s is a method of the %s" % (what, sig["objty"]))
            call = " ".join([g] + pt + [self.sv] + terms)
        else:
            call = " ".join([g] + pt + terms)
        if sig["fmode"] == "value":
            return k(V(sig["retkind"], "(%s)" % call))
        if sig["fmode"] == "res":
            return k(V(("res", sig["retkind"]), "(%s)" % call))
        if not sig["recv"]:
            if sig["retkind"] != "obj" or self.objty is not None:
                raise Untranslatable("%s: a second enforcer" % what)
            self.objty = "Enforcer"
        if not sig["mut"] and sig["recv"]:
            raise Untranslatable("internal: %s" % what)
        self.writes.add(self.sv)
        if sig["fmode"] == "state":
            return "let %s := %s in\n%s" % (self.sv, call, k(V("unit", "tt")))
        r = self.fresh("r")
        return "let (%s, %s) := %s in\n%s" % (self.sv, r, call, k(V(("res", sig["retkind"]), r)))

    def method(self, v, pl, name, args, awaited, env, k):
        kind = v.kind
        if isinstance(kind, tuple) and kind[0] == "convsrc":
            if name in CONVERSIONS and CONVERSIONS[name][0] == kind[1] and not args:
                self.need_await(name, CONVERSIONS[name][1], awaited)
                return k(V(("conv", kind[1]), v.term))
            raise Untranslatable(".%s() on an unconverted argument" % name)
        if awaited:
            raise Untranslatable(".await on .%s(..)" % name)
        if name in IDENTITY_METHODS and not args:
            if name in ("clone", "to_owned", "to_vec", "to_string"):
                return k(V(kind, v.term))            # a copy: no longer a reference into the state
            return k(v)
        avs = self.pure_list(args, env, "argument of .%s" % name)
        aks = [a.kind for a in avs]
        sig = (kind if isinstance(kind, str) else kind[0], name)

        def mutate(new, result=None):
            if pl is None:
                raise Untranslatable(".%s(..) on a temporary" % name)
            return self.write_place(pl, new, env, lambda env2: k(result or V("unit", "tt")))
        # -- the model store
        if sig == ("modeldef", "get_model") and not avs:
            return k(V("modelmap", "(d_model %s)" % v.term))
        if sig == ("modeldef", "build_incremental_role_links") and aks == ["handle", "evdata"]:
            # part 8 (Gen/LinksGen.v): DefaultModel::build_incremental_role_links writes the model store and,
            # through the handle, the manager behind it - the enforcer's current one
            if pl != ("field", "model") or not avs[0].extra.get("cur"):
                raise Untranslatable("build_incremental_role_links on another model or manager than the enforcer's")
            x = self.sv
            md, rm, le = self.fresh("md"), self.fresh("rm"), self.fresh("le")
            self.writes.add(x)
            return ("match LinksGen.gen_model_build_incremental_role_links %s %s (d_model (r_model %s)) (fst (r_rm %s)) with\n"
                    "| Some (%s, %s, %s) =>\nlet %s := rset_links %s %s %s in\n%s\n| None => %s\nend" % (
                        avs[0].term, avs[1].term, x, x, md, rm, le, x, x, md, rm, k(V("lerr", le)), self.exit("Panic")))
        if sig in (("modelmap", "get"), ("amap", "get")) and aks == ["text"]:
            return k(V(("option", "amap" if kind == "modelmap" else "assertion"), "(rs_map_get %s %s)" % (v.term, avs[0].term)))
        if sig == ("amap", "values") and not avs:
            return k(V(("list", "assertion"), "(map snd %s)" % v.term))
        if sig == ("amap", "keys") and not avs:
            return k(V(("list", "text"), "(map fst %s)" % v.term))
        # -- strings
        if sig == ("text", "matches") and aks == ["char"]:
            return k(V("matches", "", c=avs[0].term, s=v.term))
        if sig == ("matches", "count") and not avs:
            return k(V("nat", "(rs_count_char %s %s)" % (v.extra["c"], v.extra["s"])))
        if sig == ("text", "is_empty") and not avs:
            return k(V("bool", "(rs_is_empty %s)" % v.term))
        # -- the event map
        if sig == ("events", "get") and aks == ["evkind"]:
            return k(V(("option", "cbvec"), "(hm_get evkind_eqb %s %s)" % (v.term, avs[0].term)))
        if sig == ("events", "contains_key") and aks == ["evkind"]:
            return k(V("bool", "(match hm_get evkind_eqb %s %s with Some _ => true | None => false end)" % (v.term, avs[0].term)))
        if sig == ("events", "remove") and aks == ["evkind"]:
            return mutate("hm_remove evkind_eqb %s %s" % (v.term, avs[0].term), V(("option", "cbvec"), "<removed>", droppable=True))
        if sig == ("events", "clear") and not avs:
            return mutate("hm_clear %s" % v.term)
        if sig == ("events", "insert") and len(avs) == 2 and aks[0] == "evkind":
            val = unify(avs[1], "cbvec", "inserted value")
            return mutate("hm_insert evkind_eqb %s %s %s" % (v.term, avs[0].term, val), V(("option", "cbvec"), "<old>", droppable=True))
        if sig == ("events", "entry") and aks == ["evkind"]:
            if pl is None:
                raise Untranslatable(".entry(..) on a temporary")
            return k(V("entry", "", place=pl, key=avs[0].term))
        if kind == "entry" and (name == "or_default" and not avs
                                or name == "or_insert_with" and len(avs) == 1 and avs[0].kind == "vec_new_fn"
                                or name == "or_insert" and len(avs) == 1 and avs[0].kind == "vec_new"):
            epl, key = v.extra["place"], v.extra["key"]
            ent = self.fresh("ent")
            cur = self.read_place(epl, env).term

            def back(em, t, epl=epl, key=key, env=env):
                return "hm_insert evkind_eqb %s %s %s" % (em.read_place(epl, env).term, key, t)
            res = V("cbvec", ent, origin=epl, back=back)
            return "let %s := hm_get_or evkind_eqb %s %s rs_vec_new in\n%s" % (
                ent, cur, key, self.write_place(epl, back(self, ent), env, lambda env2: k(res)))
        if sig == ("cbvec", "push") and aks == ["callback"]:
            return mutate("rs_push %s %s" % (v.term, avs[0].term))
        if sig == ("cbvec", "clear") and not avs:
            return mutate("rs_vec_new")
        if sig == ("cbvec", "take") and aks == ["nat"]:
            return k(V("cbvec", "(rs_take %s %s)" % (avs[0].term, v.term)))
        if sig == ("cbvec", "first") and not avs:
            return k(V(("option", "callback"), "(rs_first %s)" % v.term))
        if sig == ("cbvec", "len") and not avs:
            return k(V("nat", "(length %s)" % v.term))
        # -- function map, engine
        if sig == ("fmap", "get_functions") and not avs:
            return k(V(("list", ("pair", "text", "opfun")), "(fm_get_functions %s)" % v.term))
        if sig == ("engine", "register_fn") and len(avs) == 2 and aks[0] == "text" \
                and isinstance(aks[1], tuple) and aks[1][0] == "efn":
            return mutate("eng_register_fn %s %s %d %s" % (v.term, avs[0].term, aks[1][1], avs[1].term))
        if sig == ("engine", "register_global_module") and aks == ["module"]:
            return mutate("eng_register_global_module %s %s" % (v.term, avs[0].term))
        if sig == ("package", "as_shared_module") and not avs:
            return k(V("module", v.term))
        # -- adapter, watcher, cache
        if sig == ("adapter", "is_filtered") and not avs:
            return k(V("bool", "(ad_is_filtered %s)" % v.term))
        if sig == ("watcher", "update") and aks == ["evdata"]:
            return mutate("watcher_update %s %s" % (v.term, avs[0].term))
        if sig == ("cache", "clear") and not avs and pl == ("field", "cache"):
            self.writes.add(self.sv)       # CachedRt.cg_clear: self.cache.clear()
            return "let %s := cg_clear %s in\n%s" % (self.sv, self.sv, k(V("unit", "tt")))
        raise Untranslatable("method .%s(%s) of a %s" % (name, ", ".join(kname(a) for a in aks), kname(kind)))

    # ---- patterns
    def bind(self, pat, v, env):
        """-> ([(coq name, term)], env'): the lets that bind the pattern to the value"""
        while pat[0] == "pref":
            pat = pat[1]
        if pat[0] == "pwild":
            return [], env
        if pat[0] == "pv":
            name = pat[1]
            env2 = dict(env)
            if v.kind == "obj":
                env2[name] = v
                return [], env2
            x = "v_" + name
            extra = dict(v.extra)
            extra.pop("droppable", None)
            env2[name] = V(v.kind, x, **extra)
            if pat[2]:
                self.mut.add(name)
            else:
                self.mut.discard(name)
            return [(x, v.term)], env2
        if pat[0] == "ptuple":
            if isinstance(v.kind, tuple) and v.kind[0] == "tuple" and len(v.kind[1]) == len(pat[1]):
                lets = []
                for p, c in zip(pat[1], v.kind[1]):
                    l2, env = self.bind(p, c, env)
                    lets += l2
                return lets, env
            if isinstance(v.kind, tuple) and v.kind[0] == "pair" and len(pat[1]) == 2:
                a, b = self.fresh("a"), self.fresh("b")
                l1, env = self.bind(pat[1][0], V(v.kind[1], a), env)
                l2, env = self.bind(pat[1][1], V(v.kind[2], b), env)
                return [("'(%s, %s)" % (a, b), v.term)] + l1 + l2, env
            raise Untranslatable("tuple pattern on a " + kname(v.kind))
        raise Untranslatable("pattern %s in a let / for" % pat[0])

    @staticmethod
    def lets(bindings, body):
        return "".join("let %s := %s in\n" % b for b in bindings) + body

    def fun_pattern(self, pat, elem, env):
        """the pattern of a `fun` over the elements of a list -> (coq pattern, env')"""
        while pat[0] == "pref":
            pat = pat[1]
        if pat[0] == "pwild":
            return "_", env
        if pat[0] == "pv":
            env2 = dict(env)
            env2[pat[1]] = V(elem, "v_" + pat[1])
            self.mut.discard(pat[1])
            return "v_" + pat[1], env2
        if pat[0] == "ptuple" and isinstance(elem, tuple) and elem[0] == "pair" and len(pat[1]) == 2:
            p1, env = self.fun_pattern(pat[1][0], elem[1], env)
            p2, env = self.fun_pattern(pat[1][1], elem[2], env)
            return "'(%s, %s)" % (p1.lstrip("'"), p2.lstrip("'")), env
        raise Untranslatable("loop pattern on elements of type " + kname(elem))

    # ---- statements
    def run(self, stmts, env, k):
        if not stmts:
            return k(env)
        st, rest = stmts[0], stmts[1:]
        nxt = lambda env2: self.run(rest, env2, k)   # noqa: E731
        if st[0] == "let":
            return self.run_let(st, env, nxt)
        if st[0] == "assign":
            pl = self.place_of(st[1], env)
            if pl is None:
                raise Untranslatable("assignment target")
            cur = self.read_place(pl, env)
            return self.ev(st[2], env, lambda v: self.write_place(pl, unify(v, cur.kind, "assigned value"), env, nxt))
        if st[0] == "ret":
            if rest:
                raise Untranslatable("code after return")
            return self.run_ret(st[1], env)
        if st[0] == "for":
            return self.run_for(st, env, nxt)
        if st[0] == "expr":
            e = st[1]
            while e[0] == "macroexp":
                e = e[2]
            if e[0] == "block":
                stmts2, final = e[1]
                body = stmts2 + ([("expr", final)] if final is not None else [])
                return self.run(body, dict(env), lambda _e: nxt(env))
            if e[0] in ("if", "iflet", "match"):
                return self.run_control(e, env, nxt, bool(rest))

            def kex(v):
                if v.kind in ("unit", "nat", "bool", "text") or v.extra.get("droppable"):
                    return nxt(env)
                raise Untranslatable("the value of an expression statement (%s) is dropped: a Result must be "
                                     "consumed by `?`, `if let`, `match`" % kname(v.kind))
            return self.ev(e, env, kex)
        raise Untranslatable("statement " + str(st[0]))

    def run_let(self, st, env, nxt):
        pat = st[1]

        def klet(v):
            if v.kind == "newobj":
                if self.objty is not None:
                    raise Untranslatable("a second enforcer is built")
                if pat[0] != "pv":
                    raise Untranslatable("the new enforcer is not bound to a variable")
                self.objty = "Enforcer"
                env2 = dict(env)
                env2[pat[1]] = V("obj", self.sv)
                self.writes.add(self.sv)
                return "let %s :=\n%s in\n%s" % (self.sv, v.term, nxt(env2))
            if pat[0] == "pwild":
                return nxt(env)                  # `let _ = e;`: the value is dropped
            if v.kind in ("entry", "matches", "none", "hm_new", "vec_new") or v.extra.get("droppable"):
                raise Untranslatable("let of a " + kname(v.kind))
            b, env2 = self.bind(pat, v, env)
            return self.lets(b, nxt(env2))
        return self.ev(st[2], env, klet)

    def run_ret(self, e, env):
        if self.fmode == "state":
            raise Untranslatable("return in a function without a value")
        if e is None:
            raise Untranslatable("return without a value")

        def kret(v):
            if self.fmode == "value":
                if v.kind != self.retkind:
                    raise Untranslatable("the function returns a %s" % kname(v.kind))
                return v.term
            if v.kind == "lerr":
                er = self.fresh("e")
                return "match %s with\n| LOk => %s\n| LErr %s => %s\nend" % (
                    v.term, self.exit("(Ok true)"), er, self.exit("(Err %s)" % er))
            if isinstance(v.kind, tuple) and v.kind[0] == "res" and v.kind[1] in (self.retkind, None):
                return self.exit(v.term)
            raise Untranslatable("return of a %s in a function returning Result<%s>" % (kname(v.kind), self.retkind))
        return self.ev(e, env, kret)

    def carry(self, names, env):
        names = sorted(names, key=lambda n: (n != self.sv_or_none(), n))
        terms = [n if n == self.sv_or_none() else env[n].term for n in names]
        if not terms:
            return "tt", "_"
        if len(terms) == 1:
            return terms[0], terms[0]
        return "(%s)" % ", ".join(terms), "'(%s)" % ", ".join(terms)

    def sv_or_none(self):
        return OBJ_VAR[self.objty] if self.objty else None

    def outer(self, writes, env):
        """the written names that live outside the construct"""
        return {w for w in writes if w == self.sv_or_none() or (w in env and not w.startswith("#"))}

    def run_for(self, st, env, nxt):
        pat, it, body = st[1], st[2], st[3]
        stmts = body[0] + ([("expr", body[1])] if body[1] is not None else [])
        itv = self.pure(it, env, "iterated expression")
        if itv.kind == "cbvec":
            elem = "callback"
        elif itv.kind == "amap":
            elem = ("pair", "text", "assertion")
        elif isinstance(itv.kind, tuple) and itv.kind[0] == "list":
            elem = itv.kind[1]
        else:
            raise Untranslatable("for over a " + kname(itv.kind))
        obj0 = self.objty

        def emit_body(end):
            fp, env_b = self.fun_pattern(pat, elem, env)
            return fp, self.run(stmts, env_b, end)
        self.ctx.append("loop")
        try:
            writes, exits = self.probe(lambda: emit_body(lambda _e: "<end>"))
        finally:
            self.ctx.pop()
        if self.objty != obj0:
            raise Untranslatable("the enforcer is built inside a loop")
        names = self.outer(writes, env)
        cterm, cpat = self.carry(names, env)
        for n in names:
            self.writes.add(n)
        if not exits:
            fp, b = emit_body(lambda _e: cterm)
            if not names:
                return nxt(env)          # a loop without any effect
            return "let %s := rs_for_each (fun %s %s =>\n%s)\n%s %s in\n%s" % (
                cpat, fp, cpat, b, itv.term, cterm, nxt(env))
        self.ctx.append("loop")
        try:
            fp, b = emit_body(lambda _e: "LNext %s" % cterm)
        finally:
            self.ctx.pop()
        r = self.fresh("r")
        done = nxt(env)
        return "match rs_for (fun %s %s =>\n%s)\n%s %s with\n| Done %s =>\n%s\n| Returned %s => %s\n| Panicked => %s\nend" % (
            fp, cpat, b, itv.term, cterm, cpat.lstrip("'") if cpat.startswith("'") else cpat, done, r,
            self.leave_with(r), self.exit("Panic"))

    # ---- if / if let / match
    def always_exits(self, blk):
        stmts, final = blk
        if final is not None:
            return self.expr_always_exits(final)
        if not stmts:
            return False
        st = stmts[-1]
        if st[0] == "ret":
            return True
        if st[0] == "expr":
            return self.expr_always_exits(st[1])
        return False

    def expr_always_exits(self, e):
        while e[0] == "macroexp":
            e = e[2]
        if e[0] == "block":
            return self.always_exits(e[1])
        if e[0] == "if":
            return e[3] is not None and self.always_exits(e[2]) and self.always_exits(e[3])
        if e[0] == "iflet":
            return e[4] is not None and self.always_exits(e[3]) and self.always_exits(e[4])
        if e[0] == "match":
            return bool(e[2]) and all(self.always_exits(([], b)) if b[0] != "block" else self.always_exits(b[1])
                                      for _p, b in e[2])
        return False

    def arms_of(self, e, env, k):
        """k(head, [(coq pattern | None, block, env)]) with head = ("if", cond term) | ("match", scrutinee term);
           a missing else / None arm is the empty block"""
        empty = ([], None)
        if e[0] == "if":
            c = self.pure(e[1], env, "condition")
            if c.kind != "bool":
                raise Untranslatable("condition of type " + kname(c.kind))
            return k(("if", c.term), [(None, e[2], env), (None, e[3] if e[3] is not None else empty, env)])
        if e[0] == "iflet":
            arms = [(e[1], ("block", e[3])), (("pwild",), ("block", e[4] if e[4] is not None else empty))]
            scrut = e[2]
        else:
            arms, scrut = e[2], e[1]

        def blk_of(b):
            return b[1] if b[0] == "block" else ([], b)

        def ks(v):
            out = []
            if isinstance(v.kind, tuple) and v.kind[0] == "option":
                seen = set()
                for pat, body in arms:
                    if pat[0] == "pctor" and pat[1] == "Some" and len(pat[2]) == 1 and "Some" not in seen:
                        seen.add("Some")
                        name = self.fresh("o")
                        inner = V(v.kind[1], name)
                        if "optplace" in v.extra:
                            opl = v.extra["optplace"]
                            inner = V(v.kind[1], name, origin=opl, back=lambda em, t: "(Some %s)" % t)
                        sub = pat[2][0]
                        while sub[0] == "pref":
                            sub = sub[1]
                        if sub[0] == "pv":
                            inner.term = "v_" + sub[1]
                            env2 = dict(env)
                            env2[sub[1]] = inner
                            self.mut.discard(sub[1])
                            out.append(("Some %s" % inner.term, blk_of(body), env2))
                        elif sub[0] == "pwild":
                            out.append(("Some _", blk_of(body), env))
                        else:
                            b, env2 = self.bind(sub, inner, env)
                            out.append(("Some %s" % name, blk_of(body), env2, b))
                    elif pat[0] == "pctor" and pat[1] == "None" and "None" not in seen:
                        seen.add("None")
                        out.append(("None", blk_of(body), env))
                    elif pat[0] == "pwild":
                        for c in ("Some", "None"):
                            if c not in seen:
                                seen.add(c)
                                out.append(("Some _" if c == "Some" else "None", blk_of(body), env))
                    else:
                        raise Untranslatable("pattern on an Option")
                if seen != {"Some", "None"}:
                    raise Untranslatable("match on an Option that is not exhaustive")
                out.sort(key=lambda a: a[0] == "None")
                return k(("match", v.term), out)
            if isinstance(v.kind, tuple) and v.kind[0] == "res":
                seen = set()
                p, er = self.fresh("r"), self.fresh("e")
                payload = v.kind[1]
                if payload in ("unit", "obj", None):
                    okpat, pv = "Ok _", V("unit", "tt")
                elif "payload" in v.extra:
                    okpat, pv = "Ok %s" % p, v.extra["payload"](p)
                else:
                    okpat, pv = "Ok %s" % p, V(payload, p)
                for pat, body in arms:
                    if pat[0] == "pctor" and pat[1] == "Ok" and len(pat[2]) == 1 and "Ok" not in seen:
                        seen.add("Ok")
                        b, env2 = self.bind(pat[2][0], pv, env)
                        out.append((okpat, blk_of(body), env2, b))
                    elif pat[0] == "pctor" and pat[1] == "Err" and len(pat[2]) == 1 and "Err" not in seen:
                        seen.add("Err")
                        b, env2 = self.bind(pat[2][0], V("errc", er), env)
                        out.append(("Err %s" % er, blk_of(body), env2, b))
                    elif pat[0] == "pwild":
                        for c in ("Ok", "Err"):
                            if c not in seen:
                                seen.add(c)
                                out.append((okpat if c == "Ok" else "Err %s" % er, blk_of(body), env))
                    else:
                        raise Untranslatable("pattern on a Result")
                if seen != {"Ok", "Err"}:
                    raise Untranslatable("match on a Result that is not exhaustive")
                out.sort(key=lambda a: not a[0].startswith("Ok"))
                out.append(("Panic", "panic", env))
                return k(("match", v.term), out)
            raise Untranslatable("if let / match on a " + kname(v.kind))
        return self.ev(scrut, env, ks)

    def run_control(self, e, env, nxt, has_rest):
        def karms(head, arms):
            def body_of(a):
                blk = a[1]
                return blk[0] + ([("expr", blk[1])] if blk[1] is not None else [])

            def emit_arm(a, end):
                if a[1] == "panic":
                    return self.exit("Panic")
                t = self.run(body_of(a), dict(a[2]), end)
                return self.lets(a[3], t) if len(a) > 3 else t

            def assemble(bodies):
                if head[0] == "if":
                    return "(if %s then\n%s\nelse\n%s)" % (head[1], bodies[0], bodies[1])
                return "(match %s with\n%s\nend)" % (head[1], "\n".join("| %s =>\n%s" % (a[0], b) for a, b in zip(arms, bodies)))

            def dead(_e):
                raise Exits()
            falls = []
            for a in arms:
                if a[1] == "panic" or self.always_exits(a[1]):
                    continue
                falls.append(a)
            info = [self.probe(lambda a=a: emit_arm(a, lambda _e: "<end>")) if a in falls
                    else self.probe(lambda a=a: emit_arm(a, dead)) for a in arms]
            if not falls:
                if has_rest:
                    raise Untranslatable("code after an if / match whose branches all return")
                return assemble([emit_arm(a, dead) for a in arms])
            if len(falls) == 1:
                # the continuation is used once: no join
                return assemble([emit_arm(a, (lambda _e: nxt(env)) if a in falls else dead) for a in arms])
            writes = set()
            exits = False
            for w, x in info:
                writes |= w
                exits = exits or x
            names = self.outer(writes, env)
            for n in names:
                self.writes.add(n)
            if not exits:
                if not names:
                    return nxt(env)        # no branch has an effect
                cterm, cpat = self.carry(names, env)
                return "let %s :=\n%s in\n%s" % (cpat, assemble([emit_arm(a, lambda _e: cterm) for a in arms]), nxt(env))
            # some branch may leave the function: InternalPrims.flow
            if self.fmode == "state_res":
                if names - {self.sv}:
                    raise Untranslatable("a local is modified in a branch that may return")
                fall, pat_exit, pat_next = "(%s, Next tt)" % self.sv, "(%s, Exit %%s)" % self.sv, "(%s, Next _)" % self.sv
            elif self.fmode == "res":
                if names:
                    raise Untranslatable("a local is modified in a branch that may return")
                fall, pat_exit, pat_next = "(Next tt)", "Exit %s", "Next _"
            else:
                raise Untranslatable("a function without a Result leaves early")
            self.ctx.append("join")
            try:
                bodies = [emit_arm(a, (lambda _e: fall) if a in falls else dead) for a in arms]
            finally:
                self.ctx.pop()
            o = self.fresh("o")
            return "match %s with\n| %s => %s\n| %s =>\n%s\nend" % (
                assemble(bodies), pat_exit % o, self.exit(o), pat_next, nxt(env))
        return self.arms_of(e, env, karms)

    # ---- the body of a function
    def tailify(self, blk):
        """the value of the body becomes an explicit return (also inside a trailing if / match / block)"""
        stmts, final = blk
        if final is None:
            if stmts and stmts[-1][0] == "expr":
                t = self.tail_expr(stmts[-1][1])
                if t is not None:
                    return (stmts[:-1] + [("expr", t)], None)
            return blk
        t = self.tail_expr(final)
        if t is not None:
            return (stmts + [("expr", t)], None)
        return (stmts + [("ret", final)], None)

    def tail_expr(self, e):
        if e[0] == "macroexp":
            t = self.tail_expr(e[2])
            return None if t is None else ("macroexp", e[1], t)
        if e[0] == "block":
            return ("block", self.tailify(e[1]))
        if e[0] == "if" and e[3] is not None:
            return ("if", e[1], self.tailify(e[2]), self.tailify(e[3]))
        if e[0] == "iflet" and e[4] is not None:
            return ("iflet", e[1], e[2], self.tailify(e[3]), self.tailify(e[4]))
        if e[0] == "match":
            return ("match", e[1], [(p, ("block", self.tailify(b[1] if b[0] == "block" else ([], b)))) for p, b in e[2]])
        return None

    def function(self, blk, env):
        if self.fmode == "state":
            stmts = blk[0] + ([("expr", blk[1])] if blk[1] is not None else [])
            return self.run(stmts, env, lambda _e: self.sv)
        blk = self.tailify(blk)
        if not self.always_exits(blk):
            raise Untranslatable("control reaches the end of the function without a value")

        def dead(_e):
            raise Untranslatable("internal: continuation of a body that always returns")
        return self.run(blk[0], env, dead)


# ---------------------------------------------------------------- items to translate
IMPL_EMITTER = r"impl\s+EventEmitter\s*<\s*Event\s*>\s+for\s+Enforcer\b"
IMPL_ENF = r"impl\s+Enforcer\s*(?=\{)"
IMPL_CTX = r"impl\s+EnforceContext\s*(?=\{)"
IMPL_CORE = r"impl\s+CoreApi\s+for\s+Enforcer\b"
IMPL_CACHEDAPI = r"impl\s+CachedApi\s*<[^>]*>\s+for\s+CachedEnforcer\b"

# gen name, file, impl header (None: free fn), fn name, the struct `Self` stands for, ptab parameter,
# expected Gallina signature (binders after the optional ptab, result type) - used for the stub of a function that
# cannot be translated and checked against what the source gives
SPECS = [
    dict(gen="emitter_notify_logger_and_watcher", file=MFILE, region=None, name="notify_logger_and_watcher", selfty=None,
         ptab=False, binders="(x : renf) (v_d : evdata)", ty="renf", stub="x"),
    dict(gen="emitter_clear_cache", file=MFILE, region=None, name="clear_cache", selfty=None,
         ptab=False, binders="(c : cstate) (v_d : evdata)", ty="cstate", stub="c"),
    dict(gen="enf_on", file=EFILE, region=IMPL_EMITTER, name="on", selfty="Enforcer",
         ptab=False, binders="(x : renf) (v_e : evkind) (v_f : callback)", ty="renf", stub="x"),
    dict(gen="enf_off", file=EFILE, region=IMPL_EMITTER, name="off", selfty="Enforcer",
         ptab=False, binders="(x : renf) (v_e : evkind)", ty="renf", stub="x"),
    dict(gen="enf_emit", file=EFILE, region=IMPL_EMITTER, name="emit", selfty="Enforcer",
         ptab=False, binders="(x : renf) (v_e : evkind) (v_d : evdata)", ty="renf", stub="x"),
    dict(gen="ctx_new", file=EFILE, region=IMPL_CTX, name="new", selfty="EnforceContext",
         ptab=False, binders="(v_suffix : text)", ty="cgctx", stub="cg_no_ctx"),
    dict(gen="enf_register_g_functions", file=EFILE, region=IMPL_ENF, name="register_g_functions", selfty="Enforcer",
         ptab=False, binders="(x : renf)", ty="renf * outcome bool", stub="(x, Panic)"),
    dict(gen="enf_build_incremental_role_links", file=EFILE, region=IMPL_CORE, name="build_incremental_role_links",
         selfty="Enforcer", ptab=False, binders="(x : renf) (v_d : evdata)", ty="renf * outcome bool", stub="(x, Panic)"),
    dict(gen="enf_enforce", file=EFILE, region=IMPL_CORE, name="enforce", selfty="Enforcer",
         ptab=True, binders="(x : renf) (v_rvals : list value)", ty="outcome bool", stub="Panic"),
    dict(gen="enf_enforce_with_context", file=EFILE, region=IMPL_CORE, name="enforce_with_context", selfty="Enforcer",
         ptab=True, binders="(x : renf) (v_ctx : cgctx) (v_rvals : list value)", ty="outcome bool", stub="Panic"),
    dict(gen="enf_enforce_mut", file=EFILE, region=IMPL_CORE, name="enforce_mut", selfty="Enforcer",
         ptab=True, binders="(x : renf) (v_rvals : list value)", ty="renf * outcome bool", stub="(x, Panic)"),
    dict(gen="enf_new_raw", file=EFILE, region=IMPL_CORE, name="new_raw", selfty="Enforcer",
         ptab=False, binders="(v_m : modeldef) (v_a : adapter)", ty="renf * outcome bool", stub=None),
    dict(gen="enf_new", file=EFILE, region=IMPL_CORE, name="new", selfty="Enforcer",
         ptab=False, binders="(v_m : modeldef) (v_a : adapter)", ty="renf * outcome bool", stub=None),
]
STUB_RENF = ("({| r_model := v_m; r_adapter := v_a; r_fm := []; r_eft := tt; r_rm := ([], 0); r_enabled := false; "
             "r_auto_save := false; r_auto_build := false; r_auto_notify := false; r_watcher := None; r_events := []; "
             "r_engine := [] |}, Panic)")
DISPATCHER = "gen_enf_call_callback"


class Translator:
    def __init__(self):
        self.sigs = {}        # (struct, rust fn name) -> signature of the generated function
        self.pending = {}
        self.acc_cache = {}
        self.src = {}
        self.dispatcher_ok = False
        self.callback_items = set()

    def read(self, rel):
        if rel not in self.src:
            s = pins.read(rel)
            if not s:
                raise Untranslatable("%s cannot be read" % rel)
            self.src[rel] = s
        return self.src[rel]

    # ---- one-line accessors, accepted as the field they return once their body has been read
    def accessor(self, objty, name):
        key = (objty, name)
        if key not in self.acc_cache:
            self.acc_cache[key] = self.read_accessor(objty, name)
        return self.acc_cache[key]

    def read_accessor(self, objty, name):
        if not re.match(r"(get_|get_mut_)\w+$", name) or objty is None:
            return None
        regions = {"Enforcer": [(EFILE, IMPL_CORE)], "CachedEnforcer": [(CFILE, IMPL_CACHEDAPI)]}[objty]
        for rel, hdr in regions:
            try:
                f = find_fn(region_of(self.read(rel), hdr), name)
                if f["asyn"] or f["params"] or f["recv"] not in ("&mutself", "&self"):
                    continue
                stmts, final = parse_block(f["body"], [])
                if not stmts and final is not None:
                    e = final
                    while e[0] in ("ref", "deref"):
                        e = e[1]
                    if e[0] == "field" and e[1] == ("var", "self"):
                        return (e[2], "plain")
                    stmts, final = [("expr", final)], None
                if len(stmts) == 1 and final is None and stmts[0][0] == "expr" and stmts[0][1][0] == "iflet":
                    _, pat, scrut, th, el = stmts[0][1]
                    while scrut[0] in ("ref", "deref"):
                        scrut = scrut[1]
                    if pat[0] == "pctor" and pat[1] == "Some" and len(pat[2]) == 1 and pat[2][0][0] == "pv" \
                            and scrut[0] == "field" and scrut[1] == ("var", "self") and el is not None \
                            and th[0] == [] and th[1] is not None and el == ([], ("path", "None", None)):
                        t = th[1]
                        if t[0] == "path" and t[1] == "Some" and t[2] is not None and len(t[2]) == 1:
                            a = t[2][0]
                            while a[0] in ("ref", "deref"):
                                a = a[1]
                            if a == ("var", pat[2][0][1]):
                                return (scrut[2], "option")
            except Untranslatable:
                pass
        return None

    # ---- Enforcer::register_function and FunctionMap::default(): restated in Enforcer2Rt.v, accepted once read
    def check_register_function(self):
        """fn register_function(engine, key, f) { match f { OperatorFunction::ArgN(func) => { engine.register_fn(key, func); } .. } }"""
        if "regfn" in self.acc_cache:
            return self.acc_cache["regfn"]
        why = None
        try:
            f = find_fn(region_of(self.read(EFILE), IMPL_ENF), "register_function")
            names = [pn for pn, _ in f["params"]]
            blk = parse_block(f["body"], [])
            e = blk[1] if blk[1] is not None and not blk[0] else (blk[0][0][1] if len(blk[0]) == 1 and blk[0][0][0] == "expr" else None)
            if f["recv"] is not None or len(names) != 3 or e is None or e[0] != "match" or e[1] != ("var", names[2]):
                why = "not a match on its third parameter"
            else:
                seen = set()
                for pat, body in e[2]:
                    b = body
                    while b[0] == "block" and len(b[1][0]) + (b[1][1] is not None) == 1:
                        b = b[1][0][0][1] if b[1][0] else b[1][1]
                    m = re.match(r"OperatorFunction::Arg(\d)$", pat[1]) if pat[0] == "pctor" else None
                    if not m or len(pat[2]) != 1 or pat[2][0][0] != "pv" or m.group(1) in seen \
                            or b != ("mcall", ("var", names[0]), "register_fn", [("var", names[1]), ("var", pat[2][0][1])]):
                        why = "an arm is not `OperatorFunction::ArgN(func) => engine.register_fn(key, func)`"
                        break
                    seen.add(m.group(1))
                if why is None and seen != set("0123456"):
                    why = "not one arm for each of Arg0 .. Arg6"
        except Untranslatable as ex:
            why = str(ex)
        self.acc_cache["regfn"] = why
        return why

    def fm_default_table(self):
        """[(name, N)] of FunctionMap::default(): fm.insert("name".to_owned(), OperatorFunction::ArgN(|s1, ..| name_in_snake_case(&s1, ..).into()))"""
        src = self.read("src/model/function_map.rs")
        f = find_fn(region_of(src, r"impl\s+Default\s+for\s+FunctionMap\b"), "default")
        stmts, final = parse_block(f["body"], [])
        if not stmts or stmts[0][0] != "let" or stmts[0][1][0] != "pv" or stmts[0][2] != ("path", "HashMap::new", []):
            raise Untranslatable("FunctionMap::default(): does not start from HashMap::new()")
        mv = stmts[0][1][1]
        if final != ("struct", "FunctionMap", [("fm", ("var", mv))]):
            raise Untranslatable("FunctionMap::default(): does not end in FunctionMap { fm }")
        table = []
        for st in stmts[1:]:
            ok = st[0] == "expr" and st[1][0] == "mcall" and st[1][1] == ("var", mv) and st[1][2] == "insert" and len(st[1][3]) == 2
            if ok:
                kx, fx = st[1][3]
                while kx[0] == "mcall" and kx[2] in IDENTITY_METHODS and not kx[3]:
                    kx = kx[1]
                m = re.match(r"OperatorFunction::Arg(\d)$", fx[1]) if fx[0] == "path" and fx[2] is not None and len(fx[2]) == 1 else None
                ok = kx[0] == "str" and m is not None and fx[2][0][0] == "closure"
            if not ok:
                raise Untranslatable("FunctionMap::default(): a statement that is not fm.insert(\"name\".to_owned(), OperatorFunction::ArgN(closure))")
            name, n, cl = kx[1], int(m.group(1)), fx[2][0]
            body = cl[2]
            while body[0] == "block" and not body[1][0] and body[1][1] is not None:
                body = body[1][1]
            while body[0] == "mcall" and body[2] == "into" and not body[3]:
                body = body[1]
            snake = re.sub(r"([A-Z])", lambda mm: "_" + mm.group(1).lower(), name)
            params = [pn for pn, _ in cl[1]]
            if len(params) != n or any(ty != "ImmutableString" for _, ty in cl[1]) or body[0] != "call" or body[1] != ("var", snake) \
                    or body[2] != [("ref", ("var", pn), False) for pn in params]:
                raise Untranslatable("FunctionMap::default(): %s is not |s1, ..| %s(&s1, ..).into() with %d parameters" % (name, snake, n))
            table.append((name, n))
        return table

    def is_callback_item(self, name):
        return name in self.callback_items

    def callback_dispatcher(self):
        if not self.dispatcher_ok:
            raise Untranslatable("a callback is called, but the callbacks were not translated")
        return DISPATCHER

    # ---- one function
    def signature(self, spec, f):
        """kinds of the parameters, the state the function runs on, how it returns"""
        params = []
        objty, objname, mut = None, None, False
        if f["recv"] in ("&mutself", "&self"):
            objty, objname, mut = spec["selfty"], "self", f["recv"] == "&mutself"
            if objty not in OBJ_VAR:
                raise Untranslatable("%s: a method of %s" % (spec["name"], objty))
        elif f["recv"] is not None:
            raise Untranslatable("%s: receiver %s" % (spec["name"], f["recv"]))
        for pn, pt in f["params"]:
            m = re.match(r"&mut(\w+)$", pt)
            if m and m.group(1) in f["generics"] and objty is None:
                bounds = f["generics"][m.group(1)]
                if "CoreApi" not in bounds:
                    raise Untranslatable("%s: parameter %s: %s" % (spec["name"], pn, pt))
                objty = "CachedEnforcer" if any(b.startswith("CachedApi") for b in bounds) else "Enforcer"
                objname, mut = pn, True
                continue
            if pt in f["generics"]:
                ks = [BOUND_KINDS[b] for b in f["generics"][pt] if b in BOUND_KINDS]
                if len(ks) != 1:
                    raise Untranslatable("%s: parameter %s: %s" % (spec["name"], pn, pt))
                params.append((pn, ("convsrc", ks[0])))
                continue
            if pt not in PARAM_KINDS:
                raise Untranslatable("%s: parameter %s: %s" % (spec["name"], pn, pt))
            params.append((pn, PARAM_KINDS[pt]))
        ret = f["ret"]
        if ret == "" and objty is not None and mut:
            fmode, retkind = "state", "unit"
        elif ret == "Result<()>" and objty is not None and mut:
            fmode, retkind = "state_res", "unit"
        elif ret == "Result<bool>" and objty is not None:
            fmode, retkind = ("state_res" if mut else "res"), "bool"
        elif ret == "Result<Self>" and objty is None and spec["selfty"] == "Enforcer":
            fmode, retkind = "state_res", "obj"
        elif ret == "Self" and objty is None and spec["selfty"] == "EnforceContext":
            fmode, retkind = "value", "ctx"
        else:
            raise Untranslatable("%s: return type %r" % (spec["name"], ret))
        return dict(gen=spec["gen"], params=params, objty=objty, objname=objname, recv=f["recv"] is not None or objname is not None,
                    mut=mut, fmode=fmode, retkind=retkind, asyn=f["asyn"], ptab=spec["ptab"])

    def translate(self, spec):
        src = self.read(spec["file"])
        f = find_fn(region_of(src, spec["region"]), spec["name"])
        sig = self.signature(spec, f)
        dropped = []
        blk = parse_block(f["body"], dropped)
        em = Em(self, spec, sig)
        env = {}
        binders = []
        if sig["objty"] is not None:
            em.objty = sig["objty"]
            env[sig["objname"]] = V("obj", OBJ_VAR[sig["objty"]])
            binders.append("(%s : %s)" % (OBJ_VAR[sig["objty"]], OBJ_TY[sig["objty"]]))
        for pn, pk in sig["params"]:
            ck = pk[1] if isinstance(pk, tuple) else pk
            env[pn] = V(pk, "v_" + pn)
            binders.append("(v_%s : %s)" % (pn, COQ_TY[ck]))
        term = em.function(blk, env)
        if em.needs_ptab and not spec["ptab"]:
            raise Untranslatable("%s: calls the enforcement loop" % spec["name"])
        ty = {"state": OBJ_TY.get(sig["objty"]), "state_res": "renf * outcome bool", "res": "outcome bool",
              "value": "cgctx"}[sig["fmode"]]
        if " ".join(binders) != spec["binders"] or ty != spec["ty"]:
            raise Untranslatable("%s: signature %s : %s (expected %s : %s)" % (spec["name"], " ".join(binders), ty,
                                                                               spec["binders"], spec["ty"]))
        note = ""
        if dropped:
            note = "(* compiled out: %s *)\n" % "; ".join(d.replace("*)", "* )") for d in dropped)
        pt = "(ptab : text -> option expr) " if spec["ptab"] else ""
        key = (spec["selfty"] if spec["selfty"] else sig["objty"], spec["name"])
        return key, sig, "%sDefinition gen_%s %s%s : %s :=\n%s.\n" % (note, spec["gen"], pt, spec["binders"], ty, R.i_indent(term))


def stub(spec):
    pt = "(ptab : text -> option expr) " if spec["ptab"] else ""
    return "Definition gen_%s %s%s : %s := %s.\n" % (spec["gen"], pt, spec["binders"], spec["ty"], spec["stub"] or STUB_RENF)


def expected_sig(spec):
    """the signature a stub stands for (so that callers still translate)"""
    params = []
    for m in re.finditer(r"\(v_(\w+) : ([^)]*)\)", spec["binders"]):
        kind = {v: k for k, v in COQ_TY.items()}[m.group(2)]
        params.append((m.group(1), kind))
    has_obj = spec["binders"].startswith("(x : renf)") or spec["binders"].startswith("(c : cstate)")
    objty = "CachedEnforcer" if spec["binders"].startswith("(c ") else ("Enforcer" if has_obj else None)
    fmode = {"renf": "state", "cstate": "state", "renf * outcome bool": "state_res", "outcome bool": "res", "cgctx": "value"}[spec["ty"]]
    retkind = {"enf_enforce": "bool", "enf_enforce_with_context": "bool", "enf_enforce_mut": "bool", "enf_new_raw": "obj",
               "enf_new": "obj", "ctx_new": "ctx"}.get(spec["gen"], "unit")
    return dict(gen=spec["gen"], params=params, objty=objty, objname=None, recv=has_obj, mut=fmode != "res", fmode=fmode,
                retkind=retkind, asyn=spec["gen"] in ("enf_new_raw", "enf_new"), ptab=spec["ptab"])


def generate():
    out = ["(* GENERATED on every run by tools/rs2coq_enf2.py (rs2coq part 15) from /repo/src/enforcer.rs",
           "   (impl EventEmitter<Event> for Enforcer, EnforceContext::new, Enforcer::register_g_functions with the macro",
           "   register_g_function! of /repo/src/macros.rs expanded, and of impl CoreApi for Enforcer: new_raw, new, enforce,",
           "   enforce_with_context, enforce_mut, build_incremental_role_links) and /repo/src/emitter.rs",
           "   (notify_logger_and_watcher, clear_cache); cfg resolved for the features %s - do not edit." % (
               ", ".join("%s%s" % ("" if v else "!", f) for f, v in sorted(FEATURES.items()))),
           "   x : renf is the Rust-level enforcer (Gen/Enforcer2Rt.v), c : cstate the cached enforcer. *)",
           "From CV Require Import Model.Base Model.Expr Model.Enforce Model.Engine Model.Cached.",
           "From CV Require Import Gen.RustStr Gen.RustVec Gen.InternalPrims Gen.EnforcerPrims Gen.EnforcerGen Gen.EnforceGen.",
           "From CV Require Import Gen.LinksPrims Gen.LinksGen Gen.CachedRt Gen.Enforcer2Rt.", ""]
    ok = True
    tr = Translator()
    for spec in SPECS:
        try:
            key, sig, text = tr.translate(spec)
            tr.sigs[key] = sig
            out.append(text)
        except Exception as ex:   # noqa
            ok = False
            msg = str(ex) if isinstance(ex, Untranslatable) else "%s: %s" % (type(ex).__name__, ex)
            out.append("(* translation of %s failed: %s *)" % (spec["gen"], msg.replace("*)", "* )").replace("(*", "( *")))
            out.append(stub(spec))
            sig = expected_sig(spec)
            key = (spec["selfty"] if spec["selfty"] else sig["objty"], spec["name"])
            tr.sigs[key] = sig
        if spec["gen"] == "emitter_notify_logger_and_watcher":
            # the fn items of type fn(&mut Enforcer, EventData), and the call of one of them through a variable
            tr.callback_items.add(spec["name"])
            tr.dispatcher_ok = True
            out.append("(* cb(self, d) for cb : fn(&mut Enforcer, EventData) *)\n"
                       "Definition %s (cb : callback) (x : renf) (d : evdata) : renf :=\n"
                       "  match cb with\n  | %s => gen_%s x d\n  end.\n" % (DISPATCHER, CALLBACK_CTORS[spec["name"]], spec["gen"]))
    # FunctionMap::default() is restated as Enforcer2Rt.fm_default: the names and arities read from the source
    try:
        table = tr.fm_default_table()
        out.append("(* FunctionMap::default() (src/model/function_map.rs): name, number of ImmutableString parameters;\n"
                   "   each entry calls the function of the same name in snake case on its parameters in order *)\n"
                   "Definition gen_fm_default_table : list (text * nat) :=\n  [%s].\n" % (
                       ";\n   ".join("(%s, %d)" % (R.coq_text(n), a) for n, a in table)))
    except Exception as ex:   # noqa
        ok = False
        msg = str(ex) if isinstance(ex, Untranslatable) else "%s: %s" % (type(ex).__name__, ex)
        out.append("(* translation of FunctionMap::default failed: %s *)" % msg.replace("*)", "* )").replace("(*", "( *"))
        out.append("Definition gen_fm_default_table : list (text * nat) := [].\n")
    out.append("Definition gen_enforcer2_translated : bool := %s." % ("true" if ok else "false"))
    return "\n".join(out) + "\n", ok


def main(dst=None):
    if dst is None:
        dst = sys.argv[1] if len(sys.argv) > 1 else os.path.join(os.path.dirname(HERE), "coq", "Gen")
    if os.path.isdir(dst):
        dst = os.path.join(dst, "Enforcer2Gen.v")
    txt, ok = generate()
    R.write_if_changed(dst, txt, ok)
    return ok


if __name__ == "__main__":
    main()
