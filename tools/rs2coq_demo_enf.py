#!/usr/bin/env python3
"""Robustness / sensitivity demonstration for rs2coq: the string functions
(part 2, labels P.. / N..), the management entry points of
src/internal_api.rs (part 4, labels IP.. / IN..) and the sequencing methods of
`impl CoreApi for Enforcer` in src/enforcer.rs (part 7, labels EP.. / EN..).

For every variant: copy /repo/src to a scratch repo (tempfile.mkdtemp()), edit
one function, run rs2coq on the scratch repo, rebuild the obligation file
(PinChecks/PcStrFnGen.vo, PinChecks/PcInternalGen.vo or PinChecks/PcEnforcerGen.vo) and compare the outcome
with the expectation (meaning-preserving rewrite -> proofs pass; change of
meaning / outside the subset -> a proof fails).  The pristine generated files
are restored at the end.

usage: python3 tools/rs2coq_demo.py [label-prefix ..]
       (development tool; e.g. `rs2coq_demo.py I` runs the part-4 variants only)
"""
import os
import re
import shutil
import subprocess
import sys

HERE = os.path.dirname(os.path.abspath(__file__))
ROOT = os.path.dirname(HERE)
COQ = os.path.join(ROOT, "coq")
import tempfile  # noqa: E402
SCRATCH = tempfile.mkdtemp(prefix="rs2coq_demo_")     # outside /repo and /verif; removed at the end
sys.path.insert(0, HERE)
import pins  # noqa: E402

FILES = {"key_match": "src/model/function_map.rs", "key_get": "src/model/function_map.rs",
         "csv_field": "src/util.rs", "remove_comment": "src/util.rs"}

# (label, expectation, function, new body)
VARIANTS = [
    ("P0 unmodified sources", "pass", None, None),
    ("P1 csv_field: negated condition, branches swapped", "pass", "csv_field", """{
    if !value.contains(',') {
        Cow::Borrowed(value)
    } else {
        Cow::Owned(format!("\\"{}\\"", value))
    }
}"""),
    ("P2 key_match: let-bound prefix, == with swapped operands, negated starts_with", "pass", "key_match", """{
    if let Some(star_at) = key2.find('*') {
        let pre = &key2[..star_at];
        if !key1.starts_with(pre) { false } else { true }
    } else {
        key2 == key1
    }
}"""),
    ("P3 key_get: early returns in both branches of the emptiness test", "pass", "key_get", """{
    if let Some(i) = key2.find('*') {
        if let Some(rest) = key1.strip_prefix(&key2[..i]) {
            if rest.is_empty() {
                return "".to_owned();
            } else {
                return rest.to_owned();
            }
        }
    }
    String::from("")
}"""),
    ("P4 key_get: one expression, NO emptiness test (an empty rest is \"\" anyway)", "pass", "key_get", """{
    if let Some(i) = key2.find('*') {
        if let Some(rest) = key1.strip_prefix(&key2[..i]) {
            rest.to_string()
        } else {
            "".to_string()
        }
    } else {
        "".to_string()
    }
}"""),
    ("P5 remove_comment: early return instead of the shadowing let", "pass", "remove_comment", """{
    if let Some(idx) = s.find('#') {
        return s[..idx].trim_end().to_string();
    }
    s.trim_end().to_owned()
}"""),
    ("P6 key_match: early return, != in the tail", "pass", "key_match", """{
    if let Some(i) = key2.find('*') {
        return key1.starts_with(&key2[..i]);
    }
    !(key1 != key2)
}"""),
    ("P7 key_match: extra (redundant) fast path, else-if chain", "pass", "key_match", """{
    // both empty: no star, equal
    if key1.is_empty() && key2.is_empty() {
        true
    } else if let Some(i) = key2.find('*') {
        key1.starts_with(&key2[..i])
    } else {
        key1 == key2
    }
}"""),
    ("N1 key_match: looks for '/' instead of '*'", "fail", "key_match", """{
    if let Some(i) = key2.find('/') {
        key1.starts_with(&key2[..i])
    } else {
        key1 == key2
    }
}"""),
    ("N2 key_match: prefix test also without a star", "fail", "key_match", """{
    if let Some(i) = key2.find('*') {
        key1.starts_with(&key2[..i])
    } else {
        key1.starts_with(key2)
    }
}"""),
    ("N3 key_get: emptiness test inverted", "fail", "key_get", """{
    if let Some(i) = key2.find('*') {
        if let Some(rest) = key1.strip_prefix(&key2[..i]) {
            if rest.is_empty() {
                return rest.to_string();
            }
        }
    }
    "".to_string()
}"""),
    ("N4 key_get: returns key1 instead of the rest", "fail", "key_get", """{
    if let Some(i) = key2.find('*') {
        if let Some(rest) = key1.strip_prefix(&key2[..i]) {
            if !rest.is_empty() {
                return key1.to_string();
            }
        }
    }
    "".to_string()
}"""),
    ("N5 key_get: star searched in key1, key2 sliced with it (may panic; rejected by the translator)", "fail", "key_get", """{
    if let Some(i) = key1.find('*') {
        if let Some(rest) = key1.strip_prefix(&key2[..i]) {
            if !rest.is_empty() {
                return rest.to_string();
            }
        }
    }
    "".to_string()
}"""),
    ("N6 csv_field: quotes on ';' instead of ','", "fail", "csv_field", """{
    if value.contains(';') {
        Cow::Owned(format!("\\"{}\\"", value))
    } else {
        Cow::Borrowed(value)
    }
}"""),
    ("N7 csv_field: single quotes", "fail", "csv_field", """{
    if value.contains(',') {
        Cow::Owned(format!("'{}'", value))
    } else {
        Cow::Borrowed(value)
    }
}"""),
    ("N8 remove_comment: no trim_end", "fail", "remove_comment", """{
    let s = if let Some(idx) = s.find('#') {
        &s[..idx]
    } else {
        s
    };

    s.to_owned()
}"""),
    ("N9 remove_comment: trims only when there is a comment", "fail", "remove_comment", """{
    if let Some(idx) = s.find('#') {
        return s[..idx].trim_end().to_string();
    }
    s.to_owned()
}"""),
    ("N10 key_match: outside the subset (len / index arithmetic)", "fail", "key_match", """{
    if let Some(i) = key2.find('*') {
        key1.len() >= i && key1[..i] == key2[..i]
    } else {
        key1 == key2
    }
}"""),
]


# ---------------------------------------------------------------- part 4
# (label, expectation, [edit ..]) on src/internal_api.rs; an edit is
#   ("body", fn, new body)            replace the whole body of the entry point
#   ("sub", fn, old, new)             replace old (whitespace-insensitive, exactly one occurrence inside fn) by new
#   ("resub", fn, regex, replacement) the same with a regular expression (re.S)
#   ("prepend", fn, text)             insert text as the first statement of fn
IFILE = "src/internal_api.rs"

IVARIANTS = [
    ("IP0 unmodified sources", "pass", []),
    ("IP1 add_policy_internal: watcher notification as `if !(a && b) {} else { emit }`", "pass", [
        ("sub", "add_policy_internal",
         """if rule_added && self.has_auto_notify_watcher_enabled() {
                    self.emit(Event::PolicyChange, event_data);
                }""",
         """if !(rule_added && self.has_auto_notify_watcher_enabled()) {
                } else {
                    self.emit(Event::PolicyChange, event_data);
                }""")]),
    ("IP2 remove_policy_internal: `let auto_links = self.has_auto_build_role_links_enabled();` bound first", "pass", [
        ("prepend", "remove_policy_internal", "let auto_links = self.has_auto_build_role_links_enabled();"),
        ("sub", "remove_policy_internal", "|| !self.has_auto_build_role_links_enabled()", "|| !auto_links")]),
    ("IP3 add_policies_internal: operands of the guard reordered, \"g\" != sec", "pass", [
        ("sub", "add_policies_internal",
         """if sec != "g"
            || !self.has_auto_build_role_links_enabled()
            || !rules_added""",
         """if !rules_added
            || "g" != sec
            || !self.has_auto_build_role_links_enabled()""")]),
    ("IP4 remove_policies_internal: positive guard around the link update, no early return", "pass", [
        ("resub", "remove_policies_internal", r"""if sec != "g".*Ok\(rules_removed\)\s*\}\s*$""",
         """if sec == "g" && self.has_auto_build_role_links_enabled() && rules_removed {
            self.build_incremental_role_links(EventData::RemovePolicies(
                sec.to_owned(),
                ptype.to_owned(),
                rules,
            ))?;
        }
        Ok(rules_removed)
    }""")]),
    ("IP5 remove_filtered_policy_internal: nested ifs and a let for the adapter's answer", "pass", [
        ("resub", "remove_filtered_policy_internal", r"""^\{\s*if self\.has_auto_save_enabled\(\).*?return Ok\(\(false, vec!\[\]\)\);\s*\}""",
         """{
        if self.has_auto_save_enabled() {
            let saved = self
                .get_mut_adapter()
                .remove_filtered_policy(sec, ptype, field_index, field_values.clone())
                .await?;
            if !saved {
                return Ok((false, vec![]));
            }
        }""")]),
    ("IP6 add_policy_internal: no cfg, one `if rule_added` around both events, Ok(false)/Ok(true) spelled out", "pass", [
        ("body", "add_policy_internal", """{
        if self.has_auto_save_enabled()
            && !self.get_mut_adapter().add_policy(sec, ptype, rule.clone()).await?
        {
            return Ok(false);
        }
        let rule_added = self.get_mut_model().add_policy(sec, ptype, rule.clone());
        if rule_added {
            if self.has_auto_notify_watcher_enabled() {
                self.emit(
                    Event::PolicyChange,
                    EventData::AddPolicy(sec.to_owned(), ptype.to_owned(), rule.clone()),
                );
            }
            self.emit(Event::ClearCache, EventData::ClearCache);
        }
        if !rule_added {
            return Ok(false);
        }
        if sec == "g" && self.has_auto_build_role_links_enabled() {
            self.build_incremental_role_links(EventData::AddPolicy(sec.to_owned(), ptype.to_owned(), rule))?;
        }
        Ok(true)
    }""")]),
    ("IN1 (i) remove_policies_internal: EventData::RemovePolicies(sec, sec, rules) in the incremental update", "fail", [
        ("sub", "remove_policies_internal",
         """self.build_incremental_role_links(EventData::RemovePolicies(
                sec.to_owned(),
                ptype.to_owned(),""",
         """self.build_incremental_role_links(EventData::RemovePolicies(
                sec.to_owned(),
                sec.to_owned(),""")]),
    ("IN2 (ii) remove_policy_internal: EventData::RemovePolicy(sec, sec, rule) in the WATCHER event", "fail", [
        ("sub", "remove_policy_internal",
         "EventData::RemovePolicy(sec.to_owned(), ptype.to_owned(), {",
         "EventData::RemovePolicy(sec.to_owned(), sec.to_owned(), {")]),
    ("IN3 (iii) remove_policies_internal: `!rules_removed` dropped from the guard before the link update", "fail", [
        ("sub", "remove_policies_internal",
         """|| !self.has_auto_build_role_links_enabled()
            || !rules_removed""",
         "|| !self.has_auto_build_role_links_enabled()")]),
    ("IN4 (iv) add_policy_internal: the model call placed before the adapter call", "fail", [
        ("body", "add_policy_internal", """{
        let rule_added = self.get_mut_model().add_policy(sec, ptype, rule.clone());
        if self.has_auto_save_enabled()
            && !self.get_mut_adapter().add_policy(sec, ptype, rule.clone()).await?
        {
            return Ok(false);
        }
        if rule_added && self.has_auto_notify_watcher_enabled() {
            self.emit(
                Event::PolicyChange,
                EventData::AddPolicy(sec.to_owned(), ptype.to_owned(), rule.clone()),
            );
        }
        if rule_added {
            self.emit(Event::ClearCache, EventData::ClearCache);
        }
        if sec != "g" || !self.has_auto_build_role_links_enabled() || !rule_added {
            return Ok(rule_added);
        }
        self.build_incremental_role_links(EventData::AddPolicy(sec.to_owned(), ptype.to_owned(), rule))?;
        Ok(rule_added)
    }""")]),
    ("IN5 (v) remove_filtered_policy_internal: ClearCache emitted after the `?` of the link update", "fail", [
        ("resub", "remove_filtered_policy_internal",
         r"""#\[cfg\(feature = "cached"\)\]\s*\{\s*if rules_removed \{\s*self\.emit\(Event::ClearCache, EventData::ClearCache\);\s*\}\s*\}""", ""),
        ("resub", "remove_filtered_policy_internal", r"""Ok\(\(rules_removed, rules\)\)\s*\}\s*$""",
         """if rules_removed {
            self.emit(Event::ClearCache, EventData::ClearCache);
        }
        Ok((rules_removed, rules))
    }""")]),
    ("IN6 add_policies_internal: watcher notified AFTER the link update", "fail", [
        ("body", "add_policies_internal", """{
        if self.has_auto_save_enabled()
            && !self.get_mut_adapter().add_policies(sec, ptype, rules.clone()).await?
        {
            return Ok(false);
        }
        let rules_added = self.get_mut_model().add_policies(sec, ptype, rules.clone());
        if rules_added {
            self.emit(Event::ClearCache, EventData::ClearCache);
        }
        if sec == "g" && self.has_auto_build_role_links_enabled() && rules_added {
            self.build_incremental_role_links(EventData::AddPolicies(sec.to_owned(), ptype.to_owned(), rules.clone()))?;
        }
        if rules_added && self.has_auto_notify_watcher_enabled() {
            self.emit(Event::PolicyChange, EventData::AddPolicies(sec.to_owned(), ptype.to_owned(), rules));
        }
        Ok(rules_added)
    }""")]),
    ("IN7 remove_policy_internal: auto-notify test dropped", "fail", [
        ("sub", "remove_policy_internal", "if rule_removed && self.has_auto_notify_watcher_enabled() {", "if rule_removed {")]),
    ("IN8 add_policies_internal: a refusing adapter answers Ok(true)", "fail", [
        ("sub", "add_policies_internal", "return Ok(false);", "return Ok(true);")]),
    ("IN9 remove_policies_internal: sec and ptype swapped in the model call", "fail", [
        ("sub", "remove_policies_internal", "self.get_mut_model().remove_policies(sec, ptype, {",
         "self.get_mut_model().remove_policies(ptype, sec, {")]),
    ("IN10 remove_policy_internal: ClearCache compiled out (cfg(not(feature = \"cached\")))", "fail", [
        ("sub", "remove_policy_internal", '#[cfg(feature = "cached")]', '#[cfg(not(feature = "cached"))]')]),
    ("IN11 add_policy_internal: ClearCache emitted unconditionally", "fail", [
        ("sub", "add_policy_internal",
         """if rule_added {
                self.emit(Event::ClearCache, EventData::ClearCache);
            }""",
         "self.emit(Event::ClearCache, EventData::ClearCache);")]),
    ("IN12 remove_policy_internal: error of the link update ignored (outside the subset)", "fail", [
        ("resub", "remove_policy_internal", r"""(self\.build_incremental_role_links\(EventData::RemovePolicy\(\s*sec\.to_owned\(\),\s*ptype\.to_owned\(\),\s*rule,\s*\)\))\?;""",
         r"let _ = \1;")]),
    ("IN13 add_policies_internal: full rebuild instead of the incremental update (cfg(not(incremental)) chosen)", "fail", [
        ("sub", "add_policies_internal", '#[cfg(not(feature = "incremental"))]\n        {\n            self.build_role_links()?;',
         '#[cfg(feature = "incremental")]\n        {\n            self.build_role_links()?;'),
        ("resub", "add_policies_internal", r"""#\[cfg\(feature = "incremental"\)\]\s*\{\s*self\.build_incremental_role_links""",
         '#[cfg(not(feature = "incremental"))]\n        {\n            self.build_incremental_role_links')]),
    ("IN14 remove_filtered_policy_internal: adapter asked only AFTER a successful removal (outside: if let)", "fail", [
        ("sub", "remove_filtered_policy_internal", "if sec != \"g\" || !self.has_auto_build_role_links_enabled() {",
         "if let Some(_) = rules.first() {} if sec != \"g\" || !self.has_auto_build_role_links_enabled() {")]),
]


# ---------------------------------------------------------------- part 7
# (label, expectation, [edit ..]) on src/enforcer.rs, `impl CoreApi for Enforcer`; edits as in part 4
EFILE = "src/enforcer.rs"

EVARIANTS = [
    ("EP0 unmodified sources", "pass", []),
    ("EP1 load_policy: accessors, let-bound adapter result, early `return Ok(())`, build_role_links() as the value", "pass", [
        ("body", "load_policy", """{
        let backup = self.get_model().get_model().clone();
        self.get_mut_model().clear_policy();
        let res = self.get_mut_adapter().load_policy(&mut *self.model).await;
        if let Err(e) = res {
            *self.model.get_mut_model() = backup;
            return Err(e);
        }
        if !self.has_auto_build_role_links_enabled() {
            return Ok(());
        }
        self.build_role_links()
    }""")]),
    ("EP2 clear_policy: `if let Err(e) = .. { return Err(e); }` for the `?`, accessor for the flag, build_role_links inlined, no cfg", "pass", [
        ("body", "clear_policy", """{
        if self.has_auto_save_enabled() {
            if let Err(e) = self.adapter.clear_policy().await {
                return Err(e);
            }
        }
        self.model.clear_policy();
        if self.auto_build_role_links {
            self.rm.write().clear();
            self.model.build_role_links(Arc::clone(&self.rm))?;
        }
        self.emit(Event::PolicyChange, EventData::ClearPolicy);
        Ok(())
    }""")]),
    ("EP3 save_policy: `if filtered { panic! }` for the assert!, one local extended by a call", "pass", [
        ("body", "save_policy", """{
        if self.adapter.is_filtered() {
            panic!("cannot save filtered policy");
        }
        self.adapter.save_policy(&mut *self.model).await?;
        let mut all = self.get_all_policy();
        all.extend(self.get_all_grouping_policy());
        self.emit(Event::PolicyChange, EventData::SavePolicy(all));
        Ok(())
    }""")]),
    ("EP4 enable_auto_notify_watcher: the test on the argument the other way round, nested", "pass", [
        ("body", "enable_auto_notify_watcher", """{
        if auto_notify_watcher {
            if !self.has_auto_notify_watcher_enabled() {
                self.on(Event::PolicyChange, notify_logger_and_watcher);
            }
        } else {
            self.off(Event::PolicyChange);
        }
        self.auto_notify_watcher = auto_notify_watcher;
    }""")]),
    ("EP5 set_role_manager: the flag read before the swap, register_g_functions()?; Ok(())", "pass", [
        ("body", "set_role_manager", """{
        let links = self.auto_build_role_links;
        self.rm = rm;
        if links {
            self.build_role_links()?;
        }
        self.register_g_functions()?;
        Ok(())
    }""")]),
    ("EP6 set_model / set_adapter: the last call as the value of the function", "pass", [
        ("body", "set_model", """{
        self.model = m.try_into_model().await?;
        self.load_policy().await?;
        self.register_g_functions()
    }"""),
        ("body", "set_adapter", """{
        self.adapter = a.try_into_adapter().await?;
        self.load_policy().await
    }""")]),
    ("EP7 load_filtered_policy: if let .. else, positive guard as the value (if-expression)", "pass", [
        ("body", "load_filtered_policy", """{
        let backup = self.model.get_model().clone();
        self.model.clear_policy();
        if let Err(e) = self.adapter.load_filtered_policy(&mut *self.model, f).await {
            *self.model.get_mut_model() = backup;
            Err(e)
        } else if self.auto_build_role_links {
            self.build_role_links()
        } else {
            Ok(())
        }
    }""")]),
    ("EP8 set_adapter: the body of load_policy inlined (no callee equation applies: everything is opened; slow)", "pass", [
        ("body", "set_adapter", """{
        self.adapter = a.try_into_adapter().await?;
        let backup = self.model.get_model().clone();
        self.model.clear_policy();
        if let Err(e) = self.adapter.load_policy(&mut *self.model).await {
            *self.model.get_mut_model() = backup;
            return Err(e);
        }
        if self.auto_build_role_links {
            self.build_role_links()?;
        }
        Ok(())
    }""")]),
    ("EN1 (i) load_policy: the backup is not restored on Err", "fail", [
        ("sub", "load_policy", "*self.model.get_mut_model() = backup;", "")]),
    ("EN2 (ii) load_policy: the backup is taken AFTER clear_policy (restores nothing)", "fail", [
        ("sub", "load_policy", """let backup = self.model.get_model().clone();
        self.model.clear_policy();""", """self.model.clear_policy();
        let backup = self.model.get_model().clone();""")]),
    ("EN3 (iii) clear_policy: no build_role_links", "fail", [
        ("sub", "clear_policy", """if self.auto_build_role_links {
            self.build_role_links()?;
        }""", "")]),
    ("EN4 (iv) clear_policy: the model is cleared even when the adapter call failed (no `?`)", "fail", [
        ("sub", "clear_policy", "self.adapter.clear_policy().await?;", "let _ = self.adapter.clear_policy().await;")]),
    ("EN5 (v) set_role_manager: register_g_functions BEFORE self.rm is replaced", "fail", [
        ("body", "set_role_manager", """{
        self.register_g_functions()?;
        self.rm = rm;
        if self.auto_build_role_links {
            self.build_role_links()?;
        }
        Ok(())
    }""")]),
    ("EN6 (vi) set_model: no register_g_functions", "fail", [
        ("sub", "set_model", "self.register_g_functions()?;", "")]),
    ("EN7 (vii) enable_auto_notify_watcher: a callback registered on every `true`", "fail", [
        ("sub", "enable_auto_notify_watcher", "} else if !self.auto_notify_watcher {", "} else {")]),
    ("EN8 (viii) save_policy: SavePolicy carries get_all_policy() only (no grouping rules)", "fail", [
        ("sub", "save_policy", "policies.extend(gpolicies);", "")]),
    ("EN9 (ix) save_policy: no filtered assertion", "fail", [
        ("sub", "save_policy", 'assert!(!self.is_filtered(), "cannot save filtered policy");', "")]),
    ("EN10 load_filtered_policy: role links rebuilt whatever the auto-build switch says", "fail", [
        ("sub", "load_filtered_policy", """if self.auto_build_role_links {
            self.build_role_links()?;
        }""", "self.build_role_links()?;")]),
    ("EN11 save_policy: the watcher is told BEFORE the adapter saved", "fail", [
        ("body", "save_policy", """{
        assert!(!self.is_filtered(), "cannot save filtered policy");
        let mut policies = self.get_all_policy();
        let gpolicies = self.get_all_grouping_policy();
        policies.extend(gpolicies);
        self.emit(Event::PolicyChange, EventData::SavePolicy(policies));
        self.adapter.save_policy(&mut *self.model).await?;
        Ok(())
    }""")]),
    ("EN12 save_policy: grouping rules first in the SavePolicy payload", "fail", [
        ("body", "save_policy", """{
        assert!(!self.is_filtered(), "cannot save filtered policy");
        self.adapter.save_policy(&mut *self.model).await?;
        let mut policies = self.get_all_grouping_policy();
        policies.extend(self.get_all_policy());
        self.emit(Event::PolicyChange, EventData::SavePolicy(policies));
        Ok(())
    }""")]),
    ("EN13 clear_policy: the adapter is cleared whatever the auto-save switch says", "fail", [
        ("sub", "clear_policy", """if self.auto_save {
            self.adapter.clear_policy().await?;
        }""", "self.adapter.clear_policy().await?;")]),
    ("EN14 clear_policy: ClearPolicy emitted before the `?` of build_role_links", "fail", [
        ("body", "clear_policy", """{
        if self.auto_save {
            self.adapter.clear_policy().await?;
        }
        self.model.clear_policy();
        self.emit(Event::PolicyChange, EventData::ClearPolicy);
        if self.auto_build_role_links {
            self.build_role_links()?;
        }
        Ok(())
    }""")]),
    ("EN15 build_role_links: the manager is not cleared first", "fail", [
        ("sub", "build_role_links", "self.rm.write().clear();", "")]),
    ("EN16 enable_auto_save: writes the auto-build switch", "fail", [
        ("sub", "enable_auto_save", "self.auto_save = auto_save;", "self.auto_build_role_links = auto_save;")]),
    ("EN17 enable_auto_notify_watcher: the switch is set before it is tested", "fail", [
        ("body", "enable_auto_notify_watcher", """{
        self.auto_notify_watcher = auto_notify_watcher;
        if !auto_notify_watcher {
            self.off(Event::PolicyChange);
        } else if !self.auto_notify_watcher {
            self.on(Event::PolicyChange, notify_logger_and_watcher);
        }
    }""")]),
    ("EN18 add_function: the engine registration dropped (outside the subset: one table in the model)", "fail", [
        ("sub", "add_function", "Self::register_function(&mut self.engine, fname, f);", "")]),
    ("EN19 set_adapter: the policy is not reloaded", "fail", [
        ("sub", "set_adapter", "self.load_policy().await?;", "")]),
    ("EN20 set_model: register_g_functions before the load (its error would come first)", "fail", [
        ("body", "set_model", """{
        self.model = m.try_into_model().await?;
        self.register_g_functions()?;
        self.load_policy().await?;
        Ok(())
    }""")]),
    ("EN21 load_policy: error of build_role_links ignored", "fail", [
        ("sub", "load_policy", "self.build_role_links()?;", "let _ = self.build_role_links();")]),
    ("EN22 save_policy: the emit compiled out (cfg(feature = \"logging\") only)", "fail", [
        ("sub", "save_policy", '#[cfg(any(feature = "logging", feature = "watcher"))]', '#[cfg(feature = "logging")]')]),
    ("EN23 load_policy: outside the subset (a match on the adapter's answer)", "fail", [
        ("sub", "load_policy", "if let Err(e) = self.adapter.load_policy(&mut *self.model).await {",
         "if let Some(e) = self.adapter.load_policy(&mut *self.model).await.err() {")]),
]


def apply_enforcer_edits(src, edits):
    for ed in edits:
        imp = re.search(r"impl\s+CoreApi\s+for\s+Enforcer\b", src)
        fn = ed[1]
        m = re.search(r"(?:async\s+)?fn\s+%s\s*(?:<[^>]*>)?\s*\(" % fn, src[imp.end():])
        i = src.index("{", imp.end() + m.end())
        old = pins.balanced(src, i)
        assert old is not None, fn
        if ed[0] == "body":
            new = ed[2]
        elif ed[0] == "sub":
            rx = ws_regex(ed[2])
            assert len(re.findall(rx, old)) == 1, (fn, ed[2][:40], len(re.findall(rx, old)))
            new = re.sub(rx, lambda _m: ed[3], old)
        elif ed[0] == "resub":
            assert len(re.findall(ed[2], old, re.S)) == 1, (fn, ed[2][:40], len(re.findall(ed[2], old, re.S)))
            new = re.sub(ed[2], ed[3], old, flags=re.S)
        else:
            raise AssertionError(ed[0])
        src = src[:i] + new + src[i + len(old):]
    return src


def ws_regex(old):
    return r"\s*".join(re.escape(t) for t in re.findall(r"\w+|[^\w\s]", old))


def apply_internal_edits(src, edits):
    for ed in edits:
        imp = re.search(r"impl\s*<\s*T\s*>\s*InternalApi\s+for\s+T", src)
        fn = ed[1]
        m = re.search(r"async\s+fn\s+%s\s*\(" % fn, src[imp.end():])
        i = src.index("{", imp.end() + m.end())
        old = pins.balanced(src, i)
        assert old is not None and src.count(old) == 1, fn
        if ed[0] == "body":
            new = ed[2]
        elif ed[0] == "prepend":
            new = "{\n        " + ed[2] + old[1:]
        elif ed[0] == "sub":
            rx = ws_regex(ed[2])
            assert len(re.findall(rx, old)) == 1, (fn, ed[2][:40], len(re.findall(rx, old)))
            new = re.sub(rx, lambda _m: ed[3], old)
        elif ed[0] == "resub":
            assert len(re.findall(ed[2], old, re.S)) == 1, (fn, ed[2][:40], len(re.findall(ed[2], old, re.S)))
            new = re.sub(ed[2], ed[3], old, flags=re.S)
        else:
            raise AssertionError(ed[0])
        src = src.replace(old, new)
    return src


def run(cmd, **kw):
    return subprocess.run(cmd, stdout=subprocess.PIPE, stderr=subprocess.STDOUT, text=True, **kw)


def first_error(out, vfile):
    """theorem and message of the first Coq error in vfile"""
    m = re.search(r'File "\./%s", line (\d+).*?\n(Error:.*?)(?:\nmake|\Z)' % re.escape(vfile), out, re.S)
    if not m:
        return str(out.strip().split("\n")[-3:])
    lines = open(os.path.join(COQ, vfile)).read().split("\n")
    thm = ""
    for k in range(int(m.group(1)) - 1, -1, -1):
        mm = re.match(r"\s*(?:Theorem|Lemma|Example)\s+(\w+)", lines[k])
        if mm:
            thm = mm.group(1)
            break
    msg = " ".join(m.group(2).split())
    um = re.search(r"Unable to unify.*", msg)
    if um and len(msg) > 110:
        msg = "(unprovable leaf) " + re.sub(r"\{\|.*?\|\}", "{|..|}", um.group(0))
    return "%s: %s" % (thm, msg[:150])


def main():
    only = sys.argv[1:]
    results = []
    suites = [(label, expect, ("str", fn, body)) for label, expect, fn, body in VARIANTS] + \
             [(label, expect, ("internal", edits)) for label, expect, edits in IVARIANTS] + \
             [(label, expect, ("enforcer", edits)) for label, expect, edits in EVARIANTS]
    for label, expect, what in suites:
        if only and not any(label.startswith(o) for o in only):
            continue
        shutil.rmtree(SCRATCH, ignore_errors=True)
        shutil.copytree("/repo/src", os.path.join(SCRATCH, "src"))
        if what[0] == "str":
            fn, body = what[1], what[2]
            vfile, gfile = "PinChecks/PcStrFnGen.v", "StrFnGen.v"
            if fn is not None:
                path = os.path.join(SCRATCH, FILES[fn])
                src = open(path, encoding="utf-8").read()
                old = pins.fn_body(src, r"pub\s+fn\s+%s\s*\(" % fn)
                assert old is not None and src.count(old) == 1, fn
                open(path, "w", encoding="utf-8").write(src.replace(old, body))
        elif what[0] == "enforcer":
            vfile, gfile = "PinChecks/PcEnforcerGen.v", "EnforcerGen.v"
            path = os.path.join(SCRATCH, EFILE)
            src = open(path, encoding="utf-8").read()
            new = apply_enforcer_edits(src, what[1])
            assert (new != src) == bool(what[1]), label
            open(path, "w", encoding="utf-8").write(new)
        else:
            vfile, gfile = "PinChecks/PcInternalGen.v", "InternalGen.v"
            path = os.path.join(SCRATCH, IFILE)
            src = open(path, encoding="utf-8").read()
            new = apply_internal_edits(src, what[1])
            assert (new != src) == bool(what[1]), label
            open(path, "w", encoding="utf-8").write(new)
        env = dict(os.environ, VERIF_REPO=SCRATCH)
        run([sys.executable, os.path.join(HERE, "rs2coq.py"), os.path.join(COQ, "Gen", "EffectorGen.v")], env=env)
        mk = run(["timeout", "900", "make", vfile + "o"], cwd=COQ)
        ok = mk.returncode == 0
        why = "" if ok else first_error(mk.stdout, vfile)
        gen = open(os.path.join(COQ, "Gen", gfile)).read()
        note = ""
        fm = re.search(r"\(\* translation of (\w+) failed: (.*?) \*\)", gen, re.S)
        if fm:
            note = " [untranslatable %s: %s]" % (fm.group(1), fm.group(2))
        verdict = "pass" if ok else "fail"
        flag = "as expected" if verdict == expect else "UNEXPECTED"
        print("%-4s (%s) %s%s%s" % (verdict.upper(), flag, label, (" -> " + str(why)) if why else "", note))
        sys.stdout.flush()
        results.append(verdict == expect)
    # restore the pristine generated files
    env = dict(os.environ, VERIF_REPO="/repo")
    run([sys.executable, os.path.join(HERE, "rs2coq.py"), os.path.join(COQ, "Gen", "EffectorGen.v")], env=env)
    mk = run(["timeout", "900", "make", "PinChecks/PcStrFnGen.vo", "PinChecks/PcEffectorGen.vo",
              "PinChecks/PcInternalGen.vo", "PinChecks/PcEnforcerGen.vo"], cwd=COQ)
    print("restored from /repo:", "build ok" if mk.returncode == 0 else "BUILD FAILED")
    shutil.rmtree(SCRATCH, ignore_errors=True)
    print("%d/%d variants behaved as expected" % (sum(results), len(results)))
    return 0 if all(results) and mk.returncode == 0 else 1


if __name__ == "__main__":
    sys.exit(main())
