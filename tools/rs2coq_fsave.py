#!/usr/bin/env python3
"""rs2coq, part 17: the WRITE side and the file reading of the file adapter, the save / clear side of the string
adapter and the incremental stubs of both -> coq/Gen/FsaveGen.v (over coq/Gen/FsRt.v, the hand-written TRUSTED
file system / error / string-building runtime, and the files of part 9: Gen/AdaptersPrims.v, Gen/AdaptersGen.v);
proved equal to the adapter model (Model/Engine.v: ad0_save, ad0_clear, ad0_load, ad0_load_filtered, ad0_add ..
ad0_remove_filtered on AFile / AString; Model/Csv.v: render_line_file / render_line_string; Model/FileSave.v:
save_new) in coq/PinChecks/PcFsaveGen.v (lemmas in coq/Proofs/FsaveP.v, statements in coq/Properties/FsaveGen.v).

Translated (cfg: feature runtime-tokio, not runtime-async-std, not wasm32)
  src/adapter/file_adapter.rs    FileAdapter::load_policy_file, load_filtered_policy_file, save_policy_file and, of
                                 `impl Adapter for FileAdapter`, load_policy, load_filtered_policy, save_policy,
                                 clear_policy, add_policy, add_policies, remove_policy, remove_policies,
                                 remove_filtered_policy, is_filtered
  src/adapter/string_adapter.rs  of `impl Adapter for StringAdapter`: save_policy, clear_policy, the five
                                 incremental methods, is_filtered
(the line handlers and the string adapter's loaders are part 9's.)

A translated method is a Gallina function of the fields of self (st_<field>), of the model behind `m: &mut dyn
Model` (st_m), of the WORLD (st_w: Gen/FsRt.v - file system, log of calls, fault script) when the method does I/O,
and of its parameters (`f: Filter` is two lists, a handler `fn(..)` is a Coq function with the signature part 9
gives the line handlers); it returns `option (final state * value)`, None = a panic, where the state is the tuple of
the fields of a `&mut self`, then st_m, then st_w, and the value of a `Result<T>` is a `res casbin_error T`.

Everything comes from the Rust text, read on every run by a lexer / parser (that of parts 2, 3 and 9, extended):
every literal (".tmp", "{}, {}", ",", ", ", the messages), the order of the calls and of their arguments, every `?`
(and what it converts to), every early return, the loop shapes, which `#[cfg]` alternative is compiled, and what
`file`, `rename`, `remove_file`, `ioBufReader`, `ioError` .. stand for (the `use` declarations, with their cfg).

Subset: that of part 9 (rs2coq_adapters.py) plus
  items        `use` trees with #[cfg(..)] (feature = "..", target_arch = "..", not / all / any); `type X = fn(..) [-> T];`
               impl<P> .. where P: AsRef<ioPath> (P is a path)
  statements   #[cfg(..)] STATEMENT      let _ = E;      E?;      x.push("lit") on an OsString
               while let Some(x) = LINES.next_line().await? { .. }    (LINES: a `let mut` Lines not assigned in the body)
               if let Err(e) | Ok(x) = E { .. } [else { .. }]      if EFFECTFUL-CONDITION { .. }
               let x: Result<T, E> = async { ..; value }.await;     (its `?` return from the block)
               writeln!(buf, "literal with {}", args..)[.map_err(|e| ..)]?;   on a `let mut` String
  expressions  E?  E.await  Ok(e)  Err(e)  e.into() (io::Error -> crate::Error, fmt::Error / String -> Box<dyn Error>)
               file::create(p) / file::open(p) / rename(a, b) / remove_file(p) / f.write_all(b) / f.flush() /
               ioBufReader::new(f).lines() / lines.next_line()  (resolved through the `use` declarations to tokio's)
               self.METHOD(args) for a method translated before (in the order of the table), HANDLER(args) for a
               parameter of `fn` type, FREE_FN as an argument (a line handler translated by part 9)
               o.ok_or_else(|| e)  r.map_err(|e| e')  v.join("lit")  csv_field(v)  collect::<Vec<_>>()
               ioError::new(ioErrorKind::K, "msg")  ModelError::P(s)  AdapterError(b)  crate::Error::AdapterError(a)
               Box::new(AdapterError(..))  p.as_ref()  .as_os_str()  .to_owned()  s.as_bytes()
An effectful expression (a call that touches the world, the model or a buffer, or a `?`) is only accepted where its
place in the evaluation order is unambiguous: as a whole statement, the right-hand side of a let / assignment, a
condition, a returned value, the scrutinee of if let / while let, or the receiver of `?` / `.await` / map_err.
Anything else: Untranslatable -> a stub of the same signature and `gen_fsave_translated := false`.
"""
import os
import re
import sys

sys.path.insert(0, os.path.dirname(os.path.abspath(__file__)))
import pins  # noqa: E402
import rs2coq  # noqa: E402
from rs2coq import Untranslatable, coq_text  # noqa: E402
import rs2coq_adapters as A  # noqa: E402
from rs2coq_adapters import (SPA, EmitA, VT, VVT, OSET, resolve, unify, tyname as tyname_a, coq_ty as coq_ty_a,  # noqa: E402
                             tailify, close, lval_key, effect_of, ast_policy_place, has_partial, fill_nils, NILS,
                             find_fn)

FA = "src/adapter/file_adapter.rs"
SA = "src/adapter/string_adapter.rs"

# the configuration the crate is built with (Cargo.toml: default = ["runtime-tokio", ..]; not wasm32)
CFG_FEATURES = {"runtime-tokio": True, "runtime-async-std": False}
CFG_KEYS = {"target_arch": "x86_64"}

WORLD = "<world>"

# ------------------------------------------------------------------ types
# besides those of part 9: "world", "path" (P: AsRef<Path>, &Path), "osstr", "osstring", "bytes", "file", "bufreader",
# "lines", "ioerr", "fmterr", "boxerr", "adaptererr", "modelerr", "cerr", ("res", T, E), ("handler", ptys, ret)
PATHLIKE = ("path", "osstr", "osstring", "text")
ERR_COQ = {"ioerr": "io_error", "fmterr": "fmt_error", "boxerr": "box_error", "adaptererr": "adapter_error",
           "modelerr": "model_error", "cerr": "casbin_error"}
# From impls used by `?` and `.into()`: (from, to) -> constructor
CONV = {("ioerr", "cerr"): "ErrIo", ("modelerr", "cerr"): "ErrModel", ("adaptererr", "cerr"): "ErrAdapter",
        ("fmterr", "boxerr"): "BoxFmt", ("text", "boxerr"): "BoxStr"}


def tyname(t):
    t = resolve(t)
    if isinstance(t, tuple) and t[0] == "res":
        return "Result<%s, %s>" % (tyname(t[1]), tyname(t[2]))
    if isinstance(t, tuple) and t[0] == "handler":
        return "fn(%s)" % ", ".join(tyname(x) for x in t[1])
    return tyname_a(t)


def coq_ty(t):
    t = resolve(t)
    if t == "world":
        return "world"
    if t in PATHLIKE or t in ("bytes", "file", "bufreader"):
        return "text"
    if t == "lines":
        return "list text"
    if t in ERR_COQ:
        return ERR_COQ[t]
    if isinstance(t, tuple) and t[0] == "res":
        return "res %s %s" % (coq_ty_atom(t[2]), coq_ty_atom(t[1]))
    return coq_ty_a(t)


def coq_ty_atom(t):
    s = coq_ty(t)
    return s if " " not in s or s.startswith("(") else "(%s)" % s


def conv(term, src, dst):
    src, dst = resolve(src), resolve(dst)
    if src == dst:
        return term
    if (src, dst) in CONV:
        return "(%s %s)" % (CONV[(src, dst)], term)
    raise Untranslatable("no conversion from %s to %s" % (tyname(src), tyname(dst)))


# ------------------------------------------------------------------ cfg
def cfg_eval(toks):
    """value of the predicate of #[cfg(..)] given as a list of tokens"""
    pos = [0]

    def peek():
        return toks[pos[0]] if pos[0] < len(toks) else ("eof", "")

    def eat(v=None):
        t = peek()
        if v is not None and t[1] != v:
            raise Untranslatable("cfg: expected %r, found %r" % (v, t[1]))
        pos[0] += 1
        return t

    def pred():
        kind, v = eat()
        if kind != "id":
            raise Untranslatable("cfg predicate " + v)
        if v in ("not", "all", "any"):
            eat("(")
            subs = []
            while peek() != ("op", ")"):
                subs.append(pred())
                if peek() == ("op", ","):
                    eat()
            eat(")")
            if v == "not":
                if len(subs) != 1:
                    raise Untranslatable("cfg: not(..) with %d arguments" % len(subs))
                return not subs[0]
            return all(subs) if v == "all" else any(subs)
        if peek() == ("op", "="):
            eat()
            k2, lit = eat()
            if k2 != "str":
                raise Untranslatable("cfg: %s = %s" % (v, lit))
            lit = pins.rust_unescape(lit[1:-1])
            if v == "feature":
                if lit not in CFG_FEATURES:
                    raise Untranslatable("cfg: unknown feature %r" % lit)
                return CFG_FEATURES[lit]
            if v in CFG_KEYS:
                return CFG_KEYS[v] == lit
            raise Untranslatable("cfg: unknown key " + v)
        if v == "test":
            return False
        raise Untranslatable("cfg: unknown predicate " + v)
    out = pred()
    if peek()[0] != "eof":
        raise Untranslatable("cfg: trailing tokens")
    return out


# ------------------------------------------------------------------ lexer (that of part 2 plus # -> =>)
STOK = re.compile(r"""\s*(?:(//[^\n]*)|(/\*.*?\*/)|("(?:[^"\\]|\\.)*")|('(?:[^'\\]|\\.)')|(\d+)"""
                  r"""|([A-Za-z_]\w*(?:::[A-Za-z_]\w*)*!?)|(\|\||&&|==|!=|->|=>|\.\.|[{}()\[\];=!&.,<>*+\-:?|#']))""", re.S)


def slex(src):
    out = []
    i = 0
    while i < len(src):
        if src[i:].strip() == "":
            break
        m = STOK.match(src, i)
        if not m:
            raise Untranslatable("cannot tokenise at: %r" % src[i:i + 30])
        i = m.end()
        if m.group(1) or m.group(2):
            continue
        for k, kind in ((3, "str"), (4, "chr"), (5, "int"), (6, "id"), (7, "op")):
            if m.group(k) is not None:
                out.append((kind, m.group(k)))
                break
    return out


# ------------------------------------------------------------------ items: use trees, type aliases
def top_level_items(src):
    """(cfg-value, item text) for the `use` and `type` items of the file (items start in column 0: rustfmt), each
       with the #[cfg(..)] attributes on the lines just before it"""
    src = pins.strip_rust_comments(src)
    out = []
    for m in re.finditer(r"^((?:#\[[^\n]*\][ \t]*\n)*)((?:pub(?:\([^)]*\))?\s+)?(?:use|type)\s[^;]*);", src, re.M):
        ok = True
        for attr in re.findall(r"#\[(.*)\]", m.group(1)):
            cm = re.match(r"\s*cfg\s*\((.*)\)\s*$", attr, re.S)
            if cm:
                ok = ok and cfg_eval(slex(cm.group(1)))
        out.append((ok, m.group(2).strip()))
    return out


def use_aliases(src):
    """name in scope -> full path, from the `use` declarations whose cfg holds"""
    out = {}

    def tree(prefix, toks, pos):
        # path segments
        segs = []
        while True:
            kind, v = toks[pos]
            if (kind, v) == ("op", "{"):
                pos += 1
                while toks[pos] != ("op", "}"):
                    pos = tree(prefix + segs, toks, pos)
                    if toks[pos] == ("op", ","):
                        pos += 1
                return pos + 1
            if (kind, v) == ("op", "*"):
                raise Untranslatable("glob import (its names cannot be resolved from this file)")
            if kind != "id":
                raise Untranslatable("use tree at " + v)
            segs += v.split("::")
            pos += 1
            if toks[pos] == ("op", ":") and toks[pos + 1] == ("op", ":"):
                pos += 2
                continue
            break
        name = segs[-1]
        if toks[pos] == ("id", "as"):
            name = toks[pos + 1][1]
            pos += 2
        full = prefix + segs
        if name == "self":
            full = prefix + segs[:-1]
            name = full[-1]
        out[name] = "::".join(full)
        return pos
    for ok, item in top_level_items(src):
        m = re.match(r"(?:pub(?:\([^)]*\))?\s+)?use\s+(.*)$", item, re.S)
        if not m or not ok:
            continue
        toks = slex(m.group(1)) + [("eof", ""), ("eof", "")]
        # `a::{..}` is lexed as id `a`, `:`, `:`, `{`
        pos = tree([], toks, 0)
        if toks[pos][0] != "eof":
            raise Untranslatable("use declaration %r" % item[:60])
    return out


def type_aliases(src):
    """`type X[<'a>] = fn(params) [-> T];` -> X: (parameter type texts, return type text | None)"""
    out = {}
    for ok, item in top_level_items(src):
        m = re.match(r"(?:pub(?:\([^)]*\))?\s+)?type\s+(\w+)\s*(?:<[^>]*>)?\s*=\s*fn\s*\((.*)\)\s*(?:->\s*(.+?))?\s*$", item, re.S)
        if not m or not ok:
            continue
        params, depth, cur = [], 0, ""
        for c in m.group(2):
            if c == "," and depth == 0:
                params.append(cur)
                cur = ""
                continue
            depth += (c in "<([") - (c in ">)]")
            cur += c
        if cur.strip():
            params.append(cur)
        # a parameter of a fn type may be named: `f: &Filter<'a>`
        params = [re.sub(r"^\s*\w+\s*:\s*(?!:)", "", p).strip() for p in params]
        out[m.group(1)] = (params, m.group(3))
    return out


# ------------------------------------------------------------------ Rust types from their text
def rust_type(s, generics, aliases, talias):
    s0 = s
    s = re.sub(r"&\s*'\w+\s*", "&", s)
    s = re.sub(r"\s+", "", s)
    s = re.sub(r"&(?:mut(?=[A-Za-z\[(]))?", "", s)
    if s in generics:
        return generics[s]
    if s in talias:
        ps, rt = talias[s]
        ptys = tuple(rust_type(p, generics, aliases, talias) for p in ps)
        return ("handler", ptys, rust_type(rt, generics, aliases, talias) if rt else "unit")
    m = re.match(r"(\w+)<'\w+>$", s)
    if m and m.group(1) in talias:
        return rust_type(m.group(1), generics, aliases, talias)
    m = re.match(r"(?:std::result::)?Result<(.*)>$", s)
    if m:
        inner = m.group(1)
        depth, cut = 0, None
        for i, c in enumerate(inner):
            depth += (c in "<([") - (c in ">)]")
            if c == "," and depth == 0:
                cut = i
                break
        if cut is None:
            if s.startswith("std::result::"):
                raise Untranslatable("std::result::Result with one argument")
            if aliases.get("Result") != "crate::Result":
                raise Untranslatable("Result<T> where Result is not crate::Result")
            return ("res", rust_type(inner, generics, aliases, talias), "cerr")
        et = inner[cut + 1:]
        full = aliases.get(et, et)
        if full != "std::io::Error":
            raise Untranslatable("error type " + et)
        return ("res", rust_type(inner[:cut], generics, aliases, talias), "ioerr")
    try:
        return A.rust_type(s0)
    except Untranslatable:
        raise Untranslatable("type " + s)


# ------------------------------------------------------------------ parser
class SPF(SPA):
    """the parser of part 9 (SPA) plus
       stmt = ("let", mutable, "_", None, e)                     let _ = e;
            | ("whilelet", x, e, block)                          while let Some(x) = e { .. }
            | ("if", ("ifres", x, ctor, e), block, block | None)   if let Err(x) | Ok(x) = e
            | ("do", e) for any expression statement
       e    = ("try", e) | ("writeln", buffer expression, format string, [e]) | ("asyncblock", block)
       `.await` is dropped, `::<..>` after a method name is skipped, #[cfg(..)] before a statement selects it."""

    def postfix(self):
        e = self.primary()
        while True:
            if self.peek() == ("op", "."):
                self.eat()
                kind, name = self.eat()
                if kind != "id" or "::" in name or name.endswith("!"):
                    raise Untranslatable("method / field name " + name)
                if name == "await":
                    continue
                if self.peek() == ("op", ":") and self.peek(1) == ("op", ":") and self.peek(2) == ("op", "<"):
                    # turbofish: a type annotation, no run-time content
                    self.eat()
                    self.eat()
                    depth = 0
                    while True:
                        t = self.eat()
                        depth += (t == ("op", "<")) - (t == ("op", ">"))
                        if depth == 0:
                            break
                if self.peek() != ("op", "("):
                    e = ("field", e, name)
                    continue
                self.eat("(")
                args = []
                while self.peek() != ("op", ")"):
                    args.append(self.expr())
                    if self.peek() == ("op", ","):
                        self.eat()
                self.eat(")")
                e = ("call", name, e, args)
            elif self.peek() == ("op", "["):
                self.eat()
                if self.peek() == ("op", ".."):
                    raise Untranslatable("slice e[..n]")
                ix = self.expr()
                if self.peek() == ("op", ".."):
                    self.eat()
                    if self.peek() != ("op", "]"):
                        raise Untranslatable("slice e[a..b]")
                    self.eat("]")
                    e = ("slicefrom", e, ix)
                else:
                    self.eat("]")
                    e = ("index", e, ix)
            elif self.peek() == ("op", "?"):
                self.eat()
                e = ("try", e)
            else:
                return e

    def primary(self):
        kind, v = self.peek()
        if kind == "id" and v == "writeln!":
            self.eat()
            self.eat("(")
            buf = self.expr()
            self.eat(",")
            k2, lit = self.eat()
            if k2 != "str":
                raise Untranslatable("writeln! without a literal format string")
            args = []
            while self.peek() == ("op", ","):
                self.eat()
                if self.peek() != ("op", ")"):
                    args.append(self.expr())
            self.eat(")")
            return ("writeln", buf, pins.rust_unescape(lit[1:-1]), args)
        if kind == "id" and v == "async":
            self.eat()
            if self.peek() == ("id", "move"):
                self.eat()
            return ("asyncblock", self.block())
        if kind == "op" and v == "|" and self.peek(1) == ("op", "|"):
            pass
        if kind == "op" and v == "||":
            # a closure without parameters
            self.eat()
            if self.peek() == ("op", "{"):
                return ("closure", [], self.block())
            return ("closure", [], ([], self.expr()))
        return SPA.primary(self)

    def if_(self):
        self.eat("if")
        if self.peek() == ("id", "let"):
            self.eat()
            k0, ctor = self.eat()
            if k0 != "id" or ctor not in ("Some", "Err", "Ok"):
                raise Untranslatable("pattern %s(..)" % ctor)
            self.eat("(")
            while self.peek() in (("id", "ref"), ("id", "mut")):
                self.eat()
            kind, x = self.eat()
            if kind != "id" or "::" in x or x.endswith("!"):
                raise Untranslatable("pattern %s(%s)" % (ctor, x))
            self.eat(")")
            self.eat("=")
            e = self.expr()
            cond = ("iflet", x, e) if ctor == "Some" else ("ifres", x, ctor, e)
        else:
            cond = ("cond", self.expr())
        th = self.block()
        el = None
        if self.peek() == ("id", "else"):
            self.eat()
            if self.peek() == ("id", "if"):
                el = close([self.if_()], None)
            else:
                el = self.block()
        return ("if", cond, th, el)

    def attribute(self):
        """#[..] before a statement: the value of a cfg, True for anything without run-time content"""
        self.eat("#")
        self.eat("[")
        toks = []
        depth = 1
        while True:
            t = self.eat()
            depth += (t == ("op", "[")) - (t == ("op", "]"))
            if depth == 0:
                break
            toks.append(t)
        if toks and toks[0] == ("id", "cfg"):
            if toks[1] != ("op", "(") or toks[-1] != ("op", ")"):
                raise Untranslatable("attribute cfg")
            return cfg_eval(toks[2:-1])
        if toks and toks[0][1] in ("allow", "warn", "deny", "inline"):
            return True
        raise Untranslatable("attribute #[%s ..]" % (toks[0][1] if toks else ""))

    def seq(self, closer):
        stmts, final = [], None
        keep = True
        while self.peek()[1] != closer and self.peek()[0] != "eof":
            if final is not None:
                raise Untranslatable("statement after the value of a block")
            kind, v = self.peek()
            if (kind, v) == ("op", "#"):
                keep = self.attribute() and keep
                continue
            n0 = len(stmts)
            f0 = final
            if (kind, v) == ("id", "let"):
                self.eat()
                mutable = False
                if self.peek() == ("id", "mut"):
                    self.eat()
                    mutable = True
                k2, x = self.eat()
                if k2 != "id" or "::" in x or x.endswith("!"):
                    raise Untranslatable("let pattern " + x)
                ty = None
                if self.peek() == ("op", ":"):
                    self.eat()
                    toks = []
                    while self.peek() != ("op", "=") and self.peek()[0] != "eof":
                        toks.append(self.eat()[1])
                    ty = ("tytext", "".join(toks))
                self.eat("=")
                e = self.expr()
                self.eat(";")
                stmts.append(("let", mutable, x, ty, e))
            elif (kind, v) == ("id", "return"):
                self.eat()
                if self.peek() == ("op", ";"):
                    self.eat()
                    stmts.append(("ret", ("unit",)))
                else:
                    e = self.expr()
                    if self.peek() == ("op", ";"):
                        self.eat()
                    stmts.append(("ret", e))
            elif (kind, v) == ("id", "break"):
                self.eat()
                self.eat(";")
                stmts.append(("break",))
            elif (kind, v) == ("id", "continue"):
                self.eat()
                self.eat(";")
                stmts.append(("continue",))
            elif (kind, v) == ("id", "if"):
                stmts.append(self.if_())
                if self.peek() == ("op", ";"):
                    self.eat()
            elif (kind, v) == ("id", "while"):
                self.eat()
                self.eat("let")
                self.eat("Some")
                self.eat("(")
                k2, x = self.eat()
                if k2 != "id" or "::" in x or x.endswith("!"):
                    raise Untranslatable("pattern Some(%s)" % x)
                self.eat(")")
                self.eat("=")
                e = self.expr()
                stmts.append(("whilelet", x, e, self.block()))
            elif (kind, v) == ("id", "for"):
                self.eat()
                if self.peek() == ("op", "("):
                    self.eat()
                    i = self.eat()
                    self.eat(",")
                    x = self.eat()
                    self.eat(")")
                    if i[0] != "id" or x[0] != "id":
                        raise Untranslatable("for pattern")
                    pat = ("pair", i[1], x[1])
                else:
                    x = self.eat()
                    if x[0] != "id" or "::" in x[1]:
                        raise Untranslatable("for pattern " + x[1])
                    pat = ("v", x[1])
                self.eat("in")
                it = self.expr()
                stmts.append(("for", pat, it, self.block()))
            elif kind == "id" and v in ("loop", "match", "unsafe"):
                raise Untranslatable("unsupported " + v)
            else:
                e = self.expr()
                if self.peek() == ("op", "="):
                    self.eat()
                    rhs = self.expr()
                    self.eat(";")
                    stmts.append(("assignf", e, rhs))
                elif self.peek() == ("op", ";"):
                    self.eat()
                    if e[0] not in ("call", "fncall", "try", "pathcall", "writeln"):
                        raise Untranslatable("expression statement")
                    stmts.append(("do", e))
                else:
                    final = e
            if not keep:
                # the statement is compiled out
                del stmts[n0:]
                final = f0
            keep = True
        return close(stmts, final)


# ------------------------------------------------------------------ which expressions have effects
EFFECT_METHODS = ("write_all", "flush", "next_line")


def walk(e):
    if isinstance(e, tuple):
        yield e
        for x in e[1:]:
            for y in walk(x):
                yield y
    elif isinstance(e, list):
        for x in e:
            for y in walk(x):
                yield y


class EmitF(EmitA):
    """the emitter of part 9 plus the world, Result values, `?`, the calls of Gen/FsRt.v, calls of translated
       methods and of handlers, while let, async blocks."""

    def __init__(self, ret, state, mparam, ctx, scope_err="cerr"):
        EmitA.__init__(self, ret, state, mparam, {})
        self.ctx = ctx                    # file-level context: aliases, methods translated so far, free functions
        self.scope_err = scope_err        # the error type `?` converts to (function: its Result; async block: its own)
        self.wn = 0

    def fresh(self):
        self.n += 1
        return "ix%d" % self.n

    def cv(self, x):
        if x == WORLD:
            return "st_w"
        return EmitA.cv(self, x)

    @staticmethod
    def rank(t):
        t = resolve(t)
        if t == "world":
            return 99
        if t in PATHLIKE or t in ("bytes", "file", "bufreader"):
            return 2
        if t == "lines":
            return 3
        return EmitA.rank(t)

    def mutable_in(self, env, names):
        for x in names:
            if x not in env:
                raise Untranslatable("assignment to an unknown place " + x)
            if not env[x][1]:
                raise Untranslatable("%s is modified but is not mutable" % x)
        return sorted(names, key=lambda x: (EmitF.rank(env[x][0]), x))

    # ---- name resolution
    def full(self, name):
        segs = name.split("::")
        if segs[0] in self.ctx["aliases"]:
            return "::".join([self.ctx["aliases"][segs[0]]] + segs[1:])
        return name

    def is_handler_var(self, name, env):
        return name in env and isinstance(env[name][0], tuple) and env[name][0][0] == "handler"

    # ---- effects
    def is_eff(self, e, env):
        for n in walk(e):
            k = n[0]
            if k in ("try", "writeln", "asyncblock"):
                return True
            if k == "call" and n[1] in EFFECT_METHODS:
                return True
            if k == "call" and n[2] == ("self",) and n[1] in self.ctx["methods"]:
                return True
            if k == "fncall" and (self.is_handler_var(n[1], env) or self.full(n[1]) in FS_FUNCS):
                return True
            if k == "pathcall" and self.full(n[1]) in FS_FUNCS:
                return True
        return False

    def eff_places(self, e, env):
        """the places the evaluation of e may assign"""
        out = set()
        for n in walk(e):
            k = n[0]
            if k == "writeln":
                key = lval_key(n[1])
                if key is None:
                    raise Untranslatable("writeln! to something that is not a local or a field of self")
                out.add(key)
            elif k == "call" and n[1] in ("write_all", "flush"):
                out.add(WORLD)
            elif k == "call" and n[1] == "next_line":
                out.add(WORLD)
                key = lval_key(n[2])
                if key is None:
                    raise Untranslatable("next_line() on something that is not a local")
                out.add(key)
            elif k == "call" and n[2] == ("self",) and n[1] in self.ctx["methods"]:
                meth = self.ctx["methods"][n[1]]
                if meth["world"]:
                    out.add(WORLD)
                if meth["recv"] == "mut":
                    out.update("self." + f for f, _t in self.ctx["fields"])
                if meth["mparam"] and self.mparam is not None:
                    out.add(self.mparam)
            elif k == "fncall" and self.is_handler_var(n[1], env):
                if self.mparam is not None and any(a == ("var", self.mparam) for a in n[2]):
                    out.add(self.mparam)
            elif (k == "fncall" or k == "pathcall") and self.full(n[1]) in FS_FUNCS:
                out.add(WORLD)
            elif k == "asyncblock":
                out |= self.assigned(n[1], ())
        return out

    # ---- which places a block may assign (part 9's, with the new statements)
    def assigned(self, block, declared=()):
        out = set()
        declared = set(declared)
        env_any = self.cur_env

        def place(k):
            if k is not None and k not in declared:
                out.add(k)

        def expr_effect(e):
            ef = effect_of(e)
            if ef is not None:
                place(ef[0])
            for p in self.eff_places(e, env_any):
                place(p)
        for st in block[0]:
            k = st[0]
            if k == "let":
                expr_effect(st[4])
                declared.add(st[2])
            elif k == "assign":
                expr_effect(st[2])
                place(st[1])
            elif k == "assignf":
                key = lval_key(st[1])
                if key is None:
                    raise Untranslatable("assignment to something that is not a local or a field of self")
                expr_effect(st[2])
                place(key)
            elif k == "ret":
                expr_effect(st[1])
            elif k == "do":
                e = st[1]
                if self.is_eff(e, env_any):
                    expr_effect(e)
                    continue
                if e[0] == "fncall":
                    if self.mparam is not None and any(a == ("var", self.mparam) for a in e[2]):
                        place(self.mparam)
                    continue
                if e[0] != "call":
                    raise Untranslatable("expression statement")
                key = lval_key(e[2])
                if key is not None and e[1] in ("push", "insert", "remove", "clear", "extend"):
                    place(key)
                elif ast_policy_place(e[2]) is not None and e[1] == "insert":
                    if self.mparam is None:
                        raise Untranslatable("a write to the model store without a model parameter")
                    place(self.mparam)
                else:
                    raise Untranslatable("statement .%s(..)" % e[1])
            elif k == "if":
                inner = set(declared)
                if st[1][0] in ("iflet", "ifres"):
                    inner.add(st[1][1])
                expr_effect(st[1][-1])
                out |= self.assigned(st[2], inner)
                if st[3] is not None:
                    out |= self.assigned(st[3], declared)
            elif k == "for":
                inner = set(declared)
                inner.update(st[1][1:])
                out |= self.assigned(st[3], inner)
            elif k == "whilelet":
                expr_effect(st[2])
                inner = set(declared)
                inner.add(st[1])
                out |= self.assigned(st[3], inner)
        if block[1] is not None:
            expr_effect(block[1])
        return out

    cur_env = {}

    def plain_block(self, block):
        if block is None:
            return True
        for st in block[0]:
            if st[0] == "whilelet":
                return False
            if st[0] == "if" and st[1][0] == "ifres":
                return False
            for part in st[1:]:
                if isinstance(part, tuple) and self.is_eff(part, self.cur_env):
                    return False
            if st[0] == "do" and st[1][0] != "call":
                return False
        return EmitA.plain_block(self, block)

    # ---- pure expressions
    def ex(self, e, env, want=None):
        self.cur_env = env
        k = e[0]
        if k == "raw":
            return e[1], e[2], False
        if k == "try":
            raise Untranslatable("`?` inside a larger expression (the order of evaluation would have to be guessed)")
        if k in ("writeln", "asyncblock"):
            raise Untranslatable("%s inside a larger expression" % k)
        if k == "var" and e[1] not in env and e[1] in self.ctx["free_fns"]:
            gen, ptys, ret = self.ctx["free_fns"][e[1]]
            return ("handler", tuple(ptys), ret), gen, False
        if k == "path":
            full = self.full(e[1])
            if full.startswith("std::io::ErrorKind::"):
                return "iokind", coq_text(full.rsplit("::", 1)[1]), False
            raise Untranslatable("path " + e[1])
        if k == "closure":
            raise Untranslatable("a closure outside map / map_err / ok_or_else")
        if k == "fncall":
            return self.fncall(e, env, want)
        if k == "pathcall":
            return self.pathcall(e, env, want)
        if k == "call":
            return self.call(e, env, want)
        if k == "field":
            key = lval_key(e)
            if key is not None and key in env:
                return env[key][0], self.cv(key), False
        return EmitA.ex(self, e, env)

    def closure1(self, clo, env, pty, want=None):
        """|x| e / || e with a total expression body: (parameter name | None, type, term)"""
        if clo[0] != "closure" or len(clo[1]) > 1:
            raise Untranslatable("a closure with one parameter at most is expected")
        blk = clo[2]
        if blk[0] or blk[1] is None:
            raise Untranslatable("closure body with statements")
        env2 = dict(env)
        x = None
        if clo[1]:
            x = clo[1][0][0]
            env2[x] = [pty, False]
        self.loops.append(None)
        t, a, p = self.ex(blk[1], env2, want)
        self.loops.pop()
        if p:
            raise Untranslatable("closure whose value can panic")
        return x, t, a

    def fncall(self, e, env, want=None):
        name, args = e[1], e[2]
        full = self.full(name)
        if name == "Ok" and len(args) == 1:
            t, a, p = self.ex(args[0], env)
            term, partial = self.binds([(a, p)], lambda xs: "(ROk %s)" % xs[0])
            return ("res", t, self.scope_err), term, partial
        if name == "Err" and len(args) == 1:
            t, a, p = self.ex(args[0], env, want=self.scope_err)
            if p:
                raise Untranslatable("Err of an expression that can panic")
            return ("res", None, t), "(RErr %s)" % a, False
        if full == "crate::error::AdapterError" and len(args) == 1:
            t, a, p = self.ex(args[0], env, want="boxerr")
            if t != "boxerr" or p:
                raise Untranslatable("AdapterError(%s)" % tyname(t))
            return "adaptererr", "(AdapterErr %s)" % a, False
        if full == "crate::util::csv_field" and len(args) == 1:
            t, a, p = self.ex(args[0], env)
            if t != "text" or p:
                raise Untranslatable("csv_field of a " + tyname(t))
            return "text", "(gen_csv_field %s)" % a, False
        if name in ("Some", "parse_csv_line"):
            return EmitA.fncall(self, e, env)
        raise Untranslatable("call of %s inside an expression" % name)

    def pathcall(self, e, env, want=None):
        full = self.full(e[1])
        args = e[2]
        if full == "std::io::Error::new" and len(args) == 2:
            tk, ak, pk = self.ex(args[0], env)
            tm, am, pm = self.ex(args[1], env)
            if tk != "iokind" or tm != "text" or pk or pm:
                raise Untranslatable("io::Error::new(%s, %s)" % (tyname(tk), tyname(tm)))
            return "ioerr", "(IoNew %s %s)" % (ak, am), False
        if full == "crate::error::ModelError::P" and len(args) == 1:
            t, a, p = self.ex(args[0], env)
            if t != "text" or p:
                raise Untranslatable("ModelError::P(%s)" % tyname(t))
            return "modelerr", "(ModelErrP %s)" % a, False
        if full in ("crate::Error::AdapterError", "crate::error::Error::AdapterError") and len(args) == 1:
            t, a, p = self.ex(args[0], env)
            if t != "adaptererr" or p:
                raise Untranslatable("Error::AdapterError(%s)" % tyname(t))
            return "cerr", "(ErrAdapter %s)" % a, False
        if full == "Box::new" and len(args) == 1:
            t, a, p = self.ex(args[0], env)
            if t != "adaptererr" or p or want not in (None, "boxerr"):
                raise Untranslatable("Box::new(%s)" % tyname(t))
            return "boxerr", "(rs_box_new_adapter %s)" % a, False
        if full == "tokio::io::BufReader::new" and len(args) == 1:
            t, a, p = self.ex(args[0], env)
            if t != "file" or p:
                raise Untranslatable("BufReader::new(%s)" % tyname(t))
            return "bufreader", a, False
        return EmitA.ex(self, e, env)

    def call(self, e, env, want=None):
        name, recv, args = e[1], e[2], e[3]
        if name in ("ok_or_else", "map_err", "into", "as_ref", "as_os_str", "to_owned", "as_bytes", "join", "lines") \
                or (name == "is_empty" and not args):
            if name == "into" and not args:
                t, a, p = self.ex(recv, env)
                rt = resolve(t)
                if rt == "text" and want is None or (isinstance(rt, tuple) and rt[0] in ("vec", "set")):
                    return t, a, p
                if want is None:
                    raise Untranslatable(".into() of a %s where the target type is not known" % tyname(t))
                if p:
                    raise Untranslatable(".into() of an expression that can panic")
                return want, conv(a, rt, want), False
            t, a, p = self.ex(recv, env)
            rt = resolve(t)
            if name == "as_ref" and not args and rt == "path":
                return "path", a, p
            if name == "as_os_str" and not args and rt == "path":
                return "osstr", a, p
            if name == "to_owned" and not args and rt == "osstr":
                return "osstring", a, p
            if name == "is_empty" and not args and rt in ("osstr", "osstring"):
                term, partial = self.binds([(a, p)], lambda xs: "(rs_is_empty %s)" % xs[0])
                return "bool", term, partial
            if name == "as_bytes" and not args and rt == "text":
                return "bytes", a, p
            if name == "lines" and not args and rt == "bufreader":
                if "tokio::io::AsyncBufReadExt" not in self.ctx["aliases"].values():
                    raise Untranslatable(".lines() without tokio::io::AsyncBufReadExt in scope")
                if WORLD not in env or p:
                    raise Untranslatable(".lines() in a function that is not given the file system")
                return "lines", "(fs_lines st_w %s)" % a, False
            if name == "join" and len(args) == 1 and rt == VT:
                ts, s, ps = self.ex(args[0], env)
                if ts != "text":
                    raise Untranslatable("join(%s)" % tyname(ts))
                term, partial = self.binds([(a, p), (s, ps)], lambda xs: "(rs_join %s %s)" % (xs[0], xs[1]))
                return "text", term, partial
            if name == "ok_or_else" and len(args) == 1 and isinstance(rt, tuple) and rt[0] == "opt" and not p:
                _x, te, body = self.closure1(args[0], env, None)
                if te not in ERR_COQ:
                    raise Untranslatable("ok_or_else with a closure returning a " + tyname(te))
                return ("res", rt[1], te), "(rs_ok_or_else %s (fun _ => %s))" % (a, body), False
            if name == "map_err" and len(args) == 1 and isinstance(rt, tuple) and rt[0] == "res" and not p:
                x, te, body = self.closure1(args[0], env, rt[2])
                if te not in ERR_COQ:
                    raise Untranslatable("map_err with a closure returning a " + tyname(te))
                return ("res", rt[1], te), "(rs_map_err %s (fun %s => %s))" % (a, "v_" + x if x else "_", body), False
            return EmitA.call(self, e, env)
        return EmitA.call(self, e, env)

    # ---- effectful expressions, continuation-passing: k(env, type, term) is the term of what follows
    def exit_err(self, env, term):
        """what a `?` does on Err: return from the function (or leave the async block)"""
        return "(LReturn %s)" % self.wrap_ret("(RErr %s)" % term)

    def effex(self, e, env, k, want=None):
        self.cur_env = env
        if not self.is_eff(e, env):
            t, a, p = self.ex(e, env, want)
            if p:
                x = self.fresh()
                return "(match %s with Some %s => %s | None => LPanic end)" % (a, x, k(env, t, x))
            return k(env, t, a)
        kind = e[0]
        if kind == "try":
            def after(en, t, term):
                t = resolve(t)
                if not (isinstance(t, tuple) and t[0] == "res"):
                    raise Untranslatable("`?` on a " + tyname(t))
                y, ev = self.fresh(), self.fresh()
                okpat = "_" if resolve(t[1]) == "unit" else y
                val = "tt" if resolve(t[1]) == "unit" else y
                return "(match %s with\n | ROk %s => %s\n | RErr %s => %s end)" % (
                    term, okpat, k(en, t[1], val), ev, self.exit_err(en, conv(ev, t[2], self.scope_err)))
            return self.effex(e[1], env, after)
        if kind == "writeln":
            key = lval_key(e[1])
            if key is None or key not in env or resolve(env[key][0]) != "text":
                raise Untranslatable("writeln! to something that is not a String variable")
            self.mutable_in(env, [key])
            pieces = e[2].split("{}")
            if "{" in "".join(pieces) or "}" in "".join(pieces):
                raise Untranslatable("format string %r (only {} placeholders)" % e[2])
            if len(pieces) != len(e[3]) + 1:
                raise Untranslatable("format string %r with %d arguments" % (e[2], len(e[3])))
            terms = []
            for a in e[3]:
                t, term, p = self.ex(a, env)
                if resolve(t) != "text" or p:
                    raise Untranslatable("writeln! argument of type " + tyname(t))
                terms.append(term)
            r = self.fresh()
            line = "(rs_fmt [%s] [%s])" % ("; ".join(coq_text(p) for p in pieces), "; ".join(terms))
            return "(let '(%s, %s) := rs_writeln %s %s in\n %s)" % (
                self.cv(key), r, self.cv(key), line, k(env, ("res", "unit", "fmterr"), r))
        if kind == "asyncblock":
            return self.asyncblock(e, env, k, want)
        if kind == "call" and e[1] == "map_err" and len(e[3]) == 1:
            def after(en, t, term):
                t2, a2, _p = self.call(("call", "map_err", ("raw", t, term), e[3]), en)
                return k(en, t2, a2)
            return self.effex(e[2], env, after)
        if kind == "call" and e[1] in ("write_all", "flush") and e[2][0] == "var":
            f = e[2][1]
            if f not in env or env[f][0] != "file":
                raise Untranslatable(".%s on something that is not a File" % e[1])
            if not env[f][1]:
                raise Untranslatable(".%s on a File that is not `mut`" % e[1])
            if "tokio::io::AsyncWriteExt" not in self.ctx["aliases"].values():
                raise Untranslatable(".%s without tokio::io::AsyncWriteExt in scope" % e[1])
            self.need_world(env)
            r = self.fresh()
            if e[1] == "write_all":
                if len(e[3]) != 1:
                    raise Untranslatable("write_all with %d arguments" % len(e[3]))
                t, a, p = self.ex(e[3][0], env)
                if t != "bytes" or p:
                    raise Untranslatable("write_all(%s)" % tyname(t))
                callt = "fs_write_all st_w %s %s" % (self.cv(f), a)
            else:
                if e[3]:
                    raise Untranslatable("flush with arguments")
                callt = "fs_flush st_w %s" % self.cv(f)
            return "(let '(st_w, %s) := %s in\n %s)" % (r, callt, k(env, ("res", "unit", "ioerr"), r))
        if kind == "call" and e[1] == "next_line" and not e[3] and e[2][0] == "var":
            x = e[2][1]
            if x not in env or env[x][0] != "lines":
                raise Untranslatable(".next_line() on something that is not a Lines")
            self.mutable_in(env, [x])
            self.need_world(env)
            r = self.fresh()
            return "(let '(st_w, %s, %s) := fs_next_line st_w %s in\n %s)" % (
                self.cv(x), r, self.cv(x), k(env, ("res", ("opt", "text"), "ioerr"), r))
        if kind == "call" and e[2] == ("self",) and e[1] in self.ctx["methods"]:
            return self.method_call(e, env, k)
        if kind == "fncall" and self.is_handler_var(e[1], env):
            return self.handler_call(e, env, k)
        if kind in ("fncall", "pathcall") and self.full(e[1]) in FS_FUNCS:
            coqf, ptys, rt = FS_FUNCS[self.full(e[1])]
            args = e[2]
            if len(args) != len(ptys):
                raise Untranslatable("%s with %d arguments" % (e[1], len(args)))
            self.need_world(env)
            terms = []
            for a, pt in zip(args, ptys):
                t, term, p = self.ex(a, env)
                if p or (pt == "pathlike" and resolve(t) not in PATHLIKE) or (pt != "pathlike" and resolve(t) != pt):
                    raise Untranslatable("%s: argument of type %s" % (e[1], tyname(t)))
                terms.append(term)
            r = self.fresh()
            return "(let '(st_w, %s) := %s st_w %s in\n %s)" % (r, coqf, " ".join(terms), k(env, rt, r))
        raise Untranslatable("an effectful call inside a larger expression (%s): the order of evaluation would have to be guessed"
                             % (e[1] if kind in ("call", "fncall", "pathcall") else kind))

    def need_world(self, env):
        if WORLD not in env:
            raise Untranslatable("a file-system call in a function that is not given the file system")
        self.mutable_in(env, [WORLD])

    def method_call(self, e, env, k):
        name, args = e[1], e[3]
        meth = self.ctx["methods"][name]
        if meth["recv"] == "mut" and not env["self." + self.ctx["fields"][0][0]][1]:
            raise Untranslatable("self.%s needs &mut self" % name)
        if len(args) != len(meth["ptys"]):
            raise Untranslatable("self.%s with %d arguments" % (name, len(args)))
        terms = ["st_" + f for f, _t in self.ctx["fields"]]
        callee_state = []
        if meth["recv"] == "mut":
            callee_state += ["self." + f for f, _t in self.ctx["fields"]]
            self.mutable_in(env, callee_state)
        rest = []
        for a, pt in zip(args, meth["ptys"]):
            if pt == "mref":
                if a != ("var", self.mparam):
                    raise Untranslatable("self.%s with another model" % name)
                self.mutable_in(env, [self.mparam])
                continue
            if pt == "filter":
                if a[0] != "var" or env.get(a[1], [None])[0] != "filter":
                    raise Untranslatable("self.%s: filter argument" % name)
                rest += ["v_%s_p" % a[1], "v_%s_g" % a[1]]
                continue
            t, term, p = self.ex(a, env)
            if p or resolve(t) != resolve(pt):
                raise Untranslatable("self.%s: argument of type %s where %s is expected" % (name, tyname(t), tyname(pt)))
            rest.append(term)
        if meth["mparam"]:
            terms.append("st_m")
            callee_state.append(self.mparam)
        if meth["world"]:
            self.need_world(env)
            terms.append("st_w")
            callee_state.append(WORLD)
        r = self.fresh()
        pat = "(%s, %s)" % (self.tup(callee_state), r) if callee_state else r
        return "(match %s %s with\n | Some %s => %s\n | None => LPanic end)" % (
            meth["gen"], " ".join(terms + rest), pat, k(env, meth["ret"], r))

    def handler_call(self, e, env, k):
        name, args = e[1], e[2]
        _h, ptys, ret = env[name][0]
        if len(args) != len(ptys):
            raise Untranslatable("%s with %d arguments" % (name, len(args)))
        terms = []
        has_m = False
        for a, pt in zip(args, ptys):
            if pt == "mref":
                if a != ("var", self.mparam):
                    raise Untranslatable("%s with another model" % name)
                self.mutable_in(env, [self.mparam])
                has_m = True
                continue
            if pt == "filter":
                if a[0] != "var" or env.get(a[1], [None])[0] != "filter":
                    raise Untranslatable("%s: filter argument" % name)
                terms += ["v_%s_p" % a[1], "v_%s_g" % a[1]]
                continue
            t, term, p = self.ex(a, env)
            if p or resolve(t) != resolve(pt):
                raise Untranslatable("%s: argument of type %s" % (name, tyname(t)))
            terms.append(term)
        if not has_m:
            raise Untranslatable("call of %s without the model" % name)
        r = self.fresh()
        return "(match v_%s st_m %s with\n | Some (st_m, %s) => %s\n | None => LPanic end)" % (
            name, " ".join(terms), r, k(env, ret, r))

    def asyncblock(self, e, env, k, want):
        """async { ..; value }.await: the block runs to its value; a `?` inside it makes ITS value an Err"""
        want = resolve(want)
        if not (isinstance(want, tuple) and want[0] == "res"):
            raise Untranslatable("an async block whose Result type is not annotated")
        blk = e[1]
        self.cur_env = env
        places = self.mutable_in(env, self.assigned(blk, ()))
        saved = (self.ret, self.state, self.loops, self.scope_err, self.step)
        self.ret, self.state, self.loops, self.scope_err, self.step = want, places, [], want[2], False
        try:
            stmts, _ = tailify(blk)

            def end(en):
                raise Untranslatable("an async block without a value")
            body = self.seq(stmts, dict(env), end)
        finally:
            self.ret, self.state, self.loops, self.scope_err, self.step = saved
        r = self.fresh()
        pat = "(%s, %s)" % (self.tup(places), r) if places else r
        return "(match rs_fn %s with\n | Some %s => %s\n | None => LPanic end)" % (body, pat, k(env, want, r))

    # ---- statements
    def ret_term(self, e, env):
        self.cur_env = env
        rt = resolve(self.ret)

        def fin(en, t, term):
            t = resolve(t)
            if isinstance(rt, tuple) and rt[0] == "res":
                if not (isinstance(t, tuple) and t[0] == "res"):
                    raise Untranslatable("value of type %s where %s is expected" % (tyname(t), tyname(rt)))
                if t[1] is not None and not unify(t[1], rt[1]):
                    raise Untranslatable("value of type %s where %s is expected" % (tyname(t), tyname(rt)))
                if resolve(t[2]) != rt[2]:
                    raise Untranslatable("error of type %s where %s is expected" % (tyname(t[2]), tyname(rt[2])))
            elif not unify(t, self.ret):
                raise Untranslatable("value of type %s where %s is expected" % (tyname(t), tyname(self.ret)))
            return "(LReturn %s)" % self.wrap_ret(term)
        if not (isinstance(rt, tuple) and rt[0] == "res"):
            if self.is_eff(e, env):
                return self.effex(e, env, fin)
            return EmitA.ret_term(self, e, env)
        return self.effex(e, env, fin)

    def seq(self, stmts, env, k):
        self.cur_env = env
        if not stmts:
            return k(env)
        st, rest = stmts[0], stmts[1:]
        kind = st[0]

        def cont(en):
            return self.seq(rest, en, k)
        if kind == "let":
            ty = st[3]
            if isinstance(ty, tuple) and ty[0] == "tytext":
                ty = rust_type(ty[1], self.ctx["generics"], self.ctx["aliases"], self.ctx["talias"])
            st = ("let", st[1], st[2], ty, st[4])
            if self.is_eff(st[4], env) or st[2] == "_" or self.special_let(st, env):
                def bind(en, t, term):
                    if ty is not None and resolve(t) != resolve(ty):
                        raise Untranslatable("let %s: %s = a %s" % (st[2], tyname(ty), tyname(t)))
                    if st[2] == "_":
                        return cont(en)
                    rt = resolve(t)
                    if rt in ("self", "mref", "filter") or (isinstance(rt, tuple) and rt[0] in ("store", "ast")):
                        raise Untranslatable("let of a %s" % tyname(rt))
                    if isinstance(rt, tuple) and rt[0] == "amap" and rt[-1]:
                        raise Untranslatable("let of a mutable reference into the store")
                    en2 = dict(en)
                    en2[st[2]] = [t, st[1]]
                    if term == "v_" + st[2]:
                        return cont(en2)
                    return "(let v_%s := %s in\n %s)" % (st[2], term, cont(en2))
                return self.effex(st[4], env, bind, want=ty)
            return EmitA.seq(self, [st] + rest, env, k)
        if kind == "assignf" and self.is_eff(st[2], env):
            key = lval_key(st[1])
            if key is None:
                raise Untranslatable("assignment to something that is not a local or a field of self")
            self.mutable_in(env, [key])

            def assign(en, t, term):
                if not unify(t, en[key][0]):
                    raise Untranslatable("assignment of a %s to %s: %s" % (tyname(t), key, tyname(en[key][0])))
                return "(let %s := %s in\n %s)" % (self.cv(key), term, cont(en))
            return self.effex(st[2], env, assign)
        if kind == "do":
            e = st[1]
            if self.is_eff(e, env):
                return self.effex(e, env, lambda en, t, term: cont(en))
            if e[0] == "call" and e[1] == "push" and len(e[3]) == 1 and lval_key(e[2]) in env \
                    and resolve(env[lval_key(e[2])][0]) == "osstring":
                key = lval_key(e[2])
                self.mutable_in(env, [key])
                t, a, p = self.ex(e[3][0], env)
                if t != "text" or p:
                    raise Untranslatable("OsString::push(%s)" % tyname(t))
                return "(let %s := rs_os_push %s %s in\n %s)" % (self.cv(key), self.cv(key), a, cont(env))
            if e[0] not in ("call", "fncall"):
                raise Untranslatable("expression statement")
            return EmitA.seq(self, stmts, env, k)
        if kind == "ret" and None not in self.loops and not self.step:
            if rest:
                raise Untranslatable("code after return")
            return self.ret_term(st[1], env)
        if kind == "whilelet":
            return self.whilelet(st, env, cont)
        return EmitA.seq(self, stmts, env, k)

    def special_let(self, st, env):
        """a let that part 9 refuses but is harmless here: a shared reference to an assertion map"""
        try:
            t, _a, _p = self.ex(st[4], env, st[3])
        except Untranslatable:
            return False
        rt = resolve(t)
        if isinstance(rt, tuple) and rt[0] == "amap" and not rt[-1]:
            return True
        return rt in ("path", "osstr", "osstring", "bytes", "file", "bufreader", "lines") or rt in ERR_COQ \
            or (isinstance(rt, tuple) and rt[0] == "res")

    def if_(self, st, env, cont):
        self.cur_env = env
        cond, th, el = st[1], st[2], st[3]
        if cond[0] == "ifres":
            if th[1] is not None or (el is not None and el[1] is not None):
                raise Untranslatable("if with a value in statement position")
            els = el[0] if el is not None else []

            def branch(en, t, term):
                t = resolve(t)
                if not (isinstance(t, tuple) and t[0] == "res") or t[1] is None:
                    raise Untranslatable("if let %s(..) on a %s" % (cond[2], tyname(t)))
                env_t = dict(en)
                env_t[cond[1]] = [t[2] if cond[2] == "Err" else t[1], False]
                a = self.seq(th[0], env_t, lambda e2: cont(en))
                b = self.seq(els, dict(en), lambda e2: cont(en))
                if cond[2] == "Err":
                    return "(match %s with\n | RErr v_%s => %s\n | ROk _ => %s end)" % (term, cond[1], a, b)
                return "(match %s with\n | ROk v_%s => %s\n | RErr _ => %s end)" % (term, cond[1], a, b)
            return self.effex(cond[3], env, branch)
        if self.is_eff(cond[-1], env):
            def go(en, t, term):
                c2 = ("cond", ("raw", t, term)) if cond[0] == "cond" else ("iflet", cond[1], ("raw", t, term))
                return EmitA.if_(self, ("if", c2, th, el), en, cont)
            return self.effex(cond[-1], env, go)
        return EmitA.if_(self, st, env, cont)

    def whilelet(self, st, env, cont):
        x, scrut, body = st[1], st[2], st[3]
        if body[1] is not None and body[1][0] in ("call", "fncall"):
            # a last expression of type () (a call without `;`): a statement
            body = (body[0] + [("do", body[1])], None)
        if body[1] is not None:
            raise Untranslatable("loop body with a value")
        # the iterator that bounds the loop
        its = [n for n in walk(scrut) if n[0] == "call" and n[1] == "next_line"]
        if len(its) != 1 or its[0][2][0] != "var" or env.get(its[0][2][1], [None])[0] != "lines":
            raise Untranslatable("while let whose scrutinee is not one next_line() of a Lines (no bound on the iterations)")
        it = its[0][2][1]
        self.cur_env = env
        in_body = self.assigned(body, {x})
        if it in in_body:
            raise Untranslatable("the body of while let assigns the iterator")
        carried = self.mutable_in(env, in_body | self.eff_places(scrut, env))
        fuel = "(S (length %s))" % self.cv(it)

        def enter(en, t, term):
            if resolve(t) != ("opt", "text"):
                raise Untranslatable("while let Some(..) on a " + tyname(t))
            return "(LNext (%s, %s))" % (self.tup(carried), term)
        self.loops.append(carried)
        c = self.effex(scrut, dict(env), enter)
        env2 = dict(env)
        env2[x] = ["text", False]
        b = self.seq(body[0], env2, lambda en: "(LNext %s)" % self.tup(carried))
        self.loops.pop()
        return ("(match rs_while_some %s (fun %s =>\n %s)\n (fun v_%s %s =>\n %s)\n %s with\n | Done %s => %s\n"
                " | Returned ret_ => LReturn ret_\n | Panicked => LPanic end)"
                % (fuel, self.lam_pat(carried), c, x, self.lam_pat(carried), b, self.tup(carried),
                   self.match_pat(carried), cont(env)))


# resolved path -> (Coq function of Gen/FsRt.v, parameter types, result type)
FS_FUNCS = {
    "tokio::fs::File::create": ("fs_create", ("pathlike",), ("res", "file", "ioerr")),
    "tokio::fs::File::open": ("fs_open", ("pathlike",), ("res", "file", "ioerr")),
    "tokio::fs::rename": ("fs_rename", ("pathlike", "pathlike"), ("res", "unit", "ioerr")),
    "tokio::fs::remove_file": ("fs_remove_file", ("pathlike",), ("res", "unit", "ioerr")),
}

# ------------------------------------------------------------------ the functions
FILE_FIELDS = (("file_path", "path"), ("is_filtered", "bool"))
STR_FIELDS = (("policy", "text"), ("is_filtered", "bool"))
FILE_INHERENT = r"impl\s*<\s*P\s*>\s*FileAdapter\s*<\s*P\s*>"
FILE_IMPL = r"impl\s*<\s*P\s*>\s*Adapter\s+for\s+FileAdapter\s*<\s*P\s*>"
STR_IMPL = r"impl\s+Adapter\s+for\s+StringAdapter"
IMPL_NAMES = {FILE_INHERENT: "impl<P> FileAdapter<P>", FILE_IMPL: "impl<P> Adapter for FileAdapter<P>",
              STR_IMPL: "impl Adapter for StringAdapter"}
RU = ("res", "unit", "cerr")
RB = ("res", "bool", "cerr")
H_LOAD = ("handler", ("text", "mref"), "unit")
H_FILT = ("handler", ("text", "mref", "filter"), "bool")
# file, impl regex, struct, Rust name, Coq name, receiver, parameter types, return type, given the world
FUNCS = (
    (FA, FILE_INHERENT, "FileAdapter", "load_policy_file", "gen_load_policy_file", "mut", ("mref", H_LOAD), RU, True),
    (FA, FILE_INHERENT, "FileAdapter", "load_filtered_policy_file", "gen_load_filtered_policy_file", "shared",
     ("mref", "filter", H_FILT), RB, True),
    (FA, FILE_INHERENT, "FileAdapter", "save_policy_file", "gen_save_policy_file", "shared", ("text",), RU, True),
    (FA, FILE_IMPL, "FileAdapter", "load_policy", "gen_file_load_policy", "mut", ("mref",), RU, True),
    (FA, FILE_IMPL, "FileAdapter", "load_filtered_policy", "gen_file_load_filtered_policy", "mut", ("mref", "filter"), RU, True),
    (FA, FILE_IMPL, "FileAdapter", "save_policy", "gen_file_save_policy", "mut", ("mref",), RU, True),
    (FA, FILE_IMPL, "FileAdapter", "clear_policy", "gen_file_clear_policy", "mut", (), RU, True),
    (FA, FILE_IMPL, "FileAdapter", "add_policy", "gen_file_add_policy", "mut", ("text", "text", VT), RB, False),
    (FA, FILE_IMPL, "FileAdapter", "add_policies", "gen_file_add_policies", "mut", ("text", "text", VVT), RB, False),
    (FA, FILE_IMPL, "FileAdapter", "remove_policy", "gen_file_remove_policy", "mut", ("text", "text", VT), RB, False),
    (FA, FILE_IMPL, "FileAdapter", "remove_policies", "gen_file_remove_policies", "mut", ("text", "text", VVT), RB, False),
    (FA, FILE_IMPL, "FileAdapter", "remove_filtered_policy", "gen_file_remove_filtered_policy", "mut",
     ("text", "text", "nat", VT), RB, False),
    (FA, FILE_IMPL, "FileAdapter", "is_filtered", "gen_file_is_filtered", "shared", (), "bool", False),
    (SA, STR_IMPL, "StringAdapter", "save_policy", "gen_str_save_policy", "mut", ("mref",), RU, False),
    (SA, STR_IMPL, "StringAdapter", "clear_policy", "gen_str_clear_policy", "mut", (), RU, False),
    (SA, STR_IMPL, "StringAdapter", "add_policy", "gen_str_add_policy", "mut", ("text", "text", VT), RB, False),
    (SA, STR_IMPL, "StringAdapter", "add_policies", "gen_str_add_policies", "mut", ("text", "text", VVT), RB, False),
    (SA, STR_IMPL, "StringAdapter", "remove_policy", "gen_str_remove_policy", "mut", ("text", "text", VT), RB, False),
    (SA, STR_IMPL, "StringAdapter", "remove_policies", "gen_str_remove_policies", "mut", ("text", "text", VVT), RB, False),
    (SA, STR_IMPL, "StringAdapter", "remove_filtered_policy", "gen_str_remove_filtered_policy", "mut",
     ("text", "text", "nat", VT), RB, False),
    (SA, STR_IMPL, "StringAdapter", "is_filtered", "gen_str_is_filtered", "shared", (), "bool", False),
)
EXPECTED_FIELDS = {"FileAdapter": FILE_FIELDS, "StringAdapter": STR_FIELDS}


def handler_coq_ty(t):
    _h, ptys, ret = t
    parts = ["model"]
    for p in ptys:
        if p == "mref":
            continue
        if p == "filter":
            parts += ["list text", "list text"]
        else:
            parts.append(coq_ty_atom(p))
    return " -> ".join(parts) + " -> option (model * %s)" % coq_ty_atom(ret)


def signature(entry):
    """Coq binders (types only), state types and result type of a function of the table (the same whether or not the
       translation succeeds)"""
    _f, _impl, struct, _name, _gen, recv, ptys, ret, world = entry
    binders, state = [], []
    for _fld, t in EXPECTED_FIELDS[struct]:
        binders.append(coq_ty(t))
        if recv == "mut":
            state.append(coq_ty_atom(t))
    if "mref" in ptys:
        binders.append("model")
        state.append("model")
    if world:
        binders.append("world")
        state.append("world")
    for pt in ptys:
        if pt == "mref":
            continue
        if pt == "filter":
            binders += ["list text", "list text"]
        elif isinstance(pt, tuple) and pt[0] == "handler":
            binders.append(handler_coq_ty(pt))
        else:
            binders.append(coq_ty(pt))
    return binders, state, ret


def result_ty(state, ret):
    if not state:
        return coq_ty_atom(ret)
    return "(%s * %s)" % ("(%s)" % " * ".join(state) if len(state) > 1 else state[0], coq_ty_atom(ret))


def stub(entry):
    binders, st_tys, ret = signature(entry)
    return "Definition %s %s : option %s := None.\n" % (
        entry[4], " ".join("(_ : %s)" % b for b in binders), result_ty(st_tys, ret))


def struct_fields(src, name, generics, aliases, talias):
    m = re.search(r"struct\s+%s\s*(?:<[^>]*>)?\s*\{([^}]*)\}" % name, src)
    if not m:
        raise Untranslatable("struct %s not found" % name)
    out = []
    for part in pins.strip_rust_comments(m.group(1)).split(","):
        part = part.strip()
        if not part:
            continue
        fm = re.match(r"(?:pub(?:\([^)]*\))?\s+)?(\w+)\s*:\s*(.+)$", part, re.S)
        if not fm:
            raise Untranslatable("field %r of %s" % (part, name))
        out.append((fm.group(1), rust_type(fm.group(2), generics, aliases, talias)))
    return out


def impl_generics(src, im, aliases):
    """impl<P> .. where P: AsRef<ioPath> + ..: P is a path"""
    head = src[im.start():src.find("{", im.start())]
    out = {}
    for g in re.findall(r"impl\s*<\s*([^>]*)>", head)[:1]:
        for name in [x.strip() for x in g.split(",") if x.strip()]:
            bm = re.search(r"\b%s\s*:\s*([^,{]+)" % re.escape(name), head)
            if not bm:
                raise Untranslatable("type parameter %s without a bound" % name)
            bounds = [b.strip() for b in bm.group(1).split("+")]
            am = [re.match(r"AsRef\s*<\s*(\w+)\s*>$", b) for b in bounds]
            am = [a for a in am if a]
            if not am or aliases.get(am[0].group(1), am[0].group(1)) != "std::path::Path":
                raise Untranslatable("type parameter %s: %s" % (name, bm.group(1).strip()))
            out[name] = "path"
    return out


def translate(entry, methods):
    rel, impl, struct, name, gen, recv, ptys, ret, world = entry
    src = pins.read(rel)
    if not src:
        raise Untranslatable(rel + " not found")
    aliases = use_aliases(src)
    talias = type_aliases(src)
    im = re.search(impl, src)
    if not im:
        raise Untranslatable("%s not found in %s" % (impl, rel))
    generics = impl_generics(src, im, aliases)
    # the method must be inside this impl block
    blk = pins.balanced(src, src.find("{", im.start()))
    if blk is None:
        raise Untranslatable("impl block not found")
    blk_start = src.find("{", im.start())
    params, ret_txt, body = find_fn(src, blk_start, name)
    if src.find(body, blk_start) > blk_start + len(blk):
        raise Untranslatable("%s is not defined in %s" % (name, impl))
    fields = struct_fields(src, struct, generics, aliases, talias)
    if tuple(fields) != tuple(EXPECTED_FIELDS[struct]):
        raise Untranslatable("%s: fields %s" % (struct, ", ".join("%s: %s" % (f, tyname(t)) for f, t in fields)))
    env, state, binders = {}, [], []
    r0 = re.sub(r"\s+", "", params[0]) if params else ""
    if r0 != ("&mutself" if recv == "mut" else "&self"):
        raise Untranslatable("%s: receiver %r" % (name, params[0] if params else ""))
    for fld, t in fields:
        env["self." + fld] = [t, recv == "mut"]
        binders.append("(st_%s : %s)" % (fld, coq_ty(t)))
        if recv == "mut":
            state.append("self." + fld)
    got, pbinders = [], []
    mparam = None
    for prm in params[1:]:
        pm = re.match(r"(mut\s+)?(\w+)\s*:\s*(.+)$", prm, re.S)
        if not pm:
            raise Untranslatable("%s: parameter %r" % (name, prm))
        x, tytxt = pm.group(2), re.sub(r"\s+", "", re.sub(r"&\s*'\w+\s*", "&", pm.group(3)))
        t = rust_type(pm.group(3), generics, aliases, talias)
        got.append(t)
        if t == "mref":
            if not tytxt.startswith("&mut"):
                raise Untranslatable("%s: the model is not taken by &mut" % name)
            if mparam is not None:
                raise Untranslatable("%s: two models" % name)
            mparam = x
            env[x] = ["mref", True]
        elif t == "filter":
            env[x] = ["filter", False]
            pbinders.append("(v_%s_p : list text) (v_%s_g : list text)" % (x, x))
        elif isinstance(t, tuple) and t[0] == "handler":
            env[x] = [t, False]
            pbinders.append("(v_%s : %s)" % (x, handler_coq_ty(t)))
        else:
            env[x] = [t, bool(pm.group(1))]
            pbinders.append("(v_%s : %s)" % (x, coq_ty(t)))
    if tuple(got) != tuple(ptys):
        raise Untranslatable("%s: parameter types %s" % (name, ", ".join(tyname(t) for t in got)))
    rt = rust_type(ret_txt, generics, aliases, talias) if ret_txt is not None else "unit"
    if rt != ret:
        raise Untranslatable("%s: return type %s" % (name, ret_txt))
    if mparam is not None:
        binders.append("(st_m : model)")
        state.append(mparam)
    if world:
        binders.append("(st_w : world)")
        env[WORLD] = ["world", True]
        state.append(WORLD)
    # the free functions of the file that part 9 translates (line handlers), as values
    free = {}
    for e9 in A.FUNCS:
        if e9[0] == rel and e9[1] is None:
            free[e9[3]] = (e9[4], e9[6], e9[7])
    ctx = {"aliases": aliases, "talias": talias, "generics": generics, "fields": fields,
           "methods": methods.get((rel, struct), {}), "free_fns": free}
    p = SPF(slex(body.strip()[1:-1]))
    blk = p.seq("}")
    if p.peek()[0] != "eof":
        raise Untranslatable("%s: trailing tokens" % name)
    _b, st_tys, _r = signature(entry)
    del NILS[:]
    em = EmitF(ret, state, mparam, ctx)
    em.cur_env = env
    term = fill_nils(em.function(blk, dict(env)))
    out = "Definition %s %s : option %s :=\n rs_fn %s.\n" % (gen, " ".join(binders + pbinders), result_ty(st_tys, ret), term)
    return out


def generate():
    out = ["(* GENERATED on every run by tools/rs2coq.py (tools/rs2coq_fsave.py) from /repo/src/adapter/file_adapter.rs",
           "   (file reading, save_policy_file, save / clear / incremental methods) and string_adapter.rs (save / clear /",
           "   incremental methods) - do not edit.  cfg: feature runtime-tokio, not runtime-async-std, not wasm32.",
           "   st_<field> = the fields of self, st_m = the model behind `m: &mut dyn Model`, st_w = the world of Gen/FsRt.v",
           "   (file system, log of calls, fault script); the result is `option (final state * value)`, None = a panic;",
           "   a `Result<T>` is a `res casbin_error T`. *)",
           "From CV Require Import Model.Base Model.Csv Model.Enforce Model.FileSave.",
           "From CV Require Import Gen.RustStr Gen.RustVec Gen.StrFnGen Gen.AdaptersPrims Gen.AdaptersGen Gen.FsRt.", ""]
    ok = True
    methods = {}
    for entry in FUNCS:
        rel, impl, struct, name, gen, recv, ptys, ret, world = entry
        try:
            txt = translate(entry, methods)
            out.append("(* %s, %s %s *)" % (rel, IMPL_NAMES[impl], name))
            out.append(txt)
            # callable from the methods that follow (inherent methods only: a trait method is not called here)
            if impl == FILE_INHERENT:
                methods.setdefault((rel, struct), {})[name] = {
                    "gen": gen, "recv": recv, "ptys": ptys, "ret": ret, "world": world, "mparam": "mref" in ptys}
        except Exception as ex:   # noqa
            ok = False
            out.append("(* translation of %s (%s) failed: %s *)" % (name, gen, str(ex).replace("*)", "* )").replace("(*", "( *")))
            out.append(stub(entry))
            if impl == FILE_INHERENT:
                methods.setdefault((rel, struct), {})[name] = {
                    "gen": gen, "recv": recv, "ptys": ptys, "ret": ret, "world": world, "mparam": "mref" in ptys}
    out.append("Definition gen_fsave_translated : bool := %s." % ("true" if ok else "false"))
    return "\n".join(out) + "\n", ok


def main(dst_dir=None):
    dst_dir = dst_dir or "/verif/coq/Gen"
    txt, ok = generate()
    rs2coq.write_if_changed(os.path.join(dst_dir, "FsaveGen.v"), txt, ok)


if __name__ == "__main__":
    main(sys.argv[1] if len(sys.argv) > 1 else None)
