// Driver of tools/rhai_examples.py: evaluates matcher texts with the REAL rhai engine, configured as
// src/enforcer.rs configures it (the def_package! block below is COPIED from /repo/src/enforcer.rs by the tool
// at every run), and - where the case allows it - a second time through a real casbin::Enforcer.
// Protocol (stdin, one record per line, fields hex-encoded):
//   C id | T text | V name kind value | F name kind | G name arity | L a b [dom] | X 0/1 | E (run)
// Output: `id | direct | enforcer`.
#![allow(unused_imports)]
use casbin::function_map::{FunctionMap, OperatorFunction};
use casbin::prelude::*;
use casbin::rhai::packages::*; // whatever packages the copied def_package! block names
use casbin::rhai::{def_package, Dynamic, Engine, ImmutableString, Map, Scope};
use casbin::verif_hooks::{escape_assertion, escape_eval, remove_comment};
use casbin::{DefaultRoleManager, EnforceContext, RoleManager};
use std::future::Future;
use std::pin::Pin;
use std::sync::{Arc, RwLock};
use std::task::{Context, Poll, Wake, Waker};

//@DEF_PACKAGE@

fn register_function(engine: &mut Engine, key: &str, f: OperatorFunction) {
    match f {
        OperatorFunction::Arg0(func) => { engine.register_fn(key, func); }
        OperatorFunction::Arg1(func) => { engine.register_fn(key, func); }
        OperatorFunction::Arg2(func) => { engine.register_fn(key, func); }
        OperatorFunction::Arg3(func) => { engine.register_fn(key, func); }
        OperatorFunction::Arg4(func) => { engine.register_fn(key, func); }
        OperatorFunction::Arg5(func) => { engine.register_fn(key, func); }
        OperatorFunction::Arg6(func) => { engine.register_fn(key, func); }
    }
}

struct NoWake;
impl Wake for NoWake { fn wake(self: Arc<Self>) {} }
fn block_on<F: Future>(f: F) -> F::Output {
    let waker = Waker::from(Arc::new(NoWake));
    let mut cx = Context::from_waker(&waker);
    let mut f = Box::pin(f);
    loop {
        if let Poll::Ready(v) = Pin::as_mut(&mut f).poll(&mut cx) { return v; }
    }
}

fn hex(b: &[u8]) -> String { b.iter().map(|x| format!("{:02x}", x)).collect() }
fn unhex(s: &str) -> String {
    let b: Vec<u8> = (0..s.len() / 2).map(|i| u8::from_str_radix(&s[2 * i..2 * i + 2], 16).unwrap()).collect();
    String::from_utf8(b).unwrap()
}

fn show_scalar(d: &Dynamic) -> Option<String> {
    if d.is_unit() { return Some("U".into()); }
    if let Ok(b) = d.as_bool() { return Some(format!("B {}", b)); }
    if let Ok(i) = d.as_int() { return Some(format!("I {}", i)); }
    if d.is_string() { let s = d.clone().into_immutable_string().unwrap(); return Some(format!("S {}", hex(s.as_bytes()))); }
    None
}
fn show(d: &Dynamic) -> String {
    if let Some(s) = show_scalar(d) { return s; }
    if d.is_map() {
        let m = d.clone().cast::<Map>();
        let mut parts = vec![];
        for (k, v) in m.iter() {
            parts.push(format!("{}={}", hex(k.as_bytes()), show_scalar(v).unwrap_or_else(|| "O".into()).replace(' ', ":")));
        }
        return format!("M {}", parts.join(","));
    }
    format!("O {}", d.type_name())
}

fn uf_eq(a: ImmutableString, b: ImmutableString) -> Dynamic { (a == b).into() }
fn uf_neq(a: ImmutableString, b: ImmutableString) -> Dynamic { (a != b).into() }
fn uf_prefix(a: ImmutableString, b: ImmutableString) -> Dynamic { a.starts_with(b.as_str()).into() }
fn uf_true(_a: ImmutableString) -> Dynamic { true.into() }
fn ufun(kind: &str) -> OperatorFunction {
    match kind {
        "Eq" => OperatorFunction::Arg2(uf_eq),
        "Neq" => OperatorFunction::Arg2(uf_neq),
        "Prefix" => OperatorFunction::Arg2(uf_prefix),
        "True" => OperatorFunction::Arg1(uf_true),
        _ => panic!("ufun kind"),
    }
}

#[derive(Default)]
struct Case {
    id: String,
    text: String,
    vars: Vec<(String, Dynamic)>,
    ufuns: Vec<(String, String)>,
    gfuns: Vec<(String, usize)>,
    links: Vec<(String, String, Option<String>)>,
    cross: bool,
}

fn parse_value(kind: &str, val: &str) -> Dynamic {
    match kind {
        "S" => Dynamic::from(unhex(val)),
        "I" => Dynamic::from(val.parse::<i32>().unwrap()),
        "B" => Dynamic::from(val == "1"),
        "U" => Dynamic::UNIT,
        "M" => {
            let mut m = Map::new();
            if val != "-" {
                for kv in val.split(',') {
                    let (k, v) = kv.split_once('=').unwrap();
                    let (vk, vv) = v.split_once(':').unwrap();
                    m.insert(unhex(k).into(), parse_value(vk, vv));
                }
            }
            Dynamic::from(m)
        }
        _ => panic!("value kind"),
    }
}

// the engine exactly as Enforcer::new_raw builds it, then register_g_functions, then add_function
fn direct(c: &Case) -> String {
    let fm = FunctionMap::default();
    let mut engine = Engine::new_raw();
    let pkg = CasbinPackage::new();
    engine.register_global_module(pkg.as_shared_module());
    for (key, &func) in fm.get_functions() { register_function(&mut engine, key, func); }
    let rm: Arc<RwLock<DefaultRoleManager>> = Arc::new(RwLock::new(DefaultRoleManager::new(10)));
    for (a, b, d) in &c.links { rm.write().unwrap().add_link(a, b, d.as_deref()); }
    for (name, arity) in &c.gfuns {
        let rm2 = Arc::clone(&rm);
        if *arity == 2 {
            engine.register_fn(name.as_str(), move |a: ImmutableString, b: ImmutableString| rm2.read().unwrap().has_link(&a, &b, None));
        } else {
            engine.register_fn(name.as_str(), move |a: ImmutableString, b: ImmutableString, d: ImmutableString| {
                rm2.read().unwrap().has_link(&a, &b, Some(&d))
            });
        }
    }
    for (key, &func) in fm.get_functions() { register_function(&mut engine, key, func); }
    for (name, kind) in &c.ufuns { register_function(&mut engine, name, ufun(kind)); }
    let mut scope = Scope::new();
    for (n, v) in &c.vars { scope.push_constant_dynamic(n.as_str(), v.clone()); }
    // DefaultModel::add_def: remove_comment, escape_assertion; private_enforce: escape_eval
    let value = escape_assertion(&remove_comment(&c.text));
    let r = std::panic::catch_unwind(std::panic::AssertUnwindSafe(|| {
        match engine.compile_expression(escape_eval(&value)) {
            Err(e) => format!("PARSE {}", hex(e.to_string().as_bytes())),
            Ok(ast) => match engine.eval_ast_with_scope::<Dynamic>(&mut scope, &ast) {
                Ok(d) => show(&d),
                Err(e) => format!("ERR {}", hex(e.to_string().lines().next().unwrap_or("").as_bytes())),
            },
        }
    }));
    match r { Ok(s) => s, Err(_) => "PANIC".into() }
}

// the same text as the matcher of a real Enforcer; request = the r-variables, one policy rule = the p-variables
fn cross(c: &Case) -> String {
    let mut rsuf: Option<String> = None;
    let (mut rtoks, mut rvals, mut ptoks, mut pvals) = (vec![], vec![], vec![], vec![]);
    for (n, v) in &c.vars {
        let (pre, fld) = n.split_once('_').unwrap();
        let suf = pre[1..].to_string();
        if let Some(s) = &rsuf { if *s != suf { return "-".into(); } } else { rsuf = Some(suf.clone()); }
        if pre.starts_with('r') { rtoks.push(fld.to_string()); rvals.push(v.clone()); }
        else if pre.starts_with('p') {
            if !v.is_string() { return "-".into(); }
            ptoks.push(fld.to_string()); pvals.push(v.clone().into_string().unwrap());
        } else { return "-".into(); }
    }
    let suf = rsuf.unwrap_or_default();
    if rtoks.is_empty() || ptoks.is_empty() { return "-".into(); }
    let r = std::panic::catch_unwind(std::panic::AssertUnwindSafe(|| {
        let mut m = DefaultModel::default();
        m.add_def("r", &format!("r{}", suf), &rtoks.join(", "));
        m.add_def("p", &format!("p{}", suf), &ptoks.join(", "));
        m.add_def("e", &format!("e{}", suf), "some(where (p.eft == allow))");
        m.add_def("m", &format!("m{}", suf), &c.text);
        for (name, arity) in &c.gfuns { m.add_def("g", name, if *arity == 2 { "_, _" } else { "_, _, _" }); }
        let mut e = match block_on(Enforcer::new(m, MemoryAdapter::default())) { Ok(e) => e, Err(_) => return "NEWERR".to_string() };
        for (name, kind) in &c.ufuns { e.add_function(name, ufun(kind)); }
        block_on(e.add_named_policy(&format!("p{}", suf), pvals.clone())).unwrap();
        for (a, b, d) in &c.links {
            // every link goes to the role definition of matching arity
            for (name, arity) in &c.gfuns {
                if (*arity == 2) == d.is_none() {
                    let mut rule = vec![a.clone(), b.clone()];
                    if let Some(d) = d { rule.push(d.clone()); }
                    block_on(e.add_named_grouping_policy(name, rule)).unwrap();
                }
            }
        }
        let res = if suf.is_empty() { e.enforce(rvals.clone()) } else { e.enforce_with_context(EnforceContext::new(&suf), rvals.clone()) };
        match res { Ok(b) => format!("OK {}", b), Err(_) => "ERR".to_string() }
    }));
    match r { Ok(s) => s, Err(_) => "PANIC".into() }
}

fn main() {
    std::panic::set_hook(Box::new(|_| {}));
    let mut c = Case::default();
    for line in std::io::stdin().lines() {
        let line = line.unwrap();
        let f: Vec<&str> = line.split(' ').collect();
        match f[0] {
            "C" => { c = Case::default(); c.id = f[1].to_string(); }
            "T" => { c.text = unhex(f.get(1).unwrap_or(&"")); }
            "V" => { c.vars.push((unhex(f[1]), parse_value(f[2], f.get(3).unwrap_or(&"")))); }
            "F" => { c.ufuns.push((unhex(f[1]), f[2].to_string())); }
            "G" => { c.gfuns.push((unhex(f[1]), f[2].parse().unwrap())); }
            "L" => { c.links.push((unhex(f[1]), unhex(f[2]), f.get(3).map(|x| unhex(x)))); }
            "X" => { c.cross = f[1] == "1"; }
            "E" => {
                let d = direct(&c);
                let x = if c.cross { cross(&c) } else { "-".into() };
                println!("{} | {} | {}", c.id, d, x);
            }
            _ => panic!("bad record"),
        }
    }
}
