#!/usr/bin/env python3
"""Robustness / sensitivity demonstration for part 11 of rs2coq (tools/rs2coq_rm.py:
src/rbac/default_role_manager.rs -> coq/Gen/RoleManagerGen.v, obligations in
coq/PinChecks/PcRoleManagerGen.v).

For every variant: copy /repo/src to a scratch directory (tempfile.mkdtemp(), outside /repo
and /verif), replace the body of one function of default_role_manager.rs, run rs2coq_rm on
the scratch copy, rebuild PinChecks/PcRoleManagerGen.vo and compare the outcome with the
expectation (meaning-preserving rewrite -> the proofs pass unchanged; change of meaning ->
a proof fails or the function leaves the translated subset).  For a failing variant that was
translated with unchanged signatures, a battery of concrete histories / queries is evaluated
by vm_compute on the translated functions and on the model, and the first difference is
reported (so that a failed proof is seen to be a change of meaning, not a weak tactic).
The pristine generated file is restored at the end.

usage: python3 tools/rs2coq_demo_rm.py [label-prefix ..]
"""
import os
import re
import shutil
import subprocess
import sys
import tempfile

HERE = os.path.dirname(os.path.abspath(__file__))
ROOT = os.path.dirname(HERE)
COQ = os.path.join(ROOT, "coq")
SCRATCH = tempfile.mkdtemp(prefix="rs2coq_demo_rm_")
sys.path.insert(0, HERE)
import pins  # noqa: E402

RM = "src/rbac/default_role_manager.rs"
OWNER_HDR = {"rm": r"impl\s+DefaultRoleManager\s*\{", "trait": r"impl\s+RoleManager\s+for\s+DefaultRoleManager\s*\{",
             "bfs": r"impl\s+Bfs\s*\{", "free": None}

ADD_LINK_TAIL = """
        let role1 = self.get_or_create_role(name1, domain);
        let role2 = self.get_or_create_role(name2, domain);

        let graph = self
            .all_domains
            .get_mut(domain.unwrap_or(DEFAULT_DOMAIN))
            .unwrap();

        let add_link = if let Some(edge) = graph.find_edge(%s) {
            !matches!(graph[edge], EdgeVariant::Link)
        } else {
            true
        };

        if add_link {
            graph.%s(role1, role2, EdgeVariant::Link);

            #[cfg(feature = "cached")]
            self.cache.clear()
        }
    }"""

BFS_ITER_HEAD = """{
        let outgoing_direct_edge = graph
            .edges_directed(node, petgraph::Direction::Outgoing)
            %s;

        if !with_matches {
            return Box::new(outgoing_direct_edge);
        }
"""
BFS_ITER_TAIL = """
        let outgoing_match_edge = graph
            .edges_directed(node, petgraph::Direction::Outgoing)
            .filter(|edge| matches!(*edge.weight(), EdgeVariant::Link))
            .flat_map(move |edge| {
                graph
                    .edges_directed(edge.target(), petgraph::Direction::Outgoing)
                    .filter_map(|edge| match *edge.weight() {
                        EdgeVariant::Match => Some(edge.target()),
                        EdgeVariant::Link => None,
                    })
            });
        let sibling_matched_by = graph
            .edges_directed(node, petgraph::Direction::Incoming)
            .filter(|edge| matches!(*edge.weight(), EdgeVariant::Match))
            .flat_map(move |edge| {
                graph
                    .edges_directed(edge.source(), petgraph::Direction::Outgoing)
                    .filter_map(|edge| match *edge.weight() {
                        EdgeVariant::Link => Some(edge.target()),
                        EdgeVariant::Match => None,
                    })
            });
        Box::new(
            outgoing_direct_edge
                .chain(outgoing_match_edge)
                .chain(sibling_matched_by),
        )
    }"""

NEXT_BODY = """{
            if %s {
                return None;
            }

            if let Some(node) = self.queue.pop_front() {
                self.update_depth();

                let mut counter = 0;
                for succ in
                    bfs_iterator(graph, node, self.with_pattern_matching)
                {
                    if self.discovered.visit(succ) {
                        self.queue.push_back(succ);
                        counter += 1;
                    }
                }

                self.depth_elements_remaining += counter;

                Some(node)
            } else {
                None
            }
        }"""

DELETE_BODY = """{
        if name1 == name2 {
            return Ok(());
        }

        if !self.domain_has_role(name1, domain)
            || !self.domain_has_role(%s, domain)
        {
            return Err(
                RbacError::NotFound(format!("{} OR {}", name1, name2)).into()
            );
        }

        let role1 = self.get_or_create_role(name1, domain);
        let role2 = self.get_or_create_role(name2, domain);

        let graph = self
            .all_domains
            .get_mut(domain.unwrap_or(DEFAULT_DOMAIN))
            .unwrap();

        if let Some(edge_index) = graph.find_edge(role1, role2) {
            graph.remove_edge(edge_index).unwrap();

            #[cfg(feature = "cached")]
            self.cache.clear();
        }

        Ok(())
    }"""

MATCHED_BODY = """{
        let domain = domain.unwrap_or(DEFAULT_DOMAIN);%s
        if let Some(domain_matching_fn) = self.domain_matching_fn {
            self.all_domains
                .keys()
                .filter_map(|key| {
                    if domain_matching_fn(domain, key) {
                        Some(key.to_owned())
                    } else {
                        None
                    }
                })
                .collect::<Vec<String>>()
        } else {
            self.all_domains
                .get(domain)
                .map_or(vec![], |_| vec![domain.to_owned()])
        }
    }"""

# (label, expectation, owner, function, new body)
VARIANTS = [
    ("P0 unmodified sources", "pass", None, None, None),
    ("P1 link_if_matches: no let-bound weights, early return instead of the final if/else, match instead of if let",
     "pass", "free", "link_if_matches", """{
    if !role_matching_fn(&graph[maybe_pattern_id], &graph[not_pattern_id]) {
        return false;
    }
    let exists_already = match graph.find_edge(not_pattern_id, maybe_pattern_id) {
        Some(idx) => matches!(graph[idx], EdgeVariant::Match),
        None => false,
    };
    if exists_already {
        return false;
    }
    graph.add_edge(not_pattern_id, maybe_pattern_id, EdgeVariant::Match);
    true
}"""),
    ("P2 add_link: the whole body under `if name1 != name2` instead of the early return", "pass", "trait", "add_link",
     "{\n        if name1 != name2 {" + (ADD_LINK_TAIL % ("role1, role2", "add_edge"))[:-6] + "\n        }\n    }"),
    ("P3 update_depth: x = x - 1, constant on the left of ==, depth = depth + 1", "pass", "bfs", "update_depth", """{
            self.depth_elements_remaining = self.depth_elements_remaining - 1;
            if 0 == self.depth_elements_remaining {
                self.depth = self.depth + 1;
            }
        }"""),
    ("P4 next: depth >= max_depth, match on pop_front instead of if let", "pass", "bfs", "next", """{
            if self.depth >= self.max_depth {
                return None;
            }
            match self.queue.pop_front() {
                Some(node) => {
                    self.update_depth();
                    let mut counter = 0;
                    for succ in bfs_iterator(graph, node, self.with_pattern_matching) {
                        if self.discovered.visit(succ) {
                            self.queue.push_back(succ);
                            counter += 1;
                        }
                    }
                    self.depth_elements_remaining += counter;
                    Some(node)
                }
                None => None,
            }
        }"""),
    ("P5 bfs_iterator: filter + map and if/matches! in the closures instead of filter_map + match", "pass", "free", "bfs_iterator",
     (BFS_ITER_HEAD % """.filter(|edge| matches!(*edge.weight(), EdgeVariant::Link))
            .map(|edge| edge.target())""") + BFS_ITER_TAIL.replace("""                    .filter_map(|edge| match *edge.weight() {
                        EdgeVariant::Match => Some(edge.target()),
                        EdgeVariant::Link => None,
                    })""", """                    .filter_map(|edge| {
                        if matches!(*edge.weight(), EdgeVariant::Match) {
                            Some(edge.target())
                        } else {
                            None
                        }
                    })""")),
    ("P6 domain_has_role: one boolean expression with a match on the matching function", "pass", "rm", "domain_has_role", """{
        let matched_domains = self.matched_domains(domain);
        matched_domains.iter().any(|domain| {
            self.all_domains_indices[domain].contains_key(name)
                || match self.role_matching_fn {
                    Some(f) => self.all_domains[domain].node_weights().any(|role| f(name, role)),
                    None => false,
                }
        })
    }"""),
    ("P7 get_or_create_role: `added = f() || added`, the filter on the weights written the other way round", "pass", "rm",
     "get_or_create_role", """{
        let domain = domain.unwrap_or(DEFAULT_DOMAIN);
        let graph = self.all_domains.entry(domain.into()).or_default();
        let role_entry = self
            .all_domains_indices
            .entry(domain.into())
            .or_default()
            .entry(name.into());
        let vacant_entry = match role_entry {
            Entry::Occupied(e) => return *e.get(),
            Entry::Vacant(e) => e,
        };
        let new_role_id = graph.add_node(name.into());
        vacant_entry.insert(new_role_id);
        if let Some(role_matching_fn) = self.role_matching_fn {
            let mut added = false;
            let node_ids: Vec<_> =
                graph.node_indices().filter(|&i| !(name == graph[i])).collect();
            for existing_role_id in node_ids {
                added = link_if_matches(graph, role_matching_fn, new_role_id, existing_role_id) || added;
                added = link_if_matches(graph, role_matching_fn, existing_role_id, new_role_id) || added;
            }
            if added {
                #[cfg(feature = "cached")]
                self.cache.clear();
            }
        }
        new_role_id
    }"""),
    ("N1 (i) add_link: duplicate check with find_edge(role1, role1)", "fail", "trait", "add_link",
     "{\n        if name1 == name2 {\n            return;\n        }\n" + ADD_LINK_TAIL % ("role1, role1", "add_edge")),
    ("N2 (ii) add_link: returns early when has_link(name1, name2, domain) already holds", "fail", "trait", "add_link",
     "{\n        if name1 == name2 {\n            return;\n        }\n        if self.has_link(name1, name2, domain) {\n            return;\n        }\n"
     + ADD_LINK_TAIL % ("role1, role2", "add_edge")),
    ("N3 (iii) add_link: refuses a link that closes a cycle", "fail", "trait", "add_link",
     "{\n        if name1 == name2 {\n            return;\n        }\n        if self.has_link(name2, name1, domain) {\n            return;\n        }\n"
     + ADD_LINK_TAIL % ("role1, role2", "add_edge")),
    ("N4 (iv) add_link: graph.update_edge instead of add_edge", "fail", "trait", "add_link",
     "{\n        if name1 == name2 {\n            return;\n        }\n" + ADD_LINK_TAIL % ("role1, role2", "update_edge")),
    ("N5 (v) matched_domains: an empty domain name means the default domain", "fail", "rm", "matched_domains",
     MATCHED_BODY % "\n        let domain = if domain.is_empty() { DEFAULT_DOMAIN } else { domain };"),
    ("N6 (vi) delete_link: domain_has_role(name1) checked twice", "fail", "trait", "delete_link", DELETE_BODY % "name1"),
    ("N7 (vii) Bfs::next: max_depth < depth instead of <=", "fail", "bfs", "next", NEXT_BODY % "self.max_depth < self.depth"),
    ("N8 (viii) update_depth: increments when depth_elements_remaining == 1", "fail", "bfs", "update_depth", """{
            self.depth_elements_remaining -= 1;
            if self.depth_elements_remaining == 1 {
                self.depth += 1
            }
        }"""),
    ("N9 link_if_matches: the arguments of the matching function swapped", "fail", "free", "link_if_matches", """{
    let not_pattern = &graph[not_pattern_id];
    let maybe_pattern = &graph[maybe_pattern_id];
    if !role_matching_fn(not_pattern, maybe_pattern) {
        return false;
    }
    let add_edge =
        if let Some(idx) = graph.find_edge(not_pattern_id, maybe_pattern_id) {
            !matches!(graph[idx], EdgeVariant::Match)
        } else {
            true
        };
    if add_edge {
        graph.add_edge(not_pattern_id, maybe_pattern_id, EdgeVariant::Match);
        true
    } else {
        false
    }
}"""),
    ("N10 bfs_iterator: the sibling part follows OUTGOING Match edges of the node", "fail", "free", "bfs_iterator",
     (BFS_ITER_HEAD % """.filter_map(|edge| match *edge.weight() {
                EdgeVariant::Link => Some(edge.target()),
                EdgeVariant::Match => None,
            })""") + BFS_ITER_TAIL.replace("""            .edges_directed(node, petgraph::Direction::Incoming)
            .filter(|edge| matches!(*edge.weight(), EdgeVariant::Match))""", """            .edges_directed(node, petgraph::Direction::Outgoing)
            .filter(|edge| matches!(*edge.weight(), EdgeVariant::Match))""")),
    ("N11 Bfs::next: the queue is used as a stack (push_front): depth-first order", "fail", "bfs", "next",
     (NEXT_BODY % "self.max_depth <= self.depth").replace("push_back", "push_front")),
    ("N12 delete_link: a statement that is not a cache operation under #[cfg(feature = \"cached\")] (rejected)", "fail",
     "trait", "delete_link", (DELETE_BODY % "name2").replace("""            #[cfg(feature = "cached")]
            self.cache.clear();""", """            #[cfg(feature = "cached")]
            self.all_domains.clear();""")),
]


def run(cmd, **kw):
    return subprocess.run(cmd, stdout=subprocess.PIPE, stderr=subprocess.STDOUT, text=True, **kw)


# a battery of concrete comparisons between the translated functions and the model
WITNESS_V = r"""
From CV Require Import Model.Base Model.RoleGraph Model.RoleGraphM.
From CV Require Import Gen.RustStr Gen.RustVec Gen.RustIter Gen.Petgraph Gen.RoleManagerGen.
Definition km : mfun := fun a b =>
  match b with c :: _ => if Ascii.eqb c "*"%char then true else teqb a b | [] => teqb a b end.
Definition step (s : rm_state) (o : mop) : option (rm_state * bool) :=
  match o with
  | MAdd a b d => match gen_add_link s a b d with Some s' => Some (s', true) | None => None end
  | MDel a b d => match gen_delete_link (fun l => l) s a b d with Some (s', r) => Some (s', rs_is_ok r) | None => None end
  | MClear => match gen_clear s with Some s' => Some (s', true) | None => None end
  | MSetFns rf df => match gen_matching_fn s rf df with Some s' => Some (s', true) | None => None end
  end.
Fixpoint runh (s : rm_state) (h : list mop) : option (rm_state * list bool) :=
  match h with
  | [] => Some (s, [])
  | o :: h' => match step s o with
               | None => None
               | Some (s', b) => match runh s' h' with None => None | Some (s'', bs) => Some (s'', b :: bs) end
               end
  end.
Definition ekb (a b : ekind) := match a, b with KLink, KLink | KMatch, KMatch => true | _, _ => false end.
Definition edgeb (a b : medge) := teqb (e_src a) (e_src b) && teqb (e_dst a) (e_dst b) && ekb (e_kind a) (e_kind b).
Definition graphb (a b : mgraph) := list_eqb teqb (m_nodes a) (m_nodes b) && list_eqb edgeb (m_edges a) (m_edges b).
Definition domsb (a b : list (text * mgraph)) := list_eqb (fun x y => teqb (fst x) (fst y) && graphb (snd x) (snd y)) a b.
Definition boolsb := list_eqb Bool.eqb.
Definition same_state (lvl : nat) (h : list mop) : bool :=
  match runh (gen_new lvl) h with
  | Some (s, fl) => domsb (rm_all_domains s) (r_doms (mrun h)) && boolsb fl (mrun_flags empty_mrm h)
  | None => false
  end.
Definition same_has (lvl : nat) (h : list mop) (a b : text) (d : option text) : bool :=
  match runh (gen_new lvl) h with
  | Some (s, _) => match gen_has_link (fun l => l) 20 s a b d with
                   | Some r => Bool.eqb r (m_has_link lvl (mrun h) a b d)
                   | None => false
                   end
  | None => false
  end.
Definition same_roles (h : list mop) (a : text) : bool :=
  match runh (gen_new 10) h with
  | Some (s, _) => match gen_get_roles (fun l => l) s a None with
                   | Some r => list_eqb teqb r (m_get_roles (mrun h) a None) | None => false end
  | None => false
  end.
Definition chain := [MAdd (T "a") (T "b") None; MAdd (T "b") (T "c") None; MAdd (T "c") (T "d") None; MAdd (T "d") (T "e") None].
Definition tree := [MAdd (T "a") (T "b") None; MAdd (T "a") (T "c") None; MAdd (T "b") (T "d") None; MAdd (T "c") (T "e") None;
                    MAdd (T "d") (T "f") None; MAdd (T "e") (T "g") None].
Definition pat := [MSetFns (Some km) None; MAdd (T "*") (T "bob") None; MAdd (T "bob") (T "grp") None; MAdd (T "*x") (T "top") None].
Eval vm_compute in
  [same_state 10 [MAdd (T "a") (T "b") None; MAdd (T "a") (T "b") None];
   same_state 10 [MAdd (T "a") (T "b") None; MAdd (T "b") (T "a") None];
   same_state 10 pat;
   same_state 10 [MAdd (T "a") (T "b") None; MDel (T "a") (T "zzz") None];
   same_state 10 [MAdd (T "a") (T "b") None; MAdd (T "b") (T "c") None; MAdd (T "a") (T "c") None];
   same_has 10 [MAdd (T "a") (T "b") None] (T "a") (T "b") (Some (T ""));
   same_has 1 chain (T "a") (T "b") None;
   same_has 1 chain (T "a") (T "c") None;
   same_has 2 chain (T "a") (T "d") None;
   same_has 3 chain (T "a") (T "e") None;
   same_has 2 tree (T "a") (T "f") None;
   same_has 3 tree (T "a") (T "g") None;
   same_has 10 pat (T "zed") (T "grp") None;
   same_has 10 pat (T "bob") (T "top") None;
   same_roles pat (T "zed");
   same_roles tree (T "a")].
"""
WITNESS_DESCR = [
    "state after add_link(a,b); add_link(a,b)",
    "state after add_link(a,b); add_link(b,a)",
    "state after matching_fn(key-match-like); add_link(*,bob); add_link(bob,grp); add_link(*x,top)",
    "state / flags after add_link(a,b); delete_link(a,zzz)",
    "state after add_link(a,b); add_link(b,c); add_link(a,c)",
    "has_link(a,b,Some(\"\")) after add_link(a,b,None)",
    "has_link(a,b) on the chain a-b-c-d-e, max_hierarchy_level 1",
    "has_link(a,c) on the chain a-b-c-d-e, max_hierarchy_level 1",
    "has_link(a,d) on the chain a-b-c-d-e, max_hierarchy_level 2",
    "has_link(a,e) on the chain a-b-c-d-e, max_hierarchy_level 3",
    "has_link(a,f) on the tree a-(b-d-f, c-e-g), max_hierarchy_level 2",
    "has_link(a,g) on the tree a-(b-d-f, c-e-g), max_hierarchy_level 3",
    "has_link(zed,grp) with patterns",
    "has_link(bob,top) with patterns",
    "get_roles(zed) with patterns (order included)",
    "get_roles(a) on the tree (order included)",
]


def witness():
    path = os.path.join(SCRATCH, "Witness.v")
    # a variant may have given a function the implicit parameters `ord` / `fuel` (it now iterates over a hash
    # container / contains a `while let`): pass the stored order and 20 iterations
    gen = open(os.path.join(COQ, "Gen", "RoleManagerGen.v")).read()
    txt = WITNESS_V
    for fn in ("gen_add_link", "gen_delete_link", "gen_has_link", "gen_get_roles", "gen_clear", "gen_matching_fn"):
        m = re.search(r"Definition %s ((?:\([^)]*\) ?)*):" % fn, gen)
        binders = m.group(1) if m else ""
        extra = (" (fun l => l)" if "(ord :" in binders else "") + (" 20" if "(fuel :" in binders else "")
        txt = re.sub(r"\b%s(?: \(fun l => l\))?(?: 20)? s\b" % fn, "%s%s s" % (fn, extra), txt)
    open(path, "w").write(txt)
    r = run(["timeout", "300", "coqc", "-Q", ".", "CV", path], cwd=COQ)
    m = re.search(r"=\s*\[([^\]]*)\]\s*:\s*list bool", r.stdout)
    if r.returncode != 0 or not m:
        em = re.search(r"Error:(.*?)(?:\n\n|\Z)", r.stdout, re.S)
        return "the battery does not typecheck any more (%s)" % (" ".join(em.group(1).split())[:110] if em else "?")
    vals = [x.strip() for x in m.group(1).split(";")]
    bad = [d for d, v in zip(WITNESS_DESCR, vals) if v == "false"]
    return ("translated code and model differ on: " + bad[0]) if bad else "no difference on the fixed inputs"


def replace_body(owner, fn, body):
    path = os.path.join(SCRATCH, RM)
    src = open(path, encoding="utf-8").read()
    start = 0
    if OWNER_HDR[owner] is not None:
        start = re.search(OWNER_HDR[owner], src).start()
    old = pins.fn_body(src, r"fn\s+%s\s*\(" % fn, start)
    assert old is not None and src.count(old) == 1, fn
    open(path, "w", encoding="utf-8").write(src.replace(old, body))


def regenerate(repo):
    env = dict(os.environ, VERIF_REPO=repo)
    return run([sys.executable, os.path.join(HERE, "rs2coq_rm.py"), os.path.join(COQ, "Gen")], env=env)


def main():
    only = sys.argv[1:]
    results = []
    part = "PcRoleManagerGen"
    for label, expect, owner, fn, body in VARIANTS:
        if only and not any(label.startswith(o) for o in only):
            continue
        shutil.rmtree(SCRATCH, ignore_errors=True)
        shutil.copytree("/repo/src", os.path.join(SCRATCH, "src"))
        if fn is not None:
            replace_body(owner, fn, body)
        regenerate(SCRATCH)
        mk = run(["timeout", "900", "make", "PinChecks/%s.vo" % part], cwd=COQ)
        ok = mk.returncode == 0
        why = ""
        if not ok:
            m = re.search(r'File "\./PinChecks/%s\.v", line (\d+).*?\n(Error:.*?)(?:\n\n|\nmake)' % part, mk.stdout, re.S)
            if m:
                thm = ""
                lines = open(os.path.join(COQ, "PinChecks", part + ".v")).read().split("\n")
                for k in range(int(m.group(1)) - 1, -1, -1):
                    mm = re.match(r"(?:Theorem|Lemma|Example|Corollary)\s+(\w+)", lines[k])
                    if mm:
                        thm = mm.group(1)
                        break
                why = "%s: %s" % (thm, " ".join(m.group(2).split())[:90])
            else:
                why = " ".join(mk.stdout.strip().split("\n")[-3:])[:200]
        gen = open(os.path.join(COQ, "Gen", "RoleManagerGen.v")).read()
        note = ""
        fm = re.search(r"\(\* translation of (\w+) failed: (.*?) \*\)", gen, re.S)
        if fm:
            note = " [untranslatable %s: %s]" % (fm.group(1), fm.group(2))
        if not ok and not fm:
            note += " [witness: %s]" % witness()
        verdict = "pass" if ok else "fail"
        flag = "as expected" if verdict == expect else "UNEXPECTED"
        print("%-4s (%s) %s%s%s" % (verdict.upper(), flag, label, (" -> " + str(why)) if why else "", note))
        sys.stdout.flush()
        results.append(verdict == expect)
    regenerate("/repo")
    mk = run(["timeout", "900", "make", "PinChecks/%s.vo" % part], cwd=COQ)
    print("restored from /repo:", "build ok" if mk.returncode == 0 else "BUILD FAILED")
    shutil.rmtree(SCRATCH, ignore_errors=True)
    print("%d/%d variants behaved as expected" % (sum(results), len(results)))
    return 0 if all(results) and mk.returncode == 0 else 1


if __name__ == "__main__":
    sys.exit(main())
