#!/usr/bin/env python3
"""Robustness / sensitivity demonstration for part 18 of rs2coq (the policy store of DefaultModel as whole functions, the
lookup macros, convert.rs, the decision cache, the error enums: tools/rs2coq_model2.py, coq/Gen/Model2Gen.v,
coq/PinChecks/PcModel2Gen.v, coq/Properties/Model2Gen.v).

For every variant: copy /repo/src to a scratch repo (tempfile.mkdtemp()), edit one or two places of default_model.rs /
macros.rs / convert.rs / default_cache.rs, run the WHOLE translator (tools/rs2coq.py: all parts) on the scratch repo,
rebuild the obligations that read those files (PcStoreGen, PcLinksGen, PcModel2Gen, Properties/Model2Gen; for a change of
macros.rs also PcEnforceGen, PcCachedGen, PcEnforcer2Gen) with `make -k` and compare the outcome with the expectation:
  meaning-preserving rewrite -> every proof passes unchanged;
  change of meaning          -> a proof or the translation fails (both are reported: which unit became untranslatable in
                                which generated file, and the first failing statement of every obligation file).
The pristine generated files are restored at the end and the obligations rebuilt.

usage: python3 tools/rs2coq_demo_model2.py [label-prefix ..]      e.g. `rs2coq_demo_model2.py MP` for the rewrites only
"""
import os
import re
import shutil
import subprocess
import sys
import tempfile

HERE = os.path.dirname(os.path.abspath(__file__))
ROOT = os.path.dirname(HERE)
COQ = os.path.join(ROOT, "coq")
SCRATCH = tempfile.mkdtemp(prefix="rs2coq_demo_model2_")     # outside /repo and /verif; removed at the end
sys.path.insert(0, HERE)
import pins  # noqa: E402

DM = "src/model/default_model.rs"
MAC = "src/macros.rs"
CONV = "src/convert.rs"
CACHE = "src/cache/default_cache.rs"
ERR = "src/error.rs"
MODEL_IMPL = r"impl\s+Model\s+for\s+DefaultModel"
CACHE_IMPL = r"impl\s*<\s*K\s*,\s*V\s*>\s*Cache\s*<\s*K\s*,\s*V\s*>\s*for\s+DefaultCache"

BASE_TARGETS = ["PinChecks/PcStoreGen.vo", "PinChecks/PcLinksGen.vo", "PinChecks/PcModel2Gen.vo", "Properties/Model2Gen.vo"]
MACRO_TARGETS = ["PinChecks/PcEnforceGen.vo", "PinChecks/PcCachedGen.vo", "PinChecks/PcEnforcer2Gen.vo"]

# an edit: (file, "fn", impl regex, function, new body | (old, new))   the body of a method
#          (file, "text", old, new)                                    a replacement in the file
VARIANTS = [
    ("MP0 unmodified sources", "pass", []),
    ("MP1 get_policy through an and_then chain, the result as the value of an if let / else, Vec::new()", "pass",
     [(DM, "fn", MODEL_IMPL, "get_policy", """{
        if let Some(ast) = self.model.get(sec).and_then(|section| section.get(ptype)) {
            ast.policy.iter().cloned().collect()
        } else {
            Vec::new()
        }
    }""")]),
    ("MP2 get_policy as a match on the section (through get_model()), Option::map + unwrap_or_default on the type", "pass",
     [(DM, "fn", MODEL_IMPL, "get_policy", """{
        match self.get_model().get(sec) {
            Some(section) => section
                .get(ptype)
                .map(|a| a.policy.iter().map(|r| r.clone()).collect())
                .unwrap_or_default(),
            None => vec![],
        }
    }""")]),
    ("MP3 has_policy / get_values_for_field_in_policy: locals renamed, the comparison turned round, the policy bound by a let", "pass",
     [(DM, "fn", MODEL_IMPL, "has_policy", """{
        let stored = self.get_policy(sec, ptype);
        for candidate in stored {
            if rule == candidate {
                return true;
            }
        }
        false
    }"""),
      (DM, "fn", MODEL_IMPL, "get_values_for_field_in_policy", """{
        let rules = self.get_policy(sec, ptype);
        rules
            .into_iter()
            .fold(LinkedHashSet::new(), |mut seen, r| {
                seen.insert(r[field_index].clone());
                seen
            })
            .into_iter()
            .collect()
    }""")]),
    ("MP4 add_policy / remove_policy / get_filtered_policy: the borrows renamed, the result of insert / remove bound by a let", "pass",
     [(DM, "fn", MODEL_IMPL, "add_policy", """{
        if let Some(section) = self.model.get_mut(sec) {
            if let Some(a) = section.get_mut(ptype) {
                if a.policy.contains(&rule) {
                    return false;
                }
                let added = a.policy.insert(rule);
                return added;
            }
        }
        false
    }"""),
      (DM, "fn", MODEL_IMPL, "remove_policy", """{
        if let Some(section) = self.model.get_mut(sec) {
            if let Some(a) = section.get_mut(ptype) {
                let was_there = a.policy.remove(&rule);
                return was_there;
            }
        }
        false
    }"""),
      (DM, "fn", MODEL_IMPL, "get_filtered_policy", ("if let Some(t1) = self.model.get(sec) {\n            if let Some(t2) = t1.get(ptype) {\n                for rule in t2.policy.iter() {",
                                                     "if let Some(by_type) = self.model.get(sec) {\n            if let Some(found) = by_type.get(ptype) {\n                for rule in found.policy.iter() {"))]),
    ("MP5 macros.rs: the metavariables of the two lookup macros renamed", "pass",
     [(MAC, "text", "($this:ident, $key:expr, $err:expr, $msg:expr) => {{\n        $this\n            .get_model()\n            .get_model()\n            .get($key)\n            .ok_or_else(|| {\n                $crate::error::Error::from($err(format!(\n                    \"Missing {} definition in conf file\",\n                    $msg\n                )))\n            })?\n            .get($key)\n            .ok_or_else(|| {\n                $crate::error::Error::from($err(format!(\n                    \"Missing {} section in conf file\",\n                    $msg\n                )))\n            })?",
       "($enf:ident, $k:expr, $mk:expr, $what:expr) => {{\n        $enf\n            .get_model()\n            .get_model()\n            .get($k)\n            .ok_or_else(|| {\n                $crate::error::Error::from($mk(format!(\n                    \"Missing {} definition in conf file\",\n                    $what\n                )))\n            })?\n            .get($k)\n            .ok_or_else(|| {\n                $crate::error::Error::from($mk(format!(\n                    \"Missing {} section in conf file\",\n                    $what\n                )))\n            })?")]),
    ("MP6 convert.rs: the tuple impls return Ok(vec![..]) directly, the Vec impl maps Into::into, Option<T> by a match", "pass",
     [(CONV, "text", "let _v = vec![$(to_dynamic($p)?,)*];\n\n                Ok(_v)", "Ok(vec![$(to_dynamic($p)?,)*])"),
      (CONV, "text", "Ok(self.into_iter().map(|x| x.into()).collect())", "Ok(self.into_iter().map(Into::into).collect())"),
      (CONV, "text", "if let Some(m) = self {\n            m.try_into_model().await\n        } else {\n            Ok(Box::new(DefaultModel::default()))\n        }",
       "match self {\n            Some(inner) => inner.try_into_model().await,\n            None => Ok(Box::new(DefaultModel::default())),\n        }")]),
    ("MP7 default_cache.rs: has through get(..).is_some(), the capacity cast in two steps", "pass",
     [(CACHE, "fn", CACHE_IMPL, "has", """{
        self.cache.get(k).is_some()
    }"""),
      (CACHE, "text", "MokaCache::new(cap as u64)", "MokaCache::new((cap as usize) as u64)")]),
    # ---- changes of meaning
    ("MN1 (i) add_policy on a missing policy type CREATES the assertion", "fail",
     [(DM, "fn", MODEL_IMPL, "add_policy", """{
        if let Some(ast_map) = self.model.get_mut(sec) {
            let ast = ast_map.entry(ptype.to_owned()).or_insert_with(Assertion::default);
            if ast.policy.contains(&rule) {
                return false;
            }
            return ast.policy.insert(rule);
        }
        false
    }""")]),
    ("MN2 (ii) has_policy looks up the section \"p\" whatever sec is", "fail",
     [(DM, "fn", MODEL_IMPL, "has_policy", ("self.get_policy(sec, ptype)", "self.get_policy(\"p\", ptype)"))]),
    ("MN3 (iii) get_policy of a missing policy type returns the policy of type \"p\"", "fail",
     [(DM, "fn", MODEL_IMPL, "get_policy", """{
        if let Some(t1) = self.model.get(sec) {
            if let Some(t2) = t1.get(ptype) {
                return t2.policy.iter().map(|x| x.to_owned()).collect();
            }
            if let Some(t2) = t1.get("p") {
                return t2.policy.iter().map(|x| x.to_owned()).collect();
            }
        }
        vec![]
    }""")]),
    ("MN4a (iv) remove_filtered_policy returns (true, vec![]) for a missing policy type (an else on the lookup)", "fail",
     [(DM, "fn", MODEL_IMPL, "remove_filtered_policy", ("                if res && !rules_removed.is_empty() {\n                    for rule in rules_removed.iter() {\n                        ast.policy.remove(rule);\n                    }\n                }\n            }",
                                                        "                if res && !rules_removed.is_empty() {\n                    for rule in rules_removed.iter() {\n                        ast.policy.remove(rule);\n                    }\n                }\n            } else {\n                return (true, vec![]);\n            }"))]),
    ("MN4b (iv) the same through the initial value of the flag (res starts true, reset when the assertion is found)", "fail",
     [(DM, "fn", MODEL_IMPL, "remove_filtered_policy", ("let mut res = false;", "let mut res = true;")),
      (DM, "fn", MODEL_IMPL, "remove_filtered_policy", ("if let Some(ast) = ast_map.get_mut(ptype) {\n                for rule in ast.policy.iter() {",
                                                        "if let Some(ast) = ast_map.get_mut(ptype) {\n                res = false;\n                for rule in ast.policy.iter() {"))]),
    ("MN5 (v) get_values_for_field_in_policy uses sec as the policy-type key", "fail",
     [(DM, "fn", MODEL_IMPL, "get_values_for_field_in_policy", ("self.get_policy(sec, ptype)", "self.get_policy(sec, sec)"))]),
    ("MN6a (vi) get_or_err! returns the FIRST assertion of the section", "fail",
     [(MAC, "text", "            })?\n            .get($key)\n            .ok_or_else(|| {\n                $crate::error::Error::from($err(format!(\n                    \"Missing {} section in conf file\",\n                    $msg\n                )))\n            })?\n    }};\n}\n\n#[macro_export]\nmacro_rules! get_or_err_with_context",
       "            })?\n            .values()\n            .next()\n            .ok_or_else(|| {\n                $crate::error::Error::from($err(format!(\n                    \"Missing {} section in conf file\",\n                    $msg\n                )))\n            })?\n    }};\n}\n\n#[macro_export]\nmacro_rules! get_or_err_with_context")]),
    ("MN6b (vi) get_or_err_with_context! ignores the context (looks up the key in the section)", "fail",
     [(MAC, "text", ".get($ctx)", ".get($key)")]),
    ("MN6c the message of a missing section is reworded in get_or_err! (\"No .. definition\")", "fail",
     [(MAC, "text", "\"Missing {} definition in conf file\"", "\"No {} definition in conf file\"")]),
    ("MN7a (vii) try_into_vec of a tuple reverses the values", "fail",
     [(CONV, "text", "let _v = vec![$(to_dynamic($p)?,)*];\n\n                Ok(_v)", "let mut _v = vec![$(to_dynamic($p)?,)*];\n                _v.reverse();\n                Ok(_v)")]),
    ("MN7b (vii) try_into_vec of a Vec reverses the values", "fail",
     [(CONV, "text", "Ok(self.into_iter().map(|x| x.into()).collect())", "Ok(self.into_iter().rev().map(|x| x.into()).collect())")]),
    ("MN7c the 20-tuple impl is dropped (impl_args! starts at B)", "fail",
     [(CONV, "text", "impl_args!(A, B, C,", "impl_args!(B, C,")]),
    ("MN8a (viii) DefaultCache::clear is a no-op", "fail",
     [(CACHE, "fn", CACHE_IMPL, "clear", "{\n    }")]),
    ("MN8b (viii) DefaultCache::has answers true", "fail",
     [(CACHE, "fn", CACHE_IMPL, "has", "{\n        true\n    }")]),
    ("MN8c DefaultCache::set clears the cache instead of storing (still sound - nothing wrong is ever answered - but no longer the model's cons)", "fail",
     [(CACHE, "fn", CACHE_IMPL, "set", "{\n        self.cache.invalidate_all();\n    }")]),
    ("MN9 add_policy looks up the policy type in the map and the section in the result (keys swapped)", "fail",
     [(DM, "fn", MODEL_IMPL, "add_policy", ("self.model.get_mut(sec)", "self.model.get_mut(ptype)")),
      (DM, "fn", MODEL_IMPL, "add_policy", ("ast_map.get_mut(ptype)", "ast_map.get_mut(sec)"))]),
    ("MN10 get_policy panics on a missing section (unwrap)", "fail",
     [(DM, "fn", MODEL_IMPL, "get_policy", """{
        if let Some(t2) = self.model.get(sec).unwrap().get(ptype) {
            return t2.policy.iter().map(|x| x.to_owned()).collect();
        }
        vec![]
    }""")]),
    ("MN11 error.rs: a parse error of the matcher is reported as Error::ModelError (RhaiParseError dropped, From<ParseError> gone)", "fail",
     [(ERR, "text", "    #[error(\"Casbin Parse Error: `{0:?}`\")]\n    RhaiParseError(#[from] ParseError),\n", "")]),
]


def run(cmd, **kw):
    return subprocess.run(cmd, stdout=subprocess.PIPE, stderr=subprocess.STDOUT, text=True, **kw)


def fn_span(src, impl, fn):
    start = re.search(impl, src).start()
    hdr = r"fn\s+%s\s*(?:<[^>]*>)?\s*\(" % fn
    old = pins.fn_body(src, hdr, start)
    assert old is not None and src.count(old) >= 1, fn
    return old, src.find(old, start)


def apply_edit(edit):
    rel = edit[0]
    path = os.path.join(SCRATCH, rel)
    src = open(path, encoding="utf-8").read()
    if edit[1] == "text":
        old, new = edit[2], edit[3]
        assert old in src, (rel, old[:60])
        src = src.replace(old, new, 1) if old != ".get($ctx)" else src.replace(old, new)
    else:
        impl, fn, body = edit[2], edit[3], edit[4]
        oldb, at = fn_span(src, impl, fn)
        if isinstance(body, tuple):
            a, b = body
            assert a in oldb, (fn, a[:60])
            new = oldb.replace(a, b)
        else:
            new = body
        src = src[:at] + new + src[at + len(oldb):]
    open(path, "w", encoding="utf-8").write(src)


def regenerate(repo):
    env = dict(os.environ, VERIF_REPO=repo)
    return run([sys.executable, os.path.join(HERE, "rs2coq.py"), os.path.join(COQ, "Gen", "EffectorGen.v")], env=env)


def untranslatable_notes():
    out = []
    for g in ("Model2Gen.v", "StoreGen.v", "LinksGen.v", "EnforceGen.v", "CachedGen.v", "Enforcer2Gen.v"):
        try:
            txt = open(os.path.join(COQ, "Gen", g)).read()
        except OSError:
            continue
        for m in re.finditer(r"\(\* translation of (.*?) failed: (.*?) \*\)", txt, re.S):
            out.append("%s: %s: %s" % (g, " ".join(m.group(1).split()), " ".join(m.group(2).split())[:110]))
        for m in re.finditer(r"\(\* ([\w:! ]+): (no such impl found|an impl that the obligations do not know) \*\)", txt):
            out.append("%s: %s: %s" % (g, m.group(1), m.group(2)))
    return out


def failures(log):
    """[(file, statement, message)]: the first error of every file that failed"""
    out = []
    for m in re.finditer(r'File "\./([\w/]+\.v)", line (\d+), characters [\d-]+:\n(Error:.*?)(?:\n\n|\nmake|\Z)', log, re.S):
        rel, line, msg = m.group(1), int(m.group(2)), " ".join(m.group(3).split())[:100]
        thm = ""
        try:
            lines = open(os.path.join(COQ, rel)).read().split("\n")
            for k in range(line - 1, -1, -1):
                mm = re.match(r"\s*(?:Theorem|Lemma|Example|Corollary|Definition)\s+(\w+)", lines[k])
                if mm:
                    thm = mm.group(1)
                    break
        except OSError:
            pass
        out.append((rel, thm, msg))
    return out


def main():
    only = sys.argv[1:]
    results = []
    for label, expect, edits in VARIANTS:
        if only and not any(label.startswith(o) for o in only):
            continue
        shutil.rmtree(SCRATCH, ignore_errors=True)
        shutil.copytree("/repo/src", os.path.join(SCRATCH, "src"))
        for e in edits:
            apply_edit(e)
        regenerate(SCRATCH)
        targets = list(BASE_TARGETS)
        if any(e[0] == MAC for e in edits):
            targets += MACRO_TARGETS
        mk = run(["timeout", "2400", "make", "-k"] + targets, cwd=COQ)
        ok = mk.returncode == 0
        fs = failures(mk.stdout)
        notes = untranslatable_notes()
        verdict = "pass" if ok else "fail"
        flag = "as expected" if verdict == expect else "UNEXPECTED"
        print("%-4s (%s) %s" % (verdict.upper(), flag, label))
        for rel, thm, msg in fs:
            print("        broken: %s %s: %s" % (rel, thm, msg))
        for n in notes:
            print("        untranslatable: %s" % n)
        if not ok and not fs:
            print("        " + " ".join(mk.stdout.strip().split("\n")[-3:])[:300])
        if not ok and not any(rel == "PinChecks/PcModel2Gen.v" for rel, _t, _m in fs) and not any(n.startswith("Model2Gen.v") for n in notes):
            # an earlier part stopped the build before the obligations of part 18 were reached: what does part 18 say
            # on its own (the other generated files taken from the unmodified sources)
            regenerate("/repo")
            run([sys.executable, os.path.join(HERE, "rs2coq_model2.py"), os.path.join(COQ, "Gen")], env=dict(os.environ, VERIF_REPO=SCRATCH))
            mk2 = run(["timeout", "2400", "make", "-k", "PinChecks/PcModel2Gen.vo"], cwd=COQ)
            f2 = [x for x in failures(mk2.stdout) if x[0] == "PinChecks/PcModel2Gen.v"]
            n2 = [n for n in untranslatable_notes() if n.startswith("Model2Gen.v")]
            if f2:
                print("        part 18 alone: broken: %s %s: %s" % f2[0])
            for n in n2:
                print("        part 18 alone: untranslatable: %s" % n)
            if mk2.returncode == 0:
                print("        part 18 alone: its obligations still hold (the change is caught by the earlier part only)")
        sys.stdout.flush()
        results.append(verdict == expect)
    regenerate("/repo")
    mk = run(["timeout", "2400", "make"] + BASE_TARGETS + MACRO_TARGETS, cwd=COQ)
    print("restored from /repo:", "build ok" if mk.returncode == 0 else "BUILD FAILED")
    shutil.rmtree(SCRATCH, ignore_errors=True)
    print("%d/%d variants behaved as expected" % (sum(results), len(results)))
    return 0 if all(results) and mk.returncode == 0 else 1


if __name__ == "__main__":
    sys.exit(main())
