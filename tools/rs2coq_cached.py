#!/usr/bin/env python3
"""rs2coq part 6: the CachedEnforcer (src/cached_enforcer.rs) -> coq/Gen/CachedGen.v

Re-read from /repo on every run (features cached, watcher, incremental ON;
logging, explain OFF - `#[cfg(..)]` on items and on statements is resolved):

 (a) every method of `impl CoreApi for CachedEnforcer` that takes `&mut self`
     and delegates to `self.enforcer.<same method>(..)`: WHERE it clears the
     cache -> `gen_cached_methods : list (text * clear_kind)`; for the methods
     that are an operation of the model (MODEL_OPS) the body is translated,
     statement by statement, to `gen_cstep_<method>` over the primitives of
     coq/Gen/CachedRt.v (cg_clear / cg_call);
 (b) the cached decision path: private_enforce, private_enforce_with_context,
     enforce, enforce_with_context, enforce_mut -> `gen_<fn>` and the dispatcher
     `gen_cenforce`; `gen_ctx_key_includes_context`;
 (c) new_raw registers clear_cache for Event::ClearCache ->
     `gen_clear_cache_registered` (and emitter.rs clear_cache really clears ->
     `gen_clear_cache_clears`);
 (d) EnforceContext::get_cache_key of src/enforcer.rs (one format!) ->
     `gen_ctx_cache_key : cgctx -> text`.

coq/PinChecks/PcCachedGen.v proves the translated functions equal to
Model/Cached.v (cstep_prim / cstep / cenforce) for all states and arguments.

Supported subset (anything else: Untranslatable -> `gen_cached_translated := false`)
  statements   let PAT = e;   e;   return e;   a final expression
               #[cfg(..)] / #[allow(..)] in front of a statement or block
  patterns     x, mut x, _, (p, ..), Some(p), None, Ok(p), Err(p)
  expressions  variables, true, false, None, (), (e, ..), Ok(e), !e, &e, &mut e, e?, e.await, { block }
               if let PAT = e { .. } else { .. }     match e { PAT => e, .. }  (Option / Result scrutinee)
               if e { .. } [else { .. }]
               self.cache.get(&k)  self.cache.set(k, b)  self.cache.clear()
               self.enforcer.<model operation>(params)            (only inside the method of the same name)
               self.enforcer.private_enforce(&rv)  self.enforcer.private_enforce_with_context(ctx, &rv)
               self.private_enforce(..)  self.private_enforce_with_context(..)  self.enforce(..)
               rvals.cache_key()  rvals.try_into_vec()  ctx.get_cache_key()  ctx.r_type / p_type / e_type / m_type
               DefaultHasher::new()  e.hash(&mut h)  h.finish()

Translation scheme: continuation passing over the state variable `c`
(re-bound by every effect); `?` and every call that may panic return early.
"""
import os
import re
import sys

sys.path.insert(0, os.path.dirname(os.path.abspath(__file__)))
import pins  # noqa: E402

CE = "src/cached_enforcer.rs"
EM = "src/emitter.rs"
FEATURES = {"cached": True, "watcher": True, "incremental": True, "logging": False, "explain": False}


class Untranslatable(Exception):
    pass


# ------------------------------------------------------------------ lexer
TOK = re.compile(r"""\s*(?:(//[^\n]*)|(/\*.*?\*/)|("(?:[^"\\]|\\.)*")|('(?:[^'\\]|\\.)')|('[A-Za-z_]\w*)|(\d\w*)"""
                 r"""|([A-Za-z_]\w*(?:!(?=\s*[(\[{]))?)|(::|->|=>|==|!=|&&|\|\||\.\.|[{}()\[\];=!&.,<>*+\-:?|#@/%^]))""", re.S)


def lex(src):
    out = []
    i = 0
    while i < len(src):
        if src[i:].strip() == "":
            break
        m = TOK.match(src, i)
        if not m:
            raise Untranslatable("cannot tokenise at: %r" % src[i:i + 30])
        i = m.end()
        if m.group(1) or m.group(2):
            continue
        for k, kind in ((3, "str"), (4, "chr"), (5, "life"), (6, "int"), (7, "id"), (8, "op")):
            if m.group(k) is not None:
                out.append((kind, m.group(k)))
                break
    return out


OPEN = {"(": ")", "[": "]", "{": "}"}


def close_of(t, i):
    """index of the bracket closing the one at t[i]"""
    depth = 0
    j = i
    while j < len(t):
        v = t[j][1] if t[j][0] == "op" else None
        if v in OPEN:
            depth += 1
        elif v in (")", "]", "}"):
            depth -= 1
            if depth == 0:
                return j
        j += 1
    raise Untranslatable("unbalanced brackets")


def cfg_eval(t):
    """value of a cfg predicate given as tokens"""
    p = [0]

    def peek():
        return t[p[0]] if p[0] < len(t) else ("eof", "")

    def eat(v=None):
        tk = peek()
        if v is not None and tk[1] != v:
            raise Untranslatable("cfg: expected %r, found %r" % (v, tk[1]))
        p[0] += 1
        return tk

    def pred():
        kind, v = eat()
        if v == "feature":
            eat("=")
            k2, s = eat()
            name = s[1:-1]
            if k2 != "str" or name not in FEATURES:
                raise Untranslatable("cfg: unknown feature %s" % s)
            return FEATURES[name]
        if v == "test":
            return False
        if v in ("any", "all", "not"):
            eat("(")
            vals = []
            while peek()[1] != ")":
                vals.append(pred())
                if peek()[1] == ",":
                    eat()
            eat(")")
            if v == "not":
                if len(vals) != 1:
                    raise Untranslatable("cfg: not(..) with %d arguments" % len(vals))
                return not vals[0]
            return any(vals) if v == "any" else all(vals)
        raise Untranslatable("cfg: predicate %s" % v)
    r = pred()
    if peek()[0] != "eof":
        raise Untranslatable("cfg: trailing tokens")
    return r


def read_attrs(t, i):
    """attributes `#[..]` starting at t[i] -> (index after them, enabled)"""
    enabled = True
    while i < len(t) and t[i] == ("op", "#"):
        if t[i + 1] != ("op", "["):
            raise Untranslatable("inner attribute")
        j = close_of(t, i + 1)
        inner = t[i + 2:j]
        if inner and inner[0] == ("id", "cfg"):
            if inner[1] != ("op", "(") or close_of(inner, 1) != len(inner) - 1:
                raise Untranslatable("malformed cfg attribute")
            enabled = cfg_eval(inner[2:-1]) and enabled
        elif inner and inner[0][1] in ("inline", "allow", "async_trait", "doc", "must_use"):
            pass
        else:
            raise Untranslatable("attribute #[%s]" % " ".join(x[1] for x in inner))
        i = j + 1
    return i, enabled


# ------------------------------------------------------------------ items
def find_impl(t, trait, ty):
    """token range (after `{`, before `}`) of `impl [trait for] ty { .. }` at nesting depth 0"""
    depth = 0
    i = 0
    while i < len(t):
        k, v = t[i]
        if k == "op" and v in OPEN:
            depth += 1
        elif k == "op" and v in (")", "]", "}"):
            depth -= 1
        elif depth == 0 and (k, v) == ("id", "impl"):
            j = i + 1
            hdr = []
            while t[j] != ("op", "{"):
                hdr.append(t[j][1])
                j += 1
            h = " ".join(hdr)
            h = re.sub(r"^< [^>]* > ", "", h)
            want = ("%s for %s" % (trait, ty)) if trait else ty
            if h == want:
                return t[j + 1:close_of(t, j)]
            i = j - 1
        i += 1
    return None


def split_top(t, sep):
    """split tokens on `sep` at depth 0 (brackets and angle brackets)"""
    out, cur, depth = [], [], 0
    for idx, (k, v) in enumerate(t):
        if k == "op" and (v in OPEN or v == "<"):
            depth += 1
        elif k == "op" and v in (")", "]", "}"):
            depth -= 1
        elif k == "op" and v == ">" and depth > 0:
            depth -= 1
        if k == "op" and v == sep and depth == 0:
            out.append(cur)
            cur = []
        else:
            cur.append((k, v))
    if cur:
        out.append(cur)
    return out


def parse_items(t):
    """functions of an impl block -> list of dict(name, recv, params [(name, type string)], ret type string | None, body tokens)
    items switched off by #[cfg] are dropped"""
    items = []
    i = 0
    while i < len(t):
        i, enabled = read_attrs(t, i)
        if t[i] == ("id", "pub"):
            i += 1
            if t[i] == ("op", "("):
                i = close_of(t, i) + 1
        if t[i] == ("id", "async"):
            i += 1
        if t[i] != ("id", "fn"):
            raise Untranslatable("item starting with %r" % t[i][1])
        name = t[i + 1][1]
        i += 2
        if t[i] == ("op", "<"):
            depth = 0
            while True:
                if t[i] == ("op", "<"):
                    depth += 1
                elif t[i] == ("op", ">"):
                    depth -= 1
                    if depth == 0:
                        break
                i += 1
            i += 1
        if t[i] != ("op", "("):
            raise Untranslatable("%s: parameter list" % name)
        j = close_of(t, i)
        recv = None
        params = []
        for prm in split_top(t[i + 1:j], ","):
            s = " ".join(x[1] for x in prm)
            if s in ("& mut self", "& self", "self", "mut self"):
                recv = s
                continue
            if prm and prm[0] == ("id", "mut"):
                prm = prm[1:]
            if len(prm) < 3 or prm[0][0] != "id" or prm[1] != ("op", ":"):
                raise Untranslatable("%s: parameter %r" % (name, s))
            params.append((prm[0][1], " ".join(x[1] for x in prm[2:])))
        i = j + 1
        ret = None
        if t[i] == ("op", "->"):
            i += 1
            k0 = i
            while t[i] != ("op", "{") and t[i] != ("id", "where"):
                i += 1
            ret = " ".join(x[1] for x in t[k0:i])
        while t[i] != ("op", "{"):
            i += 1
        j = close_of(t, i)
        if enabled:
            items.append({"name": name, "recv": recv, "params": params, "ret": ret, "body": t[i + 1:j]})
        i = j + 1
    return items


# ------------------------------------------------------------------ parser of bodies
BLOCKLIKE = ("block", "if", "match")


class RP:
    """statements and expressions of the subset -> AST
       stmt = ("let", pat, e) | ("expr", e) | ("ret", e | None)
       pat  = ("pvar", x) | ("pwild",) | ("ptuple", [pat]) | ("pctor", C, [pat])
       e    = ("path", p) | ("lit", b) | ("tuple", [e]) | ("call", path, [e]) | ("mcall", recv, m, [e]) | ("field", e, f)
            | ("await", e) | ("try", e) | ("ref", e) | ("not", e) | ("block", stmts, final)
            | ("match", e, [(pat, e)]) | ("if", e, block, block | None)"""

    def __init__(self, toks):
        self.t = toks
        self.i = 0

    def peek(self, k=0):
        return self.t[self.i + k] if self.i + k < len(self.t) else ("eof", "")

    def at(self, v, k=0):
        tk = self.peek(k)
        return tk[0] in ("op", "id") and tk[1] == v

    def eat(self, val=None):
        tk = self.peek()
        if tk[0] == "eof":
            raise Untranslatable("unexpected end of the body")
        if val is not None and tk[1] != val:
            raise Untranslatable("expected %r, found %r" % (val, tk[1]))
        self.i += 1
        return tk

    def ident(self):
        k, v = self.eat()
        if k != "id" or v.endswith("!"):
            raise Untranslatable("identifier expected, found %r" % v)
        return v

    # ---- skipping a statement that #[cfg] switches off
    def skip_stmt(self):
        if self.at("{"):
            self.i = close_of(self.t, self.i) + 1
            return
        blocky = self.peek()[1] in ("if", "match", "for", "while", "loop")
        while True:
            k, v = self.peek()
            if k == "eof":
                return
            if k == "op" and v in ("(", "["):
                self.i = close_of(self.t, self.i) + 1
                continue
            if k == "op" and v == "{":
                self.i = close_of(self.t, self.i) + 1
                if blocky and not self.at("else") and not self.at(".") and not self.at("?"):
                    if self.at(";"):
                        self.i += 1
                    return
                continue
            if k == "op" and v == "}":
                return
            self.i += 1
            if k == "op" and v == ";":
                return

    # ---- blocks
    def block(self):
        self.eat("{")
        b = self.seq()
        self.eat("}")
        return ("block", b[0], b[1])

    def seq(self):
        stmts, final = [], None
        while not self.at("}") and self.peek()[0] != "eof":
            if final is not None:
                raise Untranslatable("statement after the value of a block")
            if self.at("#"):
                self.i, enabled = read_attrs(self.t, self.i)
                if not enabled:
                    self.skip_stmt()
                    continue
            if self.at(";"):
                self.eat()
                continue
            if self.at("let"):
                self.eat()
                p = self.pat()
                if self.at(":"):
                    raise Untranslatable("type annotation on let")
                self.eat("=")
                e = self.expr()
                self.eat(";")
                stmts.append(("let", p, e))
            elif self.at("return"):
                self.eat()
                e = None if self.at(";") or self.at("}") else self.expr()
                if self.at(";"):
                    self.eat()
                stmts.append(("ret", e))
            else:
                e = self.expr()
                if self.at(";"):
                    self.eat()
                    stmts.append(("expr", e))
                elif self.at("}") or self.peek()[0] == "eof":
                    final = e
                elif e[0] in BLOCKLIKE:
                    stmts.append(("expr", e))
                else:
                    raise Untranslatable("expected ; after an expression, found %r" % self.peek()[1])
        return stmts, final

    # ---- patterns
    def pat(self):
        if self.at("("):
            self.eat()
            ps = []
            while not self.at(")"):
                ps.append(self.pat())
                if self.at(","):
                    self.eat()
            self.eat(")")
            return ("ptuple", ps)
        if self.at("mut") or self.at("ref"):
            self.eat()
        x = self.ident()
        if x == "_":
            return ("pwild",)
        if x in ("Some", "Ok", "Err"):
            self.eat("(")
            p = self.pat()
            self.eat(")")
            return ("pctor", x, [p])
        if x == "None":
            return ("pctor", "None", [])
        if self.at("::") or self.at("(") or self.at("{"):
            raise Untranslatable("pattern %s.." % x)
        return ("pvar", x)

    # ---- expressions
    def expr(self, nostruct=False):
        e = self.unary()
        if self.peek()[0] == "op" and self.peek()[1] in ("==", "!=", "&&", "||", "+", "-", "*", "/", "<", ">", "=", ".."):
            raise Untranslatable("operator %s" % self.peek()[1])
        return e

    def unary(self):
        if self.at("!"):
            self.eat()
            return ("not", self.unary())
        if self.at("&"):
            self.eat()
            if self.at("mut"):
                self.eat()
            return ("ref", self.unary())
        if self.at("*"):
            raise Untranslatable("dereference")
        return self.postfix()

    def args(self):
        self.eat("(")
        out = []
        while not self.at(")"):
            out.append(self.expr())
            if self.at(","):
                self.eat()
        self.eat(")")
        return out

    def postfix(self):
        e = self.primary()
        while True:
            if self.at("?"):
                self.eat()
                e = ("try", e)
            elif self.at("."):
                self.eat()
                k, v = self.eat()
                if k == "int":
                    raise Untranslatable("tuple field .%s" % v)
                if k != "id" or v.endswith("!"):
                    raise Untranslatable("after '.': %r" % v)
                if v == "await":
                    e = ("await", e)
                elif self.at("::"):
                    raise Untranslatable("turbofish on .%s" % v)
                elif self.at("("):
                    e = ("mcall", e, v, self.args())
                else:
                    e = ("field", e, v)
            else:
                return e

    def primary(self):
        k, v = self.peek()
        if k == "op" and v == "(":
            self.eat()
            es = []
            trailing = False
            while not self.at(")"):
                es.append(self.expr())
                trailing = False
                if self.at(","):
                    self.eat()
                    trailing = True
            self.eat(")")
            if len(es) == 1 and not trailing:
                return es[0]
            return ("tuple", es)
        if k == "op" and v == "{":
            return self.block()
        if k == "id":
            if v == "if":
                return self.if_()
            if v == "match":
                return self.match_()
            if v in ("true", "false"):
                self.eat()
                return ("lit", v)
            if v.endswith("!") or v in ("let", "for", "while", "loop", "move", "unsafe", "async", "fn", "as", "break", "continue"):
                raise Untranslatable("unsupported %s" % v)
            self.eat()
            path = v
            while self.at("::"):
                self.eat()
                if self.at("<"):
                    raise Untranslatable("generic arguments in a path")
                path += "::" + self.ident()
            if self.at("("):
                return ("call", path, self.args())
            return ("path", path)
        raise Untranslatable("unexpected token %r" % (v or "end of body"))

    def if_(self):
        self.eat("if")
        if self.at("let"):
            self.eat()
            p = self.pat()
            self.eat("=")
            scrut = self.expr()
            th = self.block()
            if self.at("else"):
                self.eat()
                el = self.if_() if self.at("if") else self.block()
            else:
                el = ("block", [], None)
            return ("match", scrut, [(p, th), (("pwild",), el)])
        c = self.expr()
        th = self.block()
        el = None
        if self.at("else"):
            self.eat()
            el = self.if_() if self.at("if") else self.block()
        return ("if", c, th, el)

    def match_(self):
        self.eat("match")
        scrut = self.expr()
        self.eat("{")
        arms = []
        while not self.at("}"):
            p = self.pat()
            if self.at("if") or self.at("|"):
                raise Untranslatable("match guard / alternative pattern")
            self.eat("=>")
            e = self.expr()
            if self.at(","):
                self.eat()
            elif e[0] not in BLOCKLIKE and not self.at("}"):
                raise Untranslatable("expected , after a match arm")
            arms.append((p, e))
        self.eat("}")
        return ("match", scrut, arms)


def parse_body(toks):
    p = RP(toks)
    stmts, final = p.seq()
    if p.peek()[0] != "eof":
        raise Untranslatable("trailing tokens")
    return stmts, final


# ------------------------------------------------------------------ types
def tnorm(t):
    """type without the provenance of keys"""
    if isinstance(t, tuple):
        if t[0] == "key":
            return "key"
        if t[0] == "tuple":
            return ("tuple", tuple(tnorm(x) for x in t[1]))
        return (t[0], tnorm(t[1]))
    return t


def tyname(t):
    t = tnorm(t)
    if isinstance(t, tuple):
        if t[0] == "tuple":
            return "(%s)" % ", ".join(tyname(x) for x in t[1])
        return "%s<%s>" % (t[0], tyname(t[1]))
    return t


def gty(t):
    t = tnorm(t)
    if t in ("bool", "unit"):
        return "bool"
    if t == "opaque":
        return "unit"
    if t in ("rvec", "args"):
        return "list value"
    if t == "ctx":
        return "cgctx"
    if t == "key":
        return "ckey"
    if isinstance(t, tuple) and t[0] == "tuple":
        return "(%s)" % " * ".join(gty(x) for x in t[1])
    if isinstance(t, tuple) and t[0] == "option":
        return "(option %s)" % gty(t[1])
    if isinstance(t, tuple) and t[0] == "result":
        return "(outcome %s)" % gty(t[1])
    raise Untranslatable("no Gallina type for %s" % tyname(t))


def rty(s):
    """a Rust type (token texts joined by blanks) -> type of the subset"""
    w = s.split()
    if w == ["bool"]:
        return "bool"
    if w == ["(", ")"]:
        return "unit"
    if w == ["u64"]:
        return ("key", ("param",))
    if w == ["&", "[", "Dynamic", "]"]:
        return "rvec"
    if w == ["EnforceContext"]:
        return "ctx"
    if w == ["ARGS"]:
        return "args"
    if w == "Option < Vec < usize > >".split():
        return "opaque"
    if w[:2] == ["Result", "<"] and w[-1] == ">":
        return ("result", rty(" ".join(w[2:-1])))
    if w[0] == "(" and w[-1] == ")":
        parts = split_top([("op" if not re.match(r"\w", x) else "id", x) for x in w[1:-1]], ",")
        return ("tuple", tuple(rty(" ".join(x[1] for x in p)) for p in parts))
    raise Untranslatable("type %s" % s)


CTX_FIELDS = {"r_type": "x_r", "p_type": "x_p", "e_type": "x_e", "m_type": "x_m"}
CTX_FCTOR = {"r_type": "FR", "p_type": "FP", "e_type": "FE", "m_type": "FM"}
SELF = ("path", "self")
CACHE = ("field", SELF, "cache")
INNER = ("field", SELF, "enforcer")
PANIC = "(c, Panic)"
T_INNER = ("result", ("tuple", ("bool", "opaque")))


def is_ident(term):
    return re.match(r"^\w+$", term) is not None


# ------------------------------------------------------------------ emission
class Em:
    """continuation-passing emission of one function body.  env: Rust variable -> (type, Gallina term);
       env["#h"]: hasher id -> parts fed so far.  The current state is always the Gallina variable `c`."""

    def __init__(self, fname, ret, gens, model_op=None):
        self.fname = fname
        self.ret = ret
        self.gens = gens            # name -> ([param types], return type) of the functions generated so far
        self.model_op = model_op    # (method, op term, [param names], "unit" | "result")
        self.n = 0
        self.ctx_key_sites = []     # for every call of private_enforce_with_context: was the passed context hashed into the key

    def fresh(self, base):
        self.n += 1
        return "%s%d_" % (base, self.n)

    # ---- helpers
    def leave(self, outer, inner):
        d = dict(outer)
        d["#h"] = inner["#h"]
        return d

    def keyinfo(self, t, v):
        if isinstance(t, tuple) and t[0] == "key":
            return v, t[1]
        if t == "rvkey":
            return "(CKPlain %s)" % v, ("rv:" + v,)
        raise Untranslatable("a %s where a cache key is expected" % tyname(t))

    def bindc(self, t, term, env, k):
        r = self.fresh("r")
        return "(let %s := %s in\n %s)" % (r, term, k(t, r, env))

    def unwrap(self, t, v, env, k):
        if isinstance(t, tuple) and t[0] == "okres":
            return k(t[1], v, env)
        if isinstance(t, tuple) and t[0] == "result":
            x = self.fresh("x")
            return "match %s with\n | Ok %s => %s\n | Err e_ => (c, Err e_)\n | Panic => %s\n end" % (
                v, x, k(t[1], x, env), PANIC)
        raise Untranslatable("? on a %s" % tyname(t))

    def callres(self, term, stateful, t, env, k, tried):
        """a call that may panic: bind its result, leave on Panic (and on Err under `?`)"""
        r = self.fresh("r")
        bind = ("let (c, %s) := %s in" if stateful else "let %s := %s in") % (r, term)
        if t == "unit":
            if tried:
                raise Untranslatable("? on a call that returns ()")
            body = "match %s with Panic => %s | _ => %s end" % (r, PANIC, k("unit", "true", env))
        elif tried:
            x = self.fresh("x")
            body = "match %s with\n | Ok %s => %s\n | Err e_ => (c, Err e_)\n | Panic => %s\n end" % (
                r, x, k(t[1], x, env), PANIC)
        else:
            body = "match %s with Panic => %s | _ => %s end" % (r, PANIC, k(t, r, env))
        return "(%s\n %s)" % (bind, body)

    def ex_list(self, es, env, k, ts=(), vs=()):
        if not es:
            return k(list(ts), list(vs), env)
        return self.ex(es[0], env, lambda t, v, env2: self.ex_list(es[1:], env2, k, tuple(ts) + (t,), tuple(vs) + (v,)))

    def bind(self, p, t, term, env):
        """bind an irrefutable pattern -> (env, Gallina prefix)"""
        if p[0] == "pwild":
            return env, ""
        if p[0] == "pvar":
            env2 = dict(env)
            if t == "hasher" or is_ident(term):
                env2[p[1]] = (t, term)
                return env2, ""
            name = "v_" + p[1]
            self.no_alias(env, p[1], name)
            env2[p[1]] = (t, name)
            return env2, "let %s := %s in\n " % (name, term)
        if p[0] == "ptuple":
            if not (isinstance(t, tuple) and t[0] == "tuple" and len(t[1]) == len(p[1])):
                raise Untranslatable("tuple pattern on a %s" % tyname(t))
            names, env2, post = [], dict(env), ""
            for sp, st in zip(p[1], t[1]):
                if sp[0] == "pwild":
                    names.append("_")
                elif sp[0] == "pvar":
                    self.no_alias(env, sp[1], "v_" + sp[1])
                    names.append("v_" + sp[1])
                    env2[sp[1]] = (st, "v_" + sp[1])
                else:
                    x = self.fresh("x")
                    names.append(x)
                    env2, more = self.bind(sp, st, x, env2)
                    post += more
            return env2, "let '(%s) := %s in\n %s" % (", ".join(names), term, post)
        raise Untranslatable("refutable pattern in a let")

    def no_alias(self, env, x, name):
        """re-binding the Gallina variable `name`: no OTHER Rust variable may still stand for it"""
        for y, tv in env.items():
            if y != x and not y.startswith("#") and isinstance(tv[1], str) and re.search(r"\b%s\b" % re.escape(name), tv[1]):
                raise Untranslatable("shadowing of %s while %s still refers to it" % (x, y))

    def kret(self, t, v, env):
        if self.ret == "unit":
            if t != "unit":
                raise Untranslatable("%s: returns a %s, () expected" % (self.fname, tyname(t)))
            return "(c, Ok true)"
        if tnorm(t) != tnorm(self.ret):
            raise Untranslatable("%s: returns a %s, %s expected" % (self.fname, tyname(t), tyname(self.ret)))
        return "(c, %s)" % v

    # ---- statements
    def seq(self, stmts, final, env, k):
        if not stmts:
            if final is None:
                return k("unit", "true", env)
            return self.ex(final, env, k)
        st, rest = stmts[0], stmts[1:]
        if st[0] == "let":
            def after(t, v, env2):
                env3, pre = self.bind(st[1], t, v, env2)
                body = self.seq(rest, final, env3, k)
                return "(%s%s)" % (pre, body) if pre else body
            return self.ex(st[2], env, after)
        if st[0] == "expr":
            return self.ex(st[1], env, lambda t, v, env2: self.seq(rest, final, env2, k))
        if st[0] == "ret":
            if rest or final is not None:
                raise Untranslatable("code after return")
            if st[1] is None:
                return self.kret("unit", "true", env)
            return self.ex(st[1], env, self.kret)
        raise Untranslatable("statement " + st[0])

    # ---- expressions
    def ex(self, e, env, k):
        kind = e[0]
        if kind == "lit":
            return k("bool", e[1], env)
        if kind == "path":
            if e[1] == "None":
                return k("opaque", "tt", env)
            if e[1] in env and not e[1].startswith("#"):
                t, v = env[e[1]]
                return k(t, v, env)
            raise Untranslatable("identifier " + e[1])
        if kind == "tuple":
            if not e[1]:
                return k("unit", "true", env)
            return self.ex_list(e[1], env, lambda ts, vs, env2: k(("tuple", tuple(ts)), "(%s)" % ", ".join(vs), env2))
        if kind in ("ref", "await"):
            return self.ex(e[1], env, k)
        if kind == "not":
            def neg(t, v, env2):
                if t != "bool":
                    raise Untranslatable("! on a %s" % tyname(t))
                return k("bool", "(negb %s)" % v, env2)
            return self.ex(e[1], env, neg)
        if kind == "call":
            if e[1] == "Ok" and len(e[2]) == 1:
                return self.ex(e[2][0], env, lambda t, v, env2: k(("result", t), "(Ok %s)" % v, env2))
            if e[1] == "DefaultHasher::new" and not e[2]:
                hid = self.fresh("h")
                env2 = dict(env)
                env2["#h"] = dict(env["#h"])
                env2["#h"][hid] = ()
                return k("hasher", hid, env2)
            raise Untranslatable("call of " + e[1])
        if kind == "try":
            if not (isinstance(self.ret, tuple) and self.ret[0] == "result"):
                raise Untranslatable("? in a function that does not return a Result")
            core = e[1]
            while core[0] == "await":
                core = core[1]
            if core[0] == "mcall":
                return self.mcall(core, env, k, True)
            return self.ex(core, env, lambda t, v, env2: self.unwrap(t, v, env2, k))
        if kind == "mcall":
            return self.mcall(e, env, k, False)
        if kind == "block":
            return self.seq(e[1], e[2], env, lambda t, v, env2: k(t, v, self.leave(env, env2)))
        if kind == "match":
            return self.ex(e[1], env, lambda t, v, env2: self.match(t, v, e[2], env2, k))
        if kind == "if":
            def cond(t, v, env2):
                if t != "bool":
                    raise Untranslatable("condition of type %s" % tyname(t))
                kk = lambda t3, v3, env3: k(t3, v3, self.leave(env2, env3))  # noqa: E731
                th = self.ex(e[2], env2, kk)
                el = self.ex(e[3], env2, kk) if e[3] is not None else k("unit", "true", env2)
                return "(if %s then %s\n else %s)" % (v, th, el)
            return self.ex(e[1], env, cond)
        if kind == "field":
            def fld(t, v, env2):
                if t == "ctx" and e[2] in CTX_FIELDS:
                    return k(("ctxfield", e[2]), "(%s %s)" % (CTX_FIELDS[e[2]], v), env2)
                raise Untranslatable("field .%s of a %s" % (e[2], tyname(t)))
            return self.ex(e[1], env, fld)
        raise Untranslatable("expression " + kind)

    def match(self, t, v, arms, env, k):
        if len(arms) != 2:
            raise Untranslatable("match with %d arms" % len(arms))

        def arm(body, env_arm):
            return self.ex(body, env_arm, lambda t2, v2, env3: k(t2, v2, self.leave(env, env3)))
        pos = [a for a in arms if a[0][0] == "pctor" and a[0][1] in ("Some", "Ok")]
        neg = [a for a in arms if a not in pos]
        if len(pos) != 1 or len(neg) != 1:
            raise Untranslatable("match arms")
        (pp, pbody), (np_, nbody) = pos[0], neg[0]
        if not (isinstance(t, tuple) and t[0] in ("option", "result")):
            raise Untranslatable("match on a %s" % tyname(t))
        want = "Some" if t[0] == "option" else "Ok"
        if pp[1] != want:
            raise Untranslatable("pattern %s(..) on a %s" % (pp[1], tyname(t)))
        if t[0] == "option":
            if not (np_[0] == "pwild" or np_ == ("pctor", "None", [])):
                raise Untranslatable("the other arm of a match on an Option must be None or _")
        else:
            if not (np_[0] == "pwild" or (np_[0] == "pctor" and np_[1] == "Err" and np_[2][0][0] == "pwild")):
                raise Untranslatable("the other arm of a match on a Result must be Err(_) or _")
        x = self.fresh("x")
        env_p, pre = self.bind(pp[2][0], t[1], x, env)
        a = pre + arm(pbody, env_p)
        b = arm(nbody, env)
        if t[0] == "option":
            return "match %s with\n | Some %s => %s\n | None => %s\n end" % (v, x, a, b)
        return "match %s with\n | Ok %s => %s\n | Err _ => %s\n | Panic => %s\n end" % (v, x, a, b, PANIC)

    def mcall(self, e, env, k, tried):
        _, recv, name, args = e
        fin = (lambda t, v, env2: self.unwrap(t, v, env2, k)) if tried else k
        if recv == CACHE:
            if name == "get" and len(args) == 1:
                return self.ex(args[0], env, lambda t, v, env2: self.bindc(
                    ("option", "bool"), "cg_get c %s" % self.keyinfo(t, v)[0], env2, fin))
            if name == "set" and len(args) == 2:
                def do_set(ts, vs, env2):
                    if ts[1] != "bool":
                        raise Untranslatable("cache.set of a %s" % tyname(ts[1]))
                    return "(let c := cg_set c %s %s in\n %s)" % (self.keyinfo(ts[0], vs[0])[0], vs[1], fin("unit", "true", env2))
                return self.ex_list(args, env, do_set)
            if name == "clear" and not args:
                return "(let c := cg_clear c in\n %s)" % fin("unit", "true", env)
            raise Untranslatable("self.cache.%s with %d argument(s)" % (name, len(args)))
        if recv == INNER:
            if name == "private_enforce" and len(args) == 1:
                def inner1(ts, vs, env2):
                    if ts[0] != "rvec":
                        raise Untranslatable("private_enforce of a %s" % tyname(ts[0]))
                    return self.callres("cg_inner_enforce ptab c %s" % vs[0], False, T_INNER, env2, k, tried)
                return self.ex_list(args, env, inner1)
            if name == "private_enforce_with_context" and len(args) == 2:
                def inner2(ts, vs, env2):
                    if ts[0] != "ctx" or ts[1] != "rvec":
                        raise Untranslatable("private_enforce_with_context of %s, %s" % (tyname(ts[0]), tyname(ts[1])))
                    return self.callres("cg_inner_enforce_ctx ptab c %s %s" % (vs[0], vs[1]), False, T_INNER, env2, k, tried)
                return self.ex_list(args, env, inner2)
            if self.model_op is not None and name == self.model_op[0]:
                _, opterm, pnames, rkind = self.model_op
                if args != [("path", x) for x in pnames]:
                    raise Untranslatable("%s: the delegated call does not pass the parameters through in order" % name)
                t = "unit" if rkind == "unit" else ("result", "unit")
                return self.callres("cg_call c %s" % opterm, True, t, env, k, tried)
            raise Untranslatable("self.enforcer.%s inside %s" % (name, self.fname))
        if recv == SELF:
            if name in self.gens:
                ptypes, rt = self.gens[name]

                def own(ts, vs, env2):
                    if len(ts) != len(ptypes):
                        raise Untranslatable("self.%s with %d argument(s)" % (name, len(ts)))
                    terms = []
                    ctx_term, key_prov = None, None
                    for pt, t, v in zip(ptypes, ts, vs):
                        if tnorm(pt) == "key":
                            v, key_prov = self.keyinfo(t, v)
                        elif tnorm(pt) != tnorm(t):
                            raise Untranslatable("self.%s: a %s where %s is expected" % (name, tyname(t), tyname(pt)))
                        if pt == "ctx":
                            ctx_term = v
                        terms.append(v)
                    if name == "private_enforce_with_context":
                        self.ctx_key_sites.append(key_prov is not None and (
                            ("ctx:" + str(ctx_term)) in key_prov
                            or all(("ctxf:(%s %s)" % (acc, ctx_term)) in key_prov for acc in CTX_FIELDS.values())))
                    return self.callres("gen_%s c %s" % (name, " ".join(terms)), True, rt, env2, k, tried)
                return self.ex_list(args, env, own)
            raise Untranslatable("self.%s (not translated before %s)" % (name, self.fname))
        return self.ex(recv, env, lambda t, v, env2: self.vmethod(t, v, name, args, env2, fin))

    def vmethod(self, t, v, name, args, env, k):
        if t == "args" and not args:
            if name == "cache_key":
                return k("rvkey", v, env)
            if name == "try_into_vec":
                return k(("okres", "rvec"), v, env)
        if t == "ctx" and name == "get_cache_key" and not args:
            return k("ctxkey", v, env)
        if (t in ("rvkey", "ctxkey") or (isinstance(t, tuple) and t[0] == "ctxfield")) and name == "hash" and len(args) == 1:
            a = args[0]
            while a[0] == "ref":
                a = a[1]
            if a[0] != "path" or env.get(a[1], (None,))[0] != "hasher":
                raise Untranslatable(".hash into something that is not a DefaultHasher")
            hid = env[a[1]][1]
            env2 = dict(env)
            env2["#h"] = dict(env["#h"])
            if t == "rvkey":
                part = ("HRv %s" % v, "rv:" + v)
            elif t == "ctxkey":
                part = ("HCtx %s" % v, "ctx:" + v)
            else:
                part = ("HField %s %s" % (CTX_FCTOR[t[1]], v), "ctxf:" + v)
            env2["#h"][hid] = env["#h"][hid] + (part,)
            return k("unit", "true", env2)
        if t == "hasher" and name == "finish" and not args:
            parts = env["#h"][v]
            return k(("key", tuple(p[1] for p in parts)), "(cg_hash [%s])" % "; ".join(p[0] for p in parts), env)
        raise Untranslatable("method .%s on a %s" % (name, tyname(t)))


# ------------------------------------------------------------------ (a) delegating methods
# method -> (op constructor, per Rust parameter: [(suffix, Gallina type)], "unit" | "result")
MODEL_OPS = {
    "set_model": ("OSetModel", [[("", "modeldef")]], "result"),
    "set_adapter": ("OSetAdapter", [[("", "adapter")]], "result"),
    "set_role_manager": ("OSetRoleManager", [[("", "nat")]], "result"),      # the model's new manager: empty, with a depth limit
    "set_effector": ("OSetEffector", [[]], "unit"),                          # the model has no effector argument
    "add_function": ("OAddFunction", [[("", "text")], [("", "ufun")]], "unit"),
    "build_role_links": ("OBuildRoleLinks", [], "result"),
    "load_policy": ("OLoad", [], "result"),
    "load_filtered_policy": ("OLoadFiltered", [[("_p", "list text"), ("_g", "list text")]], "result"),   # Filter { p, g }
    "save_policy": ("OSave", [], "result"),
    "clear_policy": ("OClear", [], "result"),
    "enable_enforce": ("OEnableEnforce", [[("", "bool")]], "unit"),
    "enable_auto_save": ("OEnableAutoSave", [[("", "bool")]], "unit"),
    "enable_auto_build_role_links": ("OEnableAutoBuild", [[("", "bool")]], "unit"),
    "enable_auto_notify_watcher": ("OEnableAutoNotify", [[("", "bool")]], "unit"),
}
MODEL_OP_ORDER = ["set_model", "set_adapter", "set_role_manager", "set_effector", "add_function", "build_role_links",
                  "load_policy", "load_filtered_policy", "save_policy", "clear_policy", "enable_enforce",
                  "enable_auto_save", "enable_auto_build_role_links", "enable_auto_notify_watcher"]


def walk(e):
    """all sub-expressions of an expression / statement list"""
    if isinstance(e, tuple):
        yield e
        for x in e[1:]:
            yield from walk(x)
    elif isinstance(e, list):
        for x in e:
            yield from walk(x)


def classify(name, stmts, final):
    """position of self.cache.clear() relative to self.enforcer.<name>(..) among the TOP-LEVEL statements;
       None when the method does not delegate to the method of the same name"""
    tops = []
    for st in stmts:
        tops.append(st[2] if st[0] == "let" else st[1])
    if final is not None:
        tops.append(final)
    delegate, clears = [], []
    for idx, e in enumerate(tops):
        if e is None:
            continue
        core, tried = e, False
        while core[0] in ("await", "try"):
            tried = tried or core[0] == "try"
            core = core[1]
        if core == ("mcall", CACHE, "clear", []):
            clears.append(idx)
            continue
        if core[0] == "mcall" and core[1] == INNER and core[2] == name:
            delegate.append((idx, tried))
            inner = core[3]
        else:
            inner = e
        for sub in walk(inner):
            if sub[0] == "mcall" and sub[1] == CACHE and sub[2] == "clear":
                raise Untranslatable("%s: cache.clear() inside a nested expression" % name)
            if sub[0] == "mcall" and sub[1] == INNER and sub[2] == name:
                raise Untranslatable("%s: the delegated call is inside a nested expression" % name)
    if not delegate:
        return None
    if len(delegate) > 1:
        raise Untranslatable("%s: delegates more than once" % name)
    at, tried = delegate[0]
    if not clears:
        return "ClearNever"
    if any(i < at for i in clears):
        return "ClearBefore"
    return "ClearAfterOk" if tried else "ClearAfter"


def translate_delegate(item):
    name = item["name"]
    ctor, pspec, rkind = MODEL_OPS[name]
    if len(item["params"]) != len(pspec):
        raise Untranslatable("%s: %d parameters, %d expected" % (name, len(item["params"]), len(pspec)))
    ret = "unit" if item["ret"] is None else rty(item["ret"])
    if tnorm(ret) != ("unit" if rkind == "unit" else ("result", "unit")):
        raise Untranslatable("%s: return type %s" % (name, item["ret"]))
    binders, opargs = [], []
    for (pn, pty), spec in zip(item["params"], pspec):
        if spec == [("", "bool")] and pty != "bool":
            raise Untranslatable("%s: parameter %s of type %s" % (name, pn, pty))
        for suf, g in spec:
            binders.append("(v_%s%s : %s)" % (pn, suf, g))
            opargs.append("v_%s%s" % (pn, suf))
    opterm = "(%s)" % " ".join([ctor] + opargs) if opargs else ctor
    em = Em(name, ret, {}, (name, opterm, [p[0] for p in item["params"]], rkind))
    stmts, final = parse_body(item["body"])
    # parameters are only passed through; they are not in scope as values
    term = em.seq(stmts, final, {"#h": {}}, em.kret)
    return "Definition gen_cstep_%s (c : cstate) %s: cstate * outcome bool :=\n %s.\n" % (
        name, "".join(b + " " for b in binders), term)


def placeholder_delegate(name):
    ctor, pspec, rkind = MODEL_OPS[name]
    binders = "".join("(_ : %s) " % g for spec in pspec for _, g in spec)
    return "Definition gen_cstep_%s (c : cstate) %s: cstate * outcome bool := (c, Panic).\n" % (name, binders)


# ------------------------------------------------------------------ (b) the cached decision path
ENFORCE_FNS = [("private_enforce", "inherent"), ("private_enforce_with_context", "inherent"),
               ("enforce", "core"), ("enforce_with_context", "core"), ("enforce_mut", "core")]
ENFORCE_SIG = {   # expected parameter and return types (the shape PcCachedGen.v relies on)
    "private_enforce": (["rvec", "key"], ("result", ("tuple", ("bool", "bool", "opaque")))),
    "private_enforce_with_context": (["ctx", "rvec", "key"], ("result", ("tuple", ("bool", "bool", "opaque")))),
    "enforce": (["args"], ("result", "bool")),
    "enforce_with_context": (["ctx", "args"], ("result", "bool")),
    "enforce_mut": (["args"], ("result", "bool")),
}


def translate_enforce(item, gens):
    name = item["name"]
    want_p, want_r = ENFORCE_SIG[name]
    ptypes = [rty(p[1]) for p in item["params"]]
    ret = rty(item["ret"] or "( )")
    if [tnorm(x) for x in ptypes] != want_p or tnorm(ret) != want_r:
        raise Untranslatable("%s: signature (%s) -> %s" % (name, ", ".join(tyname(x) for x in ptypes), tyname(ret)))
    if item["recv"] not in ("& self", "& mut self"):
        raise Untranslatable("%s: receiver %s" % (name, item["recv"]))
    env = {"#h": {}}
    binders = []
    for (pn, _), t in zip(item["params"], ptypes):
        env[pn] = (t, "v_" + pn)
        binders.append("(v_%s : %s)" % (pn, gty(t)))
    em = Em(name, ret, gens)
    stmts, final = parse_body(item["body"])
    term = em.seq(stmts, final, env, em.kret)
    text = "  Definition gen_%s (c : cstate) %s : cstate * %s :=\n %s.\n" % (name, " ".join(binders), gty(ret)[1:-1], term)
    return text, (ptypes, ret), em.ctx_key_sites


def placeholder_enforce(name):
    want_p, want_r = ENFORCE_SIG[name]
    return "  Definition gen_%s (c : cstate) %s : cstate * %s := (c, Panic).\n" % (
        name, " ".join("(_ : %s)" % gty(t) for t in want_p), gty(want_r)[1:-1])


# ------------------------------------------------------------------ (c) ClearCache wiring
def split_stmts(t):
    """loose statement splitter (cfg resolved): list of token-text lists"""
    p = RP(t)
    out, cur = [], []
    while p.peek()[0] != "eof":
        if not cur and p.at("#"):
            p.i, enabled = read_attrs(p.t, p.i)
            if not enabled:
                p.skip_stmt()
            continue
        k, v = p.peek()
        if k == "op" and v in OPEN:
            j = close_of(p.t, p.i)
            cur.extend(x[1] for x in p.t[p.i:j + 1])
            p.i = j + 1
            continue
        p.i += 1
        if k == "op" and v == ";":
            out.append(cur)
            cur = []
        else:
            cur.append(v)
    if cur:
        out.append(cur)
    return out


def clear_cache_registered(core_items):
    nr = [it for it in core_items if it["name"] == "new_raw"]
    if len(nr) != 1:
        return False
    sts = split_stmts(nr[0]["body"])
    var = None
    for st in sts:
        if st[:2] == ["let", "mut"] and st[3:5] == ["=", "CachedEnforcer"] and len(st) > 5 and st[5] == "{":
            var = st[2]
    if var is None or not sts or sts[-1] != ["Ok", "(", var, ")"]:
        return False
    if any(st[:3] == [var, ".", "off"] for st in sts):
        return False
    return [var, ".", "on", "(", "Event", "::", "ClearCache", ",", "clear_cache", ")"] in sts


def clear_cache_clears(toks_em, toks_ce):
    """emitter.rs: clear_cache(ce, d) runs ce.get_mut_cache().clear(); cached_enforcer.rs: get_mut_cache is the cache field"""
    depth, i, body, prm = 0, 0, None, None
    t = toks_em
    while i < len(t):
        k, v = t[i]
        if k == "op" and v in OPEN:
            depth += 1
        elif k == "op" and v in (")", "]", "}"):
            depth -= 1
        elif depth == 0 and t[i] == ("id", "fn") and t[i + 1] == ("id", "clear_cache"):
            j = i + 2
            while t[j] != ("op", "("):
                j += 1
            prm = t[j + 1][1]
            j = close_of(t, j) + 1
            while t[j] != ("op", "{"):
                j += 1
            body = t[j + 1:close_of(t, j)]
            break
        i += 1
    if body is None or [prm, ".", "get_mut_cache", "(", ")", ".", "clear", "(", ")"] not in split_stmts(body):
        return False
    api = find_impl(toks_ce, "CachedApi < u64 , bool >", "CachedEnforcer")
    if api is None:
        return False
    for it in parse_items(api):
        if it["name"] == "get_mut_cache":
            return split_stmts(it["body"]) == [["&", "mut", "*", "self", ".", "cache"]]
    return False


# ------------------------------------------------------------------ EnforceContext::get_cache_key (src/enforcer.rs)
def translate_ctx_cache_key():
    """format!("lit{}lit{}..", &self.f1, &self.f2, ..) -> the text it builds from the four names"""
    src = pins.read("src/enforcer.rs")
    body = pins.fn_body(src, r"fn\s+get_cache_key\s*\(")
    if body is None:
        raise Untranslatable("get_cache_key not found")
    t = lex(body.strip()[1:-1])
    if len(t) < 4 or t[0] != ("id", "format!") or t[1] != ("op", "(") or close_of(t, 1) != len(t) - 1 or t[2][0] != "str":
        raise Untranslatable("get_cache_key is not a single format!(..)")
    fmt = pins.rust_unescape(t[2][1][1:-1])
    pieces, cur, i, holes = [], "", 0, 0
    while i < len(fmt):
        if fmt[i:i + 2] in ("{{", "}}"):
            cur += fmt[i]
            i += 2
        elif fmt[i:i + 2] == "{}":
            pieces.append(cur)
            cur = ""
            holes += 1
            i += 2
        elif fmt[i] in "{}":
            raise Untranslatable("format string %r" % fmt)
        else:
            cur += fmt[i]
            i += 1
    pieces.append(cur)
    args = [a for a in split_top(t[3:-1], ",") if a]
    if t[3] != ("op", ","):
        raise Untranslatable("format! arguments")
    fields = []
    for a in args:
        w = [x[1] for x in a if x[1] != "&"]
        if len(w) != 3 or w[:2] != ["self", "."] or w[2] not in CTX_FIELDS:
            raise Untranslatable("format! argument %s" % " ".join(x[1] for x in a))
        fields.append(w[2])
    if len(fields) != holes:
        raise Untranslatable("format!: %d holes, %d arguments" % (holes, len(fields)))
    if any(any(not (32 <= ord(c) < 127) for c in pc) for pc in pieces):
        raise Untranslatable("format string with non-printable characters")
    terms = []
    for pc, f in zip(pieces, fields):
        terms.append(pins.T(pc))
        terms.append("%s x" % CTX_FIELDS[f])
    terms.append(pins.T(pieces[-1]))
    return "Definition gen_ctx_cache_key (x : cgctx) : text :=\n  %s.\n" % " ++ ".join(terms)


# ------------------------------------------------------------------ driver
def coq_comment(s):
    return str(s).replace("(*", "( *").replace("*)", "* )")


def generate():
    out = ["(* GENERATED on every run by tools/rs2coq_cached.py from /repo/src/cached_enforcer.rs",
           "   (and clear_cache of /repo/src/emitter.rs) - do not edit.",
           "   features: %s *)" % ", ".join("%s %s" % (k, "on" if v else "off") for k, v in sorted(FEATURES.items())),
           "From CV Require Import Model.Base Model.Expr Model.Enforce Model.Engine Model.Cached Gen.CachedRt.", ""]
    ok = True
    core, inherent, toks = [], [], []
    try:
        src = pins.read(CE)
        if not src:
            raise Untranslatable("cannot read " + CE)
        toks = lex(src)
        blk = find_impl(toks, "CoreApi", "CachedEnforcer")
        blk2 = find_impl(toks, None, "CachedEnforcer")
        if blk is None or blk2 is None:
            raise Untranslatable("impl blocks of CachedEnforcer not found")
        core = parse_items(blk)
        inherent = parse_items(blk2)
    except Exception as ex:   # noqa
        ok = False
        out.append("(* reading %s failed: %s *)" % (CE, coq_comment(ex)))

    # (a) the table
    out.append("(* (a) `&mut self` methods of impl CoreApi for CachedEnforcer that delegate to self.enforcer.<same method>:")
    out.append("   where the cache is cleared relative to the delegated call *)")
    table = []
    parsed = {}
    for it in core:
        if it["recv"] != "& mut self":
            continue
        try:
            stmts, final = parse_body(it["body"])
            parsed[it["name"]] = it
            kind = classify(it["name"], stmts, final)
            if kind is not None:
                table.append((it["name"], kind))
        except Exception as ex:   # noqa
            ok = False
            out.append("(* classification of %s failed: %s *)" % (it["name"], coq_comment(ex)))
    out.append("Definition gen_cached_methods : list (text * clear_kind) :=\n  [%s].\n" %
               ";\n   ".join("(%s, %s)" % (pins.T(n), k) for n, k in table))
    # (a) the model operations
    for name in MODEL_OP_ORDER:
        try:
            its = [it for it in core if it["name"] == name]
            if len(its) != 1:
                raise Untranslatable("%s: %d definitions" % (name, len(its)))
            if its[0]["recv"] != "& mut self":
                raise Untranslatable("%s: receiver %s" % (name, its[0]["recv"]))
            out.append(translate_delegate(its[0]))
        except Exception as ex:   # noqa
            ok = False
            out.append("(* translation of %s failed: %s *)" % (name, coq_comment(ex)))
            out.append(placeholder_delegate(name))

    # (b)
    out.append("(* (b) the cached decision path *)")
    out.append("Section GenCachedEnforce.")
    out.append("  Variable ptab : text -> option expr.\n")
    gens = {}
    sites = None
    for name, where in ENFORCE_FNS:
        try:
            its = [it for it in (inherent if where == "inherent" else core) if it["name"] == name]
            if len(its) != 1:
                raise Untranslatable("%s: %d definitions" % (name, len(its)))
            text, sig, s = translate_enforce(its[0], gens)
            out.append(text)
            gens[name] = sig
            if name == "enforce_with_context":
                sites = s
        except Exception as ex:   # noqa
            ok = False
            out.append("  (* translation of %s failed: %s *)" % (name, coq_comment(ex)))
            out.append(placeholder_enforce(name))
            gens[name] = ([("key", ("param",)) if t == "key" else t for t in ENFORCE_SIG[name][0]], ENFORCE_SIG[name][1])
    out.append("  (* one request, named by the key the model files it under *)")
    out.append("  Definition gen_cenforce (c : cstate) (k : ckey) : cstate * outcome bool :=\n"
               "    match k with\n"
               "    | CKPlain rv => gen_enforce c rv\n"
               "    | CKCtx4 rk pk ek mk rv => gen_enforce_with_context c {| x_r := rk; x_p := pk; x_e := ek; x_m := mk |} rv\n"
               "    end.")
    out.append("End GenCachedEnforce.\n")
    out.append("(* enforce_with_context: every key it looks up was fed the get_cache_key() of the context it decides with *)")
    out.append("Definition gen_ctx_key_includes_context : bool := %s.\n" % ("true" if sites and all(sites) else "false"))

    # (c)
    try:
        reg = clear_cache_registered(core)
        clr = clear_cache_clears(lex(pins.read(EM)), toks)
    except Exception as ex:   # noqa
        reg = clr = False
        out.append("(* ClearCache wiring: %s *)" % coq_comment(ex))
    out.append("(* (c) new_raw: cached_enforcer.on(Event::ClearCache, clear_cache) on the value it returns *)")
    out.append("Definition gen_clear_cache_registered : bool := %s." % ("true" if reg else "false"))
    out.append("(* emitter.rs clear_cache runs get_mut_cache().clear(), and get_mut_cache is the cache field *)")
    out.append("Definition gen_clear_cache_clears : bool := %s.\n" % ("true" if clr else "false"))
    out.append("(* EnforceContext::get_cache_key (src/enforcer.rs): the string that stands for a context in the key *)")
    try:
        out.append(translate_ctx_cache_key())
    except Exception as ex:   # noqa
        ok = False
        out.append("(* translation of get_cache_key failed: %s *)" % coq_comment(ex))
        out.append("Definition gen_ctx_cache_key (x : cgctx) : text := [].\n")
    out.append("Definition gen_cached_translated : bool := %s." % ("true" if ok else "false"))
    return "\n".join(out) + "\n", ok


def write_if_changed(dst, txt, ok):
    os.makedirs(os.path.dirname(dst), exist_ok=True)
    old = None
    try:
        old = open(dst, encoding="utf-8").read()
    except OSError:
        pass
    if old != txt:
        open(dst, "w", encoding="utf-8").write(txt)
        print("rs2coq: rewritten", dst, "(translated)" if ok else "(UNTRANSLATABLE)")
    else:
        print("rs2coq: unchanged", dst)


def main(gen_dir=None):
    if gen_dir is None:
        gen_dir = sys.argv[1] if len(sys.argv) > 1 else os.path.join(
            os.path.dirname(os.path.dirname(os.path.abspath(__file__))), "coq", "Gen")
    txt, ok = generate()
    write_if_changed(os.path.join(gen_dir, "CachedGen.v"), txt, ok)
    return ok


if __name__ == "__main__":
    main()
