#!/usr/bin/env python3
"""Robustness / sensitivity demonstration for rs2coq part 19 (tools/rs2coq_locks.py:
the lock discipline of the crate -> coq/Gen/LocksGen.v; obligations in
coq/PinChecks/PcLocksGen.v, statements in coq/Properties/LocksGen.v).

For every variant: copy /repo/src (+ Cargo.toml) to a scratch repo
(tempfile.mkdtemp()), edit one or more functions, run the translator on the
scratch repo, rebuild Properties/LocksGen.vo and compare with the expectation
(meaning-preserving rewrite -> every proof passes; a change of the lock
discipline / something outside the subset -> a proof or the translation fails).
The pristine generated file is restored at the end and the scratch directory removed.

usage: python3 tools/rs2coq_demo_locks.py [label-prefix ..]
"""
import os
import re
import shutil
import subprocess
import sys
import tempfile

HERE = os.path.dirname(os.path.abspath(__file__))
ROOT = os.path.dirname(HERE)
COQ = os.path.join(ROOT, "coq")
SCRATCH = tempfile.mkdtemp(prefix="rs2coq_demo_locks_")     # outside /repo and /verif; removed at the end
sys.path.insert(0, HERE)
import pins  # noqa: E402

ENF = "src/enforcer.rs"
MAC = "src/macros.rs"
ASS = "src/model/assertion.rs"
RBAC = "src/rbac_api.rs"
CORE = r"impl\s+CoreApi\s+for\s+Enforcer\b"
INHERENT = r"impl\s+Enforcer\s*\{"
ASSERTION = r"impl\s+Assertion\s*\{"
RBACIMPL = r"impl<T>\s+RbacApi\s+for\s+T\b"

ERR_P = """return Err(ModelError::P(
                r#"the number of "_" in role definition should be at least 2"#
                    .to_owned(),
            )
            .into());"""


def macro_body(c2, c3):
    return """macro_rules! register_g_function {
    ($enforcer:ident, $fname:ident, $ast:ident) => {{
        let rm = Arc::clone(&$enforcer.rm);
        let count = $ast.value.matches('_').count();

        if count == 2 {
            $enforcer.engine.register_fn(
                $fname,
                move |arg1: ImmutableString, arg2: ImmutableString| {
                    %s
                },
            );
        } else if count == 3 {
            $enforcer.engine.register_fn(
                $fname,
                move |arg1: ImmutableString,
                      arg2: ImmutableString,
                      arg3: ImmutableString| {
                    %s
                },
            );
        } else {
            %s
        }
    }};
}""" % (c2, c3, ERR_P)


BRL_HEAD = """{
        let count = self.value.matches('_').count();
        if count < 2 {
            return Err(ModelError::P(
                r#"the number of "_" in role definition should be at least 2"#
                    .to_owned(),
            )
            .into());
        }
"""
BRL_CHECK = """            if rule.len() < count {
                return Err(PolicyError::UnmatchPolicyDefinition(
                    count,
                    rule.len(),
                )
                .into());
            }
"""
BRL_MULTI = """return Err(ModelError::P(
                    "Multiple domains are not supported".to_owned(),
                )
                .into());"""

# an edit: ("body", file, impl header | None, fn, new body) | ("sub", file, impl header | None, fn, old, new)
#        | ("macro", new definition of register_g_function!)
# (label, expectation, [edits])
VARIANTS = [
    ("R0 unmodified sources", "pass", []),
    ("R1 g-closures: the guard bound to a variable for ONE has_link, released at the end of the closure", "pass", [
        ("macro", macro_body("let g = rm.read();\n                    g.has_link(&arg1, &arg2, None)",
                             "let g = rm.read();\n                    g.has_link(&arg1, &arg2, Some(&arg3))"))]),
    ("R2 Assertion::build_role_links: let mut g = rm.write(); g.add_link(..); drop(g); in every iteration, 3 tested before 2", "pass", [
        ("body", ASS, ASSERTION, "build_role_links", BRL_HEAD + """        for rule in &self.policy {
""" + BRL_CHECK + """            if count == 3 {
                let mut g = rm.write();
                g.add_link(&rule[0], &rule[1], Some(&rule[2]));
                drop(g);
            } else if count == 2 {
                let mut g = rm.write();
                g.add_link(&rule[0], &rule[1], None);
                drop(g);
            } else if count >= 4 {
                """ + BRL_MULTI + """
            }
        }
        self.rm = Arc::clone(&rm);
        Ok(())
    }""")]),
    ("R3 Assertion::build_role_links: while let over an explicit iterator, match on count", "pass", [
        ("body", ASS, ASSERTION, "build_role_links", BRL_HEAD + """        let mut it = self.policy.iter();
        while let Some(rule) = it.next() {
""" + BRL_CHECK + """            match count {
                2 => rm.write().add_link(&rule[0], &rule[1], None),
                3 => {
                    rm.write().add_link(&rule[0], &rule[1], Some(&rule[2]));
                }
                _ => {
                    """ + BRL_MULTI + """
                }
            }
        }
        self.rm = Arc::clone(&rm);
        Ok(())
    }""")]),
    ("R4 get_roles_for_user: match instead of if let, the handle cloned into a local first", "pass", [
        ("body", RBAC, RBACIMPL, "get_roles_for_user", """{
        match self.get_model().get_model().get("g") {
            Some(t1) => match t1.get("g") {
                Some(t2) => {
                    let rm = Arc::clone(&t2.rm);
                    let roles = rm.read().get_roles(name, domain);
                    roles
                }
                None => vec![],
            },
            None => vec![],
        }
    }""")]),
    ("R5 get_implicit_roles_for_user: the HANDLE (not a guard) hoisted out of the loop, loop / break", "pass", [
        ("body", RBAC, RBACIMPL, "get_implicit_roles_for_user", """{
        let mut res: HashSet<String> = HashSet::new();
        let mut q: Vec<String> = vec![name.to_owned()];
        let rm = self.get_role_manager();
        loop {
            if q.is_empty() {
                break;
            }
            let name = q.swap_remove(0);
            let roles = rm.read().get_roles(&name, domain);
            for r in roles.into_iter() {
                if res.insert(r.to_owned()) {
                    q.push(r);
                }
            }
        }
        res.into_iter().collect()
    }""")]),
    ("R6 Enforcer::build_role_links: the clear in its own block with a bound guard", "pass", [
        ("body", ENF, CORE, "build_role_links", """{
        {
            let mut g = self.rm.write();
            g.clear();
        }
        self.model.build_role_links(Arc::clone(&self.rm))?;

        Ok(())
    }""")]),
    ("R7 get_implicit_users_for_permission: a for loop instead of the flat_map closure", "pass", [
        ("sub", RBAC, RBACIMPL, "get_implicit_users_for_permission", """subjects.extend(roles.iter().flat_map(|role| {
            self.get_role_manager().read().get_users(role, None)
        }));""", """for role in roles.iter() {
            let users = self.get_role_manager().read().get_users(role, None);
            subjects.extend(users);
        }""")]),
    ("R8 get_implicit_roles_for_user: the lookup is the iterator expression of the for (guard alive over a loop "
     "that takes no lock: longer critical section, same program)", "pass", [
        ("sub", RBAC, RBACIMPL, "get_implicit_roles_for_user", """let roles = self.get_role_manager().read().get_roles(&name, domain);
            for r in roles.into_iter() {""", """for r in self.get_role_manager().read().get_roles(&name, domain).into_iter() {""")]),
    # ---- changes of the discipline
    ("N1 (i) private_enforce takes `let rm = self.rm.read();` at the top and holds it across the evaluation", "fail", [
        ("sub", ENF, INHERENT, "private_enforce", "let mut scope: Scope = Scope::new();",
         "let _rm = self.rm.read();\n        let mut scope: Scope = Scope::new();")]),
    ("N2 (ii) g-closure: the guard bound to a variable, has_link called twice under it", "fail", [
        ("macro", macro_body("let g = rm.read();\n                    let a = g.has_link(&arg1, &arg2, None);\n"
                             "                    let b = g.has_link(&arg2, &arg1, None);\n                    a || b",
                             "rm.read().has_link(&arg1, &arg2, Some(&arg3))"))]),
    ("N3 (iii) Assertion::build_role_links: ONE write guard around the whole loop", "fail", [
        ("body", ASS, ASSERTION, "build_role_links", BRL_HEAD + """        let mut g = rm.write();
        for rule in &self.policy {
""" + BRL_CHECK + """            if count == 2 {
                g.add_link(&rule[0], &rule[1], None);
            } else if count == 3 {
                g.add_link(&rule[0], &rule[1], Some(&rule[2]));
            } else if count >= 4 {
                """ + BRL_MULTI + """
            }
        }
        drop(g);
        self.rm = Arc::clone(&rm);
        Ok(())
    }""")]),
    ("N4 (iv) build_incremental_role_links: has_link under a write guard, then rm.write() again while it is alive", "fail", [
        ("sub", ASS, ASSERTION, "build_incremental_role_links", """if insert {
                        rm.write().add_link(&rule[0], &rule[1], None);
                    }""", """if insert {
                        let g = rm.write();
                        if !g.has_link(&rule[0], &rule[1], None) {
                            rm.write().add_link(&rule[0], &rule[1], None);
                        }
                    }""")]),
    ("N5 (v) get_implicit_roles_for_user: the read guard taken before the loop and held across the iterations", "fail", [
        ("body", RBAC, RBACIMPL, "get_implicit_roles_for_user", """{
        let mut res: HashSet<String> = HashSet::new();
        let mut q: Vec<String> = vec![name.to_owned()];
        let rm = self.get_role_manager();
        let g = rm.read();
        while !q.is_empty() {
            let name = q.swap_remove(0);
            let roles = g.get_roles(&name, domain);
            for r in roles.into_iter() {
                if res.insert(r.to_owned()) {
                    q.push(r);
                }
            }
        }
        res.into_iter().collect()
    }""")]),
    ("N6 (vi) Enforcer::build_role_links: rm.write() while a rm.read() guard is alive", "fail", [
        ("body", ENF, CORE, "build_role_links", """{
        let g = self.rm.read();
        self.rm.write().clear();
        drop(g);
        self.model.build_role_links(Arc::clone(&self.rm))?;

        Ok(())
    }""")]),
    ("N7 g-closure: two temporaries in ONE statement (`a.read().f() || b.read().g()`: the first guard lives to the end "
     "of the statement)", "fail", [
        ("macro", macro_body("rm.read().has_link(&arg1, &arg2, None) || rm.read().has_link(&arg2, &arg1, None)",
                             "rm.read().has_link(&arg1, &arg2, Some(&arg3))"))]),
    ("N8 g-closure takes the WRITE lock for has_link", "fail", [
        ("macro", macro_body("rm.write().has_link(&arg1, &arg2, None)", "rm.read().has_link(&arg1, &arg2, Some(&arg3))"))]),
    ("N9 Enforcer::build_role_links no longer clears (the count can be 0)", "fail", [
        ("sub", ENF, CORE, "build_role_links", "self.rm.write().clear();", "")]),
    ("N10 get_roles_for_user makes a second lookup (two read sections)", "fail", [
        ("sub", RBAC, RBACIMPL, "get_roles_for_user", "roles = t2.rm.read().get_roles(name, domain);",
         "roles = t2.rm.read().get_roles(name, domain);\n                roles.extend(t2.rm.read().get_users(name, domain));")]),
    ("N11 a lock site in a function outside the covered set (enable_auto_save clears the role manager)", "fail", [
        ("sub", ENF, CORE, "enable_auto_save", "self.auto_save = auto_save;",
         "self.auto_save = auto_save;\n        self.rm.write().clear();")]),
    ("N12 outside the subset: try_read() on the handle", "fail", [
        ("sub", RBAC, RBACIMPL, "get_users_for_role", "return t2.rm.read().get_users(name, domain);",
         "if let Some(g) = t2.rm.try_read() {\n                    return g.get_users(name, domain);\n                }")]),
    ("N13 the guard escapes: get_role_manager().read() passed to a helper", "fail", [
        ("sub", RBAC, RBACIMPL, "get_implicit_roles_for_user",
         "let roles = self.get_role_manager().read().get_roles(&name, domain);",
         "let roles = Vec::from_iter(std::iter::once(self.get_role_manager().read()).map(|g| g.get_roles(&name, domain)).flatten());")]),
    ("N14 private_enforce_with_context: the evaluation under a write guard on the role manager", "fail", [
        ("sub", ENF, INHERENT, "private_enforce_with_context", "let mut scope: Scope = Scope::new();",
         "let mut scope: Scope = Scope::new();\n        let _w = self.rm.write();")]),
    ("N15 CachedEnforcer::enforce reads the role manager itself before consulting the cache, under a held guard", "fail", [
        ("sub", "src/cached_enforcer.rs", r"impl\s+CoreApi\s+for\s+CachedEnforcer\b", "enforce",
         "let cache_key = rvals.cache_key();",
         "let rm = self.enforcer.get_role_manager();\n        let _g = rm.read();\n        let cache_key = rvals.cache_key();")]),
]


def ws_regex(old):
    return r"\s*".join(re.escape(t) for t in re.findall(r"\w+|[^\w\s]", old))


def apply_edit(root, ed):
    if ed[0] == "macro":
        path = os.path.join(root, MAC)
        src = open(path, encoding="utf-8").read()
        m = re.search(r"macro_rules!\s*register_g_function\s*\{", src)
        old = pins.balanced(src, m.end() - 1)
        assert old is not None
        new = src[:m.start()] + ed[1] + src[m.end() - 1 + len(old):]
        assert new != src
        open(path, "w", encoding="utf-8").write(new)
        return
    kind, rel, hdr, fn = ed[0], ed[1], ed[2], ed[3]
    path = os.path.join(root, rel)
    src = open(path, encoding="utf-8").read()
    start = 0
    if hdr is not None:
        m = re.search(hdr, src)
        assert m, hdr
        start = m.end()
    m = re.search(r"fn\s+%s\b" % fn, src[start:])
    assert m, fn
    j = start + m.end()
    depth = 0
    while True:
        c = src[j]
        if c in "(<":
            depth += 1
        elif c in ")>" and src[j - 1] != "-":
            depth -= 1
        elif c == "{" and depth == 0:
            break
        j += 1
    old = pins.balanced(src, j)
    assert old is not None, fn
    if kind == "body":
        new = ed[4]
    else:
        rx = ws_regex(ed[4])
        assert len(re.findall(rx, old)) == 1, (fn, ed[4][:40], len(re.findall(rx, old)))
        new = re.sub(rx, lambda _m: ed[5], old)
    assert new != old, fn
    open(path, "w", encoding="utf-8").write(src[:j] + new + src[j + len(old):])


def run(cmd, **kw):
    return subprocess.run(cmd, stdout=subprocess.PIPE, stderr=subprocess.STDOUT, text=True, **kw)


def first_error(out):
    m = re.search(r'File "\./([\w/]+\.v)", line (\d+).*?\n(Error:.*?)(?:\nmake|\Z)', out, re.S)
    if not m:
        return " ".join(out.strip().split("\n")[-3:])[:200]
    vfile = m.group(1)
    lines = open(os.path.join(COQ, vfile)).read().split("\n")
    thm = ""
    for k in range(int(m.group(2)) - 1, -1, -1):
        mm = re.match(r"\s*(?:Theorem|Lemma|Example|Corollary)\s+(\w+)", lines[k])
        if mm:
            thm = mm.group(1)
            break
    msg = " ".join(m.group(3).split())
    return "%s: %s: %s" % (vfile.split("/")[-1], thm, msg[:110])


DIAG = """From CV Require Import Model.Base Model.Locks Gen.LocksRt Gen.LocksGen Proofs.LocksGenP.
Eval vm_compute in (map (fun r => match r with (n, p, B, lo, hi) => (lk_exact_check B p lo hi, lk_flat false p) end) gen_locks_table).
"""


def diagnose():
    """which rows of the generated table fail the exactness analysis / the static flatness check
       (the proofs of PcLocksGen.v about those functions are the ones that break)"""
    mk = run(["timeout", "600", "make", "Gen/LocksGen.vo"], cwd=COQ)
    if mk.returncode != 0:
        return " [Gen/LocksGen.v does not compile]"
    gen = open(os.path.join(COQ, "Gen", "LocksGen.v")).read()
    tab = gen[gen.index("Definition gen_locks_table"):]
    names = re.findall(r'\(\(T "(\w+)"\)', tab)
    path = os.path.join(SCRATCH, "diag.v")
    open(path, "w").write(DIAG)
    r = run(["timeout", "600", "coqtop", "-Q", ".", "CV", "-batch", "-l", path], cwd=COQ)
    pairs = re.findall(r"\(\s*(true|false),\s*(true|false)\s*\)", r.stdout)
    if len(pairs) != len(names):
        return " [diagnosis unavailable]"
    bad_exact = [n for n, (a, _b) in zip(names, pairs) if a == "false"]
    bad_flat = [n for n, (_a, b) in zip(names, pairs) if b == "false"]
    return " [analysis rejects: %s] [not flat: %s]" % (", ".join(bad_exact) or "-", ", ".join(bad_flat) or "-")


def regenerate(repo):
    env = dict(os.environ, VERIF_REPO=repo)
    return run([sys.executable, os.path.join(HERE, "rs2coq_locks.py"), os.path.join(COQ, "Gen", "LocksGen.v")], env=env)


def main():
    only = sys.argv[1:]
    results = []
    mk = None
    try:
        for label, expect, edits in VARIANTS:
            if only and not any(label.startswith(o) for o in only):
                continue
            shutil.rmtree(SCRATCH, ignore_errors=True)
            os.makedirs(SCRATCH)
            shutil.copytree("/repo/src", os.path.join(SCRATCH, "src"))
            shutil.copy("/repo/Cargo.toml", os.path.join(SCRATCH, "Cargo.toml"))
            for ed in edits:
                apply_edit(SCRATCH, ed)
            regenerate(SCRATCH)
            mk = run(["timeout", "1800", "make", "Properties/LocksGen.vo"], cwd=COQ)
            ok = mk.returncode == 0
            gen = open(os.path.join(COQ, "Gen", "LocksGen.v")).read()
            translated = "gen_locks_translated : bool := true" in gen
            why = "" if ok else first_error(mk.stdout)
            note = ""
            fm = re.search(r"\(\* translation of (\w+) failed: (.*?) \*\)", gen, re.S)
            if fm:
                note = " [untranslatable %s: %s]" % (fm.group(1), " ".join(fm.group(2).split())[:170])
            irr = re.search(r"gen_locks_irregular : list text := \[(.*?)\]\.", gen)
            if irr and irr.group(1):
                names = re.findall(r'T "(\w+)"', irr.group(1))
                first = names[0]
                mp = re.search(r"Definition gen_locks_%s \(k : nat\) : list instr :=\s*(.*?)\.\n" % first, gen, re.S)
                note += " [irregular: %s; gen_locks_%s k = %s]" % (", ".join(names[:4]) + (" .." if len(names) > 4 else ""),
                                                                  first, " ".join(mp.group(1).split())[:150] if mp else "?")
            if not ok:
                note += diagnose()
            verdict = "pass" if ok and translated else "fail"
            flag = "as expected" if verdict == expect else "UNEXPECTED"
            print("%-4s (%s) %s%s%s" % (verdict.upper(), flag, label, (" -> " + why) if why else "", note))
            sys.stdout.flush()
            results.append(verdict == expect)
    finally:
        regenerate("/repo")
        mk = run(["timeout", "1800", "make", "Properties/LocksGen.vo"], cwd=COQ)
        print("restored from /repo:", "build ok" if mk.returncode == 0 else "BUILD FAILED")
        shutil.rmtree(SCRATCH, ignore_errors=True)
    print("%d/%d variants behaved as expected" % (sum(results), len(results)))
    return 0 if all(results) and mk.returncode == 0 else 1


if __name__ == "__main__":
    sys.exit(main())
