#!/usr/bin/env python3
"""Robustness / sensitivity demonstration for rs2coq part 8 (tools/rs2coq_links.py): the role-link building of
src/model/assertion.rs and the store mutators / link builders of src/model/default_model.rs.

For every variant: copy /repo/src to a scratch repo (tempfile.mkdtemp()), replace the body of one function, run
rs2coq_links on the scratch repo (it rewrites coq/Gen/LinksGen.v), rebuild PinChecks/PcLinksGen.vo and compare the
outcome with the expectation (meaning-preserving rewrite -> the proofs pass unchanged; change of meaning / outside
the subset -> the translation or a proof fails).  For a failing variant that WAS translated, a concrete input on
which the translated function and the specification differ is computed (vm_compute on a few fixed inputs), so that
a failed proof is seen to be a change of meaning and not a weakness of the tactic.  The pristine generated file is
restored at the end.

usage: python3 tools/rs2coq_demo_links.py [label-prefix ..]      e.g. `rs2coq_demo_links.py LN` for the negatives only
"""
import os
import re
import shutil
import subprocess
import sys
import tempfile

HERE = os.path.dirname(os.path.abspath(__file__))
ROOT = os.path.dirname(HERE)
COQ = os.path.join(ROOT, "coq")
SCRATCH = tempfile.mkdtemp(prefix="rs2coq_demo_links_")     # outside /repo and /verif; removed at the end
sys.path.insert(0, HERE)
import pins  # noqa: E402

AST = ("src/model/assertion.rs", r"impl\s+Assertion\b")
MDL = ("src/model/default_model.rs", r"impl\s+Model\s+for\s+DefaultModel")

ERR_US = '''return Err(ModelError::P(
                r#"the number of "_" in role definition should be at least 2"#
                    .to_owned(),
            )
            .into());'''
ERR_LEN = '''return Err(PolicyError::UnmatchPolicyDefinition(
                    count,
                    rule.len(),
                )
                .into());'''
ERR_DOM = '''return Err(ModelError::P(
                    "Multiple domains are not supported".to_owned(),
                )
                .into());'''
BRL_HEAD = '''{
        let count = self.value.matches('_').count();
        if count < 2 {
            %s
        }
''' % ERR_US
DISPATCH = '''match d {
            EventData::AddPolicy(_, _, rule) => Some((true, vec![rule])),
            EventData::AddPolicies(_, _, rules) => Some((true, rules)),
            EventData::RemovePolicy(_, _, rule) => Some((false, vec![rule])),
            EventData::RemovePolicies(_, _, rules) => Some((false, rules)),
            EventData::RemoveFilteredPolicy(_, _, rules) => {
                Some((false, rules))
            }
            _ => None,
        }'''
INC_LOOP = '''            for rule in rules {
                if rule.len() < count {
                    %s
                }
                if count == 2 {
                    if insert {
                        rm.write().add_link(&rule[0], &rule[1], None);
                    } else {
                        %%s
                    }
                } else if count == 3 {
                    if insert {
                        rm.write().add_link(&rule[0], &rule[1], Some(&rule[2]));
                    } else {
                        rm.write().delete_link(
                            &rule[0],
                            &rule[1],
                            Some(&rule[2]),
                        )?;
                    }
                } else if count >= 4 {
                    %s
                }
            }

            self.rm = Arc::clone(&rm);
''' % (ERR_LEN, ERR_DOM)
DEL2 = "rm.write().delete_link(&rule[0], &rule[1], None)?;"


def brl(loop, before_loop="", after_loop="self.rm = Arc::clone(&rm);"):
    """Assertion::build_role_links with the given loop body"""
    return BRL_HEAD + before_loop + "        for rule in &self.policy {\n" + loop + "\n        }\n        " + after_loop + "\n        Ok(())\n    }"


def birl(dispatch=DISPATCH, loop=None):
    """Assertion::build_incremental_role_links"""
    return BRL_HEAD + "\n        if let Some((insert, rules)) = " + dispatch + " {\n" + (loop or INC_LOOP % DEL2) + "        }\n\n        Ok(())\n    }"


BRL_LOOP = '''            if rule.len() < count {
                %s
            }
            if count == 2 {
                rm.write().add_link(&rule[0], &rule[1], None);
            } else if count == 3 {
                rm.write().add_link(&rule[0], &rule[1], Some(&rule[2]));
            } else if count >= 4 {
                %s
            }''' % (ERR_LEN, ERR_DOM)

LOOKUP_HEAD = '''        if let Some(ast_map) = self.model.get_mut(sec) {
            if let Some(ast) = ast_map.get_mut(ptype) {
'''
LOOKUP_TAIL = '''            }
        }
        false
    }'''


def store(inner, head=""):
    return "{\n" + head + LOOKUP_HEAD + inner + LOOKUP_TAIL


# (label, expectation, (file, impl anchor), function, new body)
VARIANTS = [
    ("LP0 unmodified sources", "pass", None, None, None),
    ("LP1 Assertion::build_role_links: `>= 4` tested first, then 3, else 2; length test as !(n >= count) on a let", "pass", AST,
     "build_role_links", brl('''            let n = rule.len();
            if !(n >= count) {
                %s
            }
            if count >= 4 {
                %s
            } else if count == 3 {
                rm.write().add_link(&rule[0], &rule[1], Some(&rule[2]));
            } else {
                rm.write().add_link(&rule[0], &rule[1], None);
            }''' % (ERR_LEN, ERR_DOM))),
    ("LP2 Assertion::build_incremental_role_links: insert / delete outermost, the count inside; 2 > count", "pass", AST,
     "build_incremental_role_links", '''{
        let count = self.value.matches('_').count();
        if 2 > count {
            %s
        }
        if let Some((insert, rules)) = %s {
            for rule in rules {
                if count > rule.len() {
                    %s
                }
                if count >= 4 {
                    %s
                }
                if insert {
                    if count == 3 {
                        rm.write().add_link(&rule[0], &rule[1], Some(&rule[2]));
                    } else {
                        rm.write().add_link(&rule[0], &rule[1], None);
                    }
                } else {
                    if count == 2 {
                        rm.write().delete_link(&rule[0], &rule[1], None)?;
                    } else {
                        rm.write().delete_link(&rule[0], &rule[1], Some(&rule[2]))?;
                    }
                }
            }
            self.rm = Arc::clone(&rm);
        }
        Ok(())
    }''' % (ERR_US, DISPATCH, ERR_LEN, ERR_DOM)),
    ("LP3 Assertion::build_incremental_role_links: the Result of delete_link bound to a let before `?`; arms reordered", "pass", AST,
     "build_incremental_role_links", birl(dispatch='''match d {
            EventData::RemovePolicies(_, _, rules) => Some((false, rules)),
            EventData::RemoveFilteredPolicy(_, _, removed) => Some((false, removed)),
            EventData::RemovePolicy(_, _, rule) => Some((false, vec![rule])),
            EventData::AddPolicies(_, _, rules) => Some((true, rules)),
            EventData::AddPolicy(_, _, r) => Some((true, vec![r])),
            EventData::SavePolicy(_) | EventData::ClearPolicy | EventData::ClearCache => None,
        }''', loop=INC_LOOP % '''let res = rm.write().delete_link(&rule[0], &rule[1], None);
                        res?;''')),
    ("LP4 add_policy: insert under the negated test, explicit returns", "pass", MDL, "add_policy", store('''                if !ast.policy.contains(&rule) {
                    ast.policy.insert(rule);
                    return true;
                }
                return false;
''')),
    ("LP5 add_policies: flag + break instead of the early return; else-branch insert", "pass", MDL, "add_policies", store('''                let mut clash = false;
                for rule in rules.iter() {
                    if ast.policy.contains(rule) {
                        clash = true;
                        break;
                    }
                }
                if clash {
                    return false;
                }
                for rule in rules {
                    if ast.policy.contains(&rule) {
                    } else {
                        ast.policy.insert(rule);
                    }
                }
                return true;
''', head='''        if rules.is_empty() {
            return false;
        }
''')),
    ("LP6 remove_policies: else-branch return, the bool returned by remove bound to a let", "pass", MDL, "remove_policies", store('''                for rule in rules.iter() {
                    if ast.policy.contains(rule) {
                    } else {
                        return false;
                    }
                }
                for rule in rules.iter() {
                    let _gone = ast.policy.remove(rule);
                }
                return true;
''', head='''        if rules.is_empty() {
            return false;
        }
''')),
    ("LP7 DefaultModel::build_incremental_role_links: alternatives reordered, \"g\" == sec", "pass", MDL,
     "build_incremental_role_links", '''{
        let target = match d {
            EventData::RemoveFilteredPolicy(ref sec, ref ptype, _)
            | EventData::RemovePolicies(ref sec, ref ptype, _)
            | EventData::AddPolicies(ref sec, ref ptype, _)
            | EventData::RemovePolicy(ref sec, ref ptype, _)
            | EventData::AddPolicy(ref sec, ref ptype, _)
                if "g" == sec =>
            {
                self.model
                    .get_mut(sec)
                    .and_then(|asts| asts.get_mut(ptype))
            }
            _ => None,
        };

        if let Some(ast) = target {
            let r = ast.build_incremental_role_links(rm, d);
            r?;
        }

        Ok(())
    }'''),
    ("LP8 DefaultModel::build_role_links: the Result bound to a let, `return` of Ok", "pass", MDL, "build_role_links", '''{
        if let Some(asts) = self.model.get_mut("g") {
            for ast in asts.values_mut() {
                let r = ast.build_role_links(Arc::clone(&rm));
                r?;
            }
        }
        return Ok(());
    }'''),
    # ---- changes of meaning
    ("LN1 (i) incremental deletion guarded by `another stored rule has the same first two fields` (r.get(..2))", "fail", AST,
     "build_incremental_role_links", birl(loop=INC_LOOP % '''let shadowed = self.policy.iter().any(|r| r.get(..2) == rule.get(..2));
                        if !shadowed {
                            rm.write().delete_link(&rule[0], &rule[1], None)?;
                        }''')),
    ("LN1b (i) the same guard written as a loop over the stored rules (inside the subset)", "fail", AST,
     "build_incremental_role_links", birl(loop=INC_LOOP % '''let mut shadowed = false;
                        for r in &self.policy {
                            if r[0] == rule[0] && r[1] == rule[1] {
                                shadowed = true;
                                break;
                            }
                        }
                        if !shadowed {
                            rm.write().delete_link(&rule[0], &rule[1], None)?;
                        }''')),
    ("LN2 (ii) build_role_links returns early, before `self.rm = rm`, when the assertion has no rules", "fail", AST,
     "build_role_links", brl(BRL_LOOP, before_loop='''        if self.policy.is_empty() {
            return Ok(());
        }
''')),
    ("LN3 (iii) add_policies returns false but still inserts when a rule repeats inside the batch", "fail", MDL, "add_policies", store('''                for rule in &rules {
                    if ast.policy.contains(rule) {
                        return false;
                    }
                }
                let mut ok = true;
                for rule in rules {
                    if !ast.policy.contains(&rule) {
                        ast.policy.insert(rule);
                    } else {
                        ok = false;
                    }
                }
                return ok;
''', head='''        if rules.is_empty() {
            return false;
        }
''')),
    ("LN4 (iv) add_policy re-inserts (moves to the back) an existing rule", "fail", MDL, "add_policy", store('''                let present = ast.policy.contains(&rule);
                ast.policy.insert(rule);
                return !present;
''')),
    ("LN5 (v) count == 3 uses rule[1] as the domain", "fail", AST, "build_role_links",
     brl(BRL_LOOP.replace("Some(&rule[2])", "Some(&rule[1])"))),
    ("LN6 (vi) the RemoveFilteredPolicy arm rebuilds everything when more than one rule was removed", "fail", AST,
     "build_incremental_role_links", birl(dispatch=DISPATCH.replace('''{
                Some((false, rules))
            }''', '''{
                if rules.len() > 1 {
                    rm.write().clear();
                    return self.build_role_links(rm);
                }
                Some((false, rules))
            }'''))),
    ("LN6b (vi) inside the subset: more than one removed rule -> the stored rules are linked again instead", "fail", AST,
     "build_incremental_role_links", '''{
        let count = self.value.matches('_').count();
        if count < 2 {
            %s
        }

        if let Some((insert, rules)) = %s {
            if !insert && rules.len() > 1 {
                for rule in &self.policy {
                    if rule.len() < count {
                        %s
                    }
                    if count == 2 {
                        rm.write().add_link(&rule[0], &rule[1], None);
                    } else if count == 3 {
                        rm.write().add_link(&rule[0], &rule[1], Some(&rule[2]));
                    } else if count >= 4 {
                        %s
                    }
                }
                self.rm = Arc::clone(&rm);
                return Ok(());
            }
%s        }

        Ok(())
    }''' % (ERR_US, DISPATCH, ERR_LEN, ERR_DOM, INC_LOOP % DEL2)),
    ("LN7 build_role_links: the `>= 4` test hoisted out of the loop (an error even without rules)", "fail", AST,
     "build_role_links", brl('''            if rule.len() < count {
                %s
            }
            if count == 2 {
                rm.write().add_link(&rule[0], &rule[1], None);
            } else {
                rm.write().add_link(&rule[0], &rule[1], Some(&rule[2]));
            }''' % ERR_LEN, before_loop='''        if count >= 4 {
            %s
        }
''' % ERR_DOM)),
    ("LN8 build_incremental_role_links: self.rm redirected although a deletion failed (`?` dropped)", "fail", AST,
     "build_incremental_role_links", birl(loop=(INC_LOOP % DEL2).replace("None)?;", "None);"))),
    ("LN9 incremental: AddPolicies treated as a deletion", "fail", AST, "build_incremental_role_links",
     birl(dispatch=DISPATCH.replace("AddPolicies(_, _, rules) => Some((true, rules))", "AddPolicies(_, _, rules) => Some((false, rules))"))),
    ("LN10 remove_policies: not all-or-nothing (removes what it finds)", "fail", MDL, "remove_policies", store('''                let mut all = true;
                for rule in &rules {
                    if !ast.policy.remove(rule) {
                        all = false;
                    }
                }
                return all;
''', head='''        if rules.is_empty() {
            return false;
        }
''')),
    ("LN11 clear_policy: only the p section", "fail", MDL, "clear_policy", '''{
        if let Some(model_p) = self.model.get_mut("p") {
            for ast in model_p.values_mut() {
                ast.policy.clear();
            }
        }
    }'''),
    ("LN12 DefaultModel::build_role_links: stops at the first definition", "fail", MDL, "build_role_links", '''{
        if let Some(asts) = self.model.get_mut("g") {
            for ast in asts.values_mut() {
                ast.build_role_links(Arc::clone(&rm))?;
                break;
            }
        }
        Ok(())
    }'''),
    ("LN13 DefaultModel::build_incremental_role_links: every section, not only \"g\"", "fail", MDL,
     "build_incremental_role_links", '''{
        let ast = match d {
            EventData::AddPolicy(ref sec, ref ptype, _)
            | EventData::AddPolicies(ref sec, ref ptype, _)
            | EventData::RemovePolicy(ref sec, ref ptype, _)
            | EventData::RemovePolicies(ref sec, ref ptype, _)
            | EventData::RemoveFilteredPolicy(ref sec, ref ptype, _) =>
            {
                self.model
                    .get_mut(sec)
                    .and_then(|ast_map| ast_map.get_mut(ptype))
            }
            _ => None,
        };

        if let Some(ast) = ast {
            ast.build_incremental_role_links(rm, d)?;
        }

        Ok(())
    }'''),
]


def run(cmd, **kw):
    return subprocess.run(cmd, stdout=subprocess.PIPE, stderr=subprocess.STDOUT, text=True, **kw)


# ---- witness: pairs (translated function, specification) on fixed inputs, printed by vm_compute and compared here
WITNESS_HEAD = r"""
From CV Require Import Model.Base Model.RoleGraph Model.Enforce Model.Engine Gen.InternalPrims.
From CV Require Import Gen.RustStr Gen.RustVec Gen.LinksPrims Gen.LinksGen Proofs.RustLinksP.
Definition G (v : string) (p : list rule) : assertion := {| a_value := T v; a_tokens := []; a_policy := p; a_handle := HOwn |}.
Definition R0 : rmgr := snd (fst (ast_links_spec HCur true [[T "alice"; T "admin"]; [T "bob"; T "admin"]] (G "_, _" []) [])).
Definition MD : model :=
  [(T "p", [(T "p", G "sub, obj, act" [[T "alice"; T "data1"; T "read"]])]);
   (T "g", [(T "g", G "_, _" [[T "alice"; T "admin"]]); (T "g2", G "_, _" [[T "bob"; T "admin"]])])].
Definition P : list rule := [[T "alice"; T "data1"; T "read"]; [T "bob"; T "data2"; T "write"]].
"""
# (function, description of the input, generated term, specification term)
WITNESS = [
    ("Assertion::build_role_links", "no stored rule", 'gen_ast_build_role_links HCur (G "_, _" []) []',
     'Some (ast_links_spec HCur true [] (G "_, _" []) [])'),
    ("Assertion::build_role_links", "value `_, _, _`, one rule [alice, admin, dom1]",
     'gen_ast_build_role_links HCur (G "_, _, _" [[T "alice"; T "admin"; T "dom1"]]) []',
     'Some (ast_links_spec HCur true [[T "alice"; T "admin"; T "dom1"]] (G "_, _, _" [[T "alice"; T "admin"; T "dom1"]]) [])'),
    ("Assertion::build_role_links", "value `_, _, _, _`, no stored rule", 'gen_ast_build_role_links HCur (G "_, _, _, _" []) []',
     'Some (ast_links_spec HCur true [] (G "_, _, _, _" []) [])'),
    ("Assertion::build_role_links", "a short second rule", 'gen_ast_build_role_links HCur (G "_, _" [[T "alice"; T "admin"]; [T "bob"]]) []',
     'Some (ast_links_spec HCur true [[T "alice"; T "admin"]; [T "bob"]] (G "_, _" [[T "alice"; T "admin"]; [T "bob"]]) [])'),
    ("Assertion::build_incremental_role_links", "RemovePolicy [alice, admin] while [alice, admin, x] is stored",
     'gen_ast_build_incremental_role_links HCur (EvRemove (T "g") (T "g") [T "alice"; T "admin"]) (G "_, _" [[T "alice"; T "admin"; T "x"]]) R0',
     'Some (ast_incremental_spec HCur (EvRemove (T "g") (T "g") [T "alice"; T "admin"]) (G "_, _" [[T "alice"; T "admin"; T "x"]]) R0)'),
    ("Assertion::build_incremental_role_links", "RemoveFilteredPolicy with two rules",
     'gen_ast_build_incremental_role_links HCur (EvRemoveFiltered (T "g") (T "g") [[T "alice"; T "admin"]; [T "bob"; T "admin"]]) (G "_, _" [[T "carol"; T "admin"]]) R0',
     'Some (ast_incremental_spec HCur (EvRemoveFiltered (T "g") (T "g") [[T "alice"; T "admin"]; [T "bob"; T "admin"]]) (G "_, _" [[T "carol"; T "admin"]]) R0)'),
    ("Assertion::build_incremental_role_links", "RemovePolicies, the second rule names an unknown role",
     'gen_ast_build_incremental_role_links HCur (EvRemoveMany (T "g") (T "g") [[T "alice"; T "admin"]; [T "zed"; T "admin"]]) (G "_, _" []) R0',
     'Some (ast_incremental_spec HCur (EvRemoveMany (T "g") (T "g") [[T "alice"; T "admin"]; [T "zed"; T "admin"]]) (G "_, _" []) R0)'),
    ("Assertion::build_incremental_role_links", "AddPolicies [[carol, admin]]",
     'gen_ast_build_incremental_role_links HCur (EvAddMany (T "g") (T "g") [[T "carol"; T "admin"]]) (G "_, _" []) R0',
     'Some (ast_incremental_spec HCur (EvAddMany (T "g") (T "g") [[T "carol"; T "admin"]]) (G "_, _" []) R0)'),
    ("DefaultModel::build_role_links", "two g definitions", "gen_model_build_role_links HCur MD []", "model_links_spec HCur MD []"),
    ("DefaultModel::build_incremental_role_links", "AddPolicy p p [carol, admin]",
     'gen_model_build_incremental_role_links HCur (EvAdd (T "p") (T "p") [T "carol"; T "admin"]) MD []',
     'Some (model_incremental_spec HCur (EvAdd (T "p") (T "p") [T "carol"; T "admin"]) MD [])'),
    ("DefaultModel::build_incremental_role_links", "AddPolicy g g2 [carol, admin]",
     'gen_model_build_incremental_role_links HCur (EvAdd (T "g") (T "g2") [T "carol"; T "admin"]) MD []',
     'Some (model_incremental_spec HCur (EvAdd (T "g") (T "g2") [T "carol"; T "admin"]) MD [])'),
    ("add_policy", "a rule that is stored, not last", 'gen_add_policy [T "alice"; T "data1"; T "read"] P',
     'Some (add_policy_spec [T "alice"; T "data1"; T "read"] P)'),
    ("add_policy", "a new rule", 'gen_add_policy [T "carol"] P', 'Some (add_policy_spec [T "carol"] P)'),
    ("add_policies", "[[carol], [carol]]", 'gen_add_policies [[T "carol"]; [T "carol"]] P', 'Some (add_policies_spec [[T "carol"]; [T "carol"]] P)'),
    ("add_policies", "[[carol], [bob, data2, write]]", 'gen_add_policies [[T "carol"]; [T "bob"; T "data2"; T "write"]] P',
     'Some (add_policies_spec [[T "carol"]; [T "bob"; T "data2"; T "write"]] P)'),
    ("remove_policy", "a stored rule", 'gen_remove_policy [T "alice"; T "data1"; T "read"] P', 'Some (remove_policy_spec [T "alice"; T "data1"; T "read"] P)'),
    ("remove_policies", "[[bob, data2, write], [zed]]", 'gen_remove_policies [[T "bob"; T "data2"; T "write"]; [T "zed"]] P',
     'Some (remove_policies_spec [[T "bob"; T "data2"; T "write"]; [T "zed"]] P)'),
    ("clear_policy", "p and g sections with rules", "gen_clear_policy MD", "Some (m_clear_policy MD)"),
]


def witness():
    path = os.path.join(SCRATCH, "Witness.v")
    txt = WITNESS_HEAD
    for _fn, _d, g, s in WITNESS:
        txt += "Eval vm_compute in (%s).\nEval vm_compute in (%s).\n" % (g, s)
    open(path, "w").write(txt)
    r = run(["timeout", "300", "coqc", "-Q", ".", "CV", path], cwd=COQ)
    vals = [" ".join(x.split()) for x in re.findall(r"^\s*= (.*?)\n\s*: ", r.stdout, re.S | re.M)]
    if r.returncode != 0 or len(vals) != 2 * len(WITNESS):
        return "witness computation failed"
    for k, (fn, descr, _g, _s) in enumerate(WITNESS):
        if vals[2 * k] != vals[2 * k + 1]:
            return "%s differs from the specification on: %s" % (fn, descr)
    return "no difference on the fixed inputs"


def replace_body(where, fn, body):
    rel, anchor = where
    path = os.path.join(SCRATCH, rel)
    src = open(path, encoding="utf-8").read()
    start = re.search(anchor, src).start()
    old = pins.fn_body(src, r"fn\s+%s\s*\(" % fn, start)
    assert old is not None and src.count(old) == 1, fn
    open(path, "w", encoding="utf-8").write(src.replace(old, body))


def regenerate(repo):
    env = dict(os.environ, VERIF_REPO=repo)
    return run([sys.executable, os.path.join(HERE, "rs2coq_links.py"), os.path.join(COQ, "Gen")], env=env)


def main():
    only = sys.argv[1:]
    results = []
    for label, expect, where, fn, body in VARIANTS:
        if only and not any(label.startswith(o) for o in only):
            continue
        shutil.rmtree(SCRATCH, ignore_errors=True)
        shutil.copytree("/repo/src", os.path.join(SCRATCH, "src"))
        if fn is not None:
            replace_body(where, fn, body)
        regenerate(SCRATCH)
        mk = run(["timeout", "900", "make", "PinChecks/PcLinksGen.vo"], cwd=COQ)
        ok = mk.returncode == 0
        why = ""
        if not ok:
            m = re.search(r'File "\./PinChecks/PcLinksGen\.v", line (\d+).*?\n(Error:.*?)(?:\n\n|\nmake)', mk.stdout, re.S)
            if m:
                thm = ""
                lines = open(os.path.join(COQ, "PinChecks", "PcLinksGen.v")).read().split("\n")
                for k in range(int(m.group(1)) - 1, -1, -1):
                    mm = re.match(r"(?:Theorem|Lemma|Example)\s+(\w+)", lines[k])
                    if mm:
                        thm = mm.group(1)
                        break
                why = "%s: %s" % (thm, " ".join(m.group(2).split())[:90])
            else:
                why = " ".join(mk.stdout.strip().split("\n")[-3:])[:200]
        gen = open(os.path.join(COQ, "Gen", "LinksGen.v")).read()
        note = ""
        fm = re.search(r"\(\* translation of (\w+) \((\w+)\) failed: (.*?) \*\)", gen, re.S)
        if fm:
            note = " [untranslatable %s: %s]" % (fm.group(2), fm.group(3))
        if not ok and not fm:
            mk2 = run(["timeout", "900", "make", "Gen/LinksGen.vo"], cwd=COQ)
            note += " [witness: %s]" % (witness() if mk2.returncode == 0 else "Gen/LinksGen.v does not compile")
        verdict = "pass" if ok else "fail"
        flag = "as expected" if verdict == expect else "UNEXPECTED"
        print("%-4s (%s) %s%s%s" % (verdict.upper(), flag, label, (" -> " + str(why)) if why else "", note))
        sys.stdout.flush()
        results.append(verdict == expect)
    # restore the pristine generated file
    regenerate("/repo")
    mk = run(["timeout", "900", "make", "PinChecks/PcLinksGen.vo"], cwd=COQ)
    print("restored from /repo:", "build ok" if mk.returncode == 0 else "BUILD FAILED")
    shutil.rmtree(SCRATCH, ignore_errors=True)
    print("%d/%d variants behaved as expected" % (sum(results), len(results)))
    return 0 if all(results) and mk.returncode == 0 else 1


if __name__ == "__main__":
    sys.exit(main())
